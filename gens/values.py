"""Boundary value grids shared by the checks (DESIGN 3.1)."""
import math

from oracles.prims import UNDEF, js_literal

INF = math.inf
NAN = math.nan

NUMS = [
    0.0, -0.0, 1.0, -1.0, 0.5, -0.5, 1.5, -1.5, 2.5, -2.5, 0.1, 0.30000000000000004,
    2.0, 3.0, 7.0, -7.0, 10.0, 16.0, 31.0, 32.0, 33.0, 36.0, 255.0, 256.0, 65535.0, 65536.0,
    2147483647.0, 2147483648.0, 2147483649.0, 4294967295.0, 4294967296.0, 4294967297.0,
    -2147483648.0, -2147483649.0, 9007199254740991.0, 9007199254740992.0, 9007199254740994.0,
    -9007199254740992.0, 1e21, 999999999999999868928.0, 1e-6, 1e-7, 5e-324, 2.2250738585072014e-308,
    1.7976931348623157e308, INF, -INF, NAN, 123456789.0, 0.000001234, 3.141592653589793,
    1e300, -1e300, 1024.0, 1e15, 123456789012345680000.0,
]

STRS = [
    "", " ", "0", "-0", "1", " 12 ", "1.5", ".5", "5.", "1e3", "0x10", "0b11", "0o17", "Infinity",
    "-Infinity", "NaN", "abc", "a", "b", "A", "true", "null", "undefined", "1,2", "\uff11",
    "1_0", "\t\n1", "é", "12px", "+1", "++1", "1e", "1e1000", "-0x10", "10", "9", "\u0663", "\u00a0",
    "0x", "1 2", "2", "-1", "1.0", "00", "1e-7",
]

OTHERS = [True, False, None, UNDEF]


def renderings(v):
    """All (source text, tag) spellings of primitive v that put it into the
    engine in a different host representation."""
    if isinstance(v, float) and v == v and abs(v) != INF and float(v).is_integer() and abs(v) < 1e21:
        lit = js_literal(v)
        out = [(lit, "int")]
        # the same number as a host float: division always yields a float
        if not (v == 0 and math.copysign(1, v) < 0):
            out.append(("(%s/1)" % lit, "flt"))
        return out
    return [(js_literal(v), "lit")]


def grid():
    """[(value, source, tag)] over the whole primitive grid."""
    g = []
    for v in NUMS + STRS + OTHERS:
        for src, tag in renderings(v):
            g.append((v, src, tag))
    return g


def is_boundary(v):
    if isinstance(v, float):
        return v != v or v == 0 or abs(v) == INF or abs(v) >= 2 ** 31 or not float(v).is_integer()
    if isinstance(v, str):
        from oracles.prims import to_number, num_to_str

        n = to_number(v)
        return not (n == n and num_to_str(n) == v)
    return True
