"""Regex pattern ASTs (DESIGN 3.4): constructors, printer, parser, exhaustive
enumerator, Hypothesis strategy, subject generator biased to match.

An AST is a nested tuple (JSON round-trips through from_json):

  ("char", c)                         literal character
  ("dot",)
  ("esc", k)                          k in d D w W s S
  ("class", neg, items)               items: ("c", ch) | ("r", lo, hi) | ("e", k)
  ("seq", (n1, ..., nk))              k >= 0 (k = 0 is the empty pattern)
  ("alt", (n1, ..., nk))              k >= 1
  ("group", index, body)              capturing; index = 1.. in order of the opening parenthesis
  ("ncgroup", body)                   (?:...)
  ("quant", min, max, greedy, body)   max None = unbounded
  ("bol",) ("eol",) ("wb", neg)
  ("backref", n)                      only to groups whose "(" is to the left
  ("look", ahead, neg, body)          (?= (?! (?<= (?<!

Nothing in here looks at the engine.
"""
import random

# ------------------------------------------------------------------ constructors
DOT = ("dot",)
BOL = ("bol",)
EOL = ("eol",)
EMPTY = ("seq", ())


def char(c):
    return ("char", c)


def esc(k):
    return ("esc", k)


def cls(neg, items):
    return ("class", bool(neg), tuple(tuple(i) for i in items))


def seq(*xs):
    return ("seq", tuple(xs))


def alt(*xs):
    return ("alt", tuple(xs))


def group(body, index=None):
    return ("group", index, body)


def ncgroup(body):
    return ("ncgroup", body)


def quant(body, mn, mx, greedy=True):
    return ("quant", mn, mx, bool(greedy), body)


def wb(neg=False):
    return ("wb", bool(neg))


def backref(n):
    return ("backref", n)


def look(body, ahead=True, neg=False):
    return ("look", bool(ahead), bool(neg), body)


def from_json(o):
    """Lists (from JSON) back to the tuple form."""
    if isinstance(o, (list, tuple)):
        return tuple(from_json(x) for x in o)
    return o


def children(n):
    k = n[0]
    if k in ("seq", "alt"):
        return list(n[1])
    if k == "group":
        return [n[2]]
    if k == "ncgroup":
        return [n[1]]
    if k == "quant":
        return [n[4]]
    if k == "look":
        return [n[3]]
    return []


def with_children(n, cs):
    k = n[0]
    if k in ("seq", "alt"):
        return (k, tuple(cs))
    if k == "group":
        return ("group", n[1], cs[0])
    if k == "ncgroup":
        return ("ncgroup", cs[0])
    if k == "quant":
        return ("quant", n[1], n[2], n[3], cs[0])
    if k == "look":
        return ("look", n[1], n[2], cs[0])
    return n


def size(n):
    return 1 + sum(size(c) for c in children(n))


def depth(n):
    cs = children(n)
    return 0 if not cs else 1 + max(depth(c) for c in cs)


def walk(n):
    yield n
    for c in children(n):
        yield from walk(c)


def count_groups(n):
    return sum(1 for x in walk(n) if x[0] == "group")


def kinds(n):
    """Sorted construct tags of a pattern (for signatures / classification)."""
    out = set()
    for x in walk(n):
        k = x[0]
        if k == "look":
            out.add("look" + ("=" if x[1] else "<") + ("!" if x[2] else ""))
        elif k == "quant":
            mn, mx, g = x[1], x[2], x[3]
            if (mn, mx) == (0, None):
                t = "*"
            elif (mn, mx) == (1, None):
                t = "+"
            elif (mn, mx) == (0, 1):
                t = "?"
            else:
                t = "{}"
            out.add("q" + t + ("" if g else "lazy"))
        elif k == "seq":
            if len(x[1]) == 0:
                out.add("empty")
        elif k == "wb":
            out.add("wb")
        elif k in ("char",):
            pass
        else:
            out.add(k)
    return sorted(out)


def number(n, fix_backrefs=True):
    """Assign group indices in order of the opening parenthesis (pre-order) and,
    when fix_backrefs, map every backreference onto a group opened to its left
    (a backreference with no group to its left becomes the literal 'a').
    Returns (ast, ngroups)."""
    counter = [0]

    def go(x):
        k = x[0]
        if k == "group":
            counter[0] += 1
            idx = counter[0]
            return ("group", idx, go(x[2]))
        if k == "backref":
            if not fix_backrefs:
                return x
            if counter[0] == 0:
                return ("char", "a")
            return ("backref", 1 + (x[1] - 1) % counter[0])
        cs = children(x)
        if not cs:
            return x
        return with_children(x, [go(c) for c in cs])

    out = go(n)
    return out, counter[0]


def valid(n):
    """Group indices are 1..k in pre-order and backreferences point left."""
    counter = [0]
    ok = [True]

    def go(x):
        k = x[0]
        if k == "group":
            counter[0] += 1
            if x[1] != counter[0]:
                ok[0] = False
        elif k == "backref":
            if not (1 <= x[1] <= counter[0]):
                ok[0] = False
        elif k == "class":
            for it in x[2]:
                if it[0] == "r" and it[1] > it[2]:
                    ok[0] = False
        elif k == "quant":
            if x[2] is not None and x[2] < x[1]:
                ok[0] = False
        elif k == "alt" and len(x[1]) == 0:
            ok[0] = False
        for c in children(x):
            go(c)

    go(n)
    return ok[0]


# ------------------------------------------------------------------------ printer
_SYNTAX = set("^$\\.*+?()[]{}|/")
_CTRL = {"\n": "\\n", "\r": "\\r", "\t": "\\t", "\v": "\\v", "\f": "\\f"}


def _p_char(c):
    if c in _CTRL:
        return _CTRL[c]
    if c in _SYNTAX:
        return "\\" + c
    o = ord(c)
    if o < 0x20 or o == 0x7F:
        return "\\x%02x" % o
    if o in (0x2028, 0x2029) or 0xD800 <= o <= 0xDFFF:
        return "\\u%04x" % o
    return c


def _p_class_char(c):
    if c in _CTRL:
        return _CTRL[c]
    if c in "\\]^-[/":
        return "\\" + c
    o = ord(c)
    if o < 0x20 or o == 0x7F:
        return "\\x%02x" % o
    if o in (0x2028, 0x2029) or 0xD800 <= o <= 0xDFFF:
        return "\\u%04x" % o
    return c


def _p_class(n):
    out = ["[", "^" if n[1] else ""]
    for it in n[2]:
        if it[0] == "c":
            out.append(_p_class_char(it[1]))
        elif it[0] == "r":
            out.append(_p_class_char(it[1]) + "-" + _p_class_char(it[2]))
        else:
            out.append("\\" + it[1])
    out.append("]")
    return "".join(out)


def _q_suffix(mn, mx, greedy):
    if (mn, mx) == (0, None):
        s = "*"
    elif (mn, mx) == (1, None):
        s = "+"
    elif (mn, mx) == (0, 1):
        s = "?"
    elif mx is None:
        s = "{%d,}" % mn
    elif mx == mn:
        s = "{%d}" % mn
    else:
        s = "{%d,%d}" % (mn, mx)
    return s + ("" if greedy else "?")


def _p_disj(n):
    if n[0] == "alt":
        return "|".join(_p_alternative(c) for c in n[1])
    return _p_alternative(n)


def _flat_terms(n, out):
    for c in n[1]:
        if c[0] == "seq":
            _flat_terms(c, out)  # concatenation is associative in both directions
        else:
            out.append(c)


def _p_alternative(n):
    if n[0] == "seq":
        terms = []
        _flat_terms(n, terms)
        parts = []
        for i, t in enumerate(terms):
            s = _p_term(t)
            if t[0] == "backref" and i + 1 < len(terms):
                nxt = _p_term(terms[i + 1])
                if nxt[:1].isdigit():
                    s = "(?:" + s + ")"  # \1 followed by a digit would read as \1x
            parts.append(s)
        return "".join(parts)
    if n[0] == "alt":
        return "(?:" + _p_disj(n) + ")"
    return _p_term(n)


def _p_term(n):
    k = n[0]
    if k == "quant":
        return _p_atom(n[4]) + _q_suffix(n[1], n[2], n[3])
    if k == "bol":
        return "^"
    if k == "eol":
        return "$"
    if k == "wb":
        return "\\B" if n[1] else "\\b"
    if k == "look":
        return "(?" + ("" if n[1] else "<") + ("!" if n[2] else "=") + _p_disj(n[3]) + ")"
    if k in ("seq", "alt"):
        return "(?:" + _p_disj(n) + ")"
    return _p_atom(n)


def _p_atom(n):
    """Text of n in a position where only an Atom is allowed (quantifier operand)."""
    k = n[0]
    if k == "char":
        return _p_char(n[1])
    if k == "dot":
        return "."
    if k == "esc":
        return "\\" + n[1]
    if k == "class":
        return _p_class(n)
    if k == "group":
        return "(" + _p_disj(n[2]) + ")"
    if k == "ncgroup":
        return "(?:" + _p_disj(n[1]) + ")"
    if k == "backref":
        return "\\%d" % n[1]
    # assertions, sequences, alternations and quantified terms are not atoms
    return "(?:" + _p_disj(n) + ")"


def to_source(n):
    """Pattern text; (?:...) is added exactly where precedence needs it."""
    return _p_disj(n)


# ------------------------------------------------------------------------- parser
class PatternSyntaxError(Exception):
    pass


def parse(text):
    """Pattern text (the syntax to_source emits, plus common escapes) -> AST."""
    p = _Parser(text)
    n = p.disj()
    if p.i != len(text):
        raise PatternSyntaxError("unexpected %r at %d" % (text[p.i], p.i))
    if not valid(n):
        raise PatternSyntaxError("invalid pattern (forward reference, bad range or count)")
    return n


class _Parser:
    def __init__(self, t):
        self.t = t
        self.i = 0
        self.groups = 0

    def peek(self):
        return self.t[self.i] if self.i < len(self.t) else ""

    def eat(self, s):
        if self.t.startswith(s, self.i):
            self.i += len(s)
            return True
        return False

    def disj(self):
        alts = [self.alternative()]
        while self.eat("|"):
            alts.append(self.alternative())
        return alts[0] if len(alts) == 1 else ("alt", tuple(alts))

    def alternative(self):
        terms = []
        while self.i < len(self.t) and self.peek() not in "|)":
            terms.append(self.term())
        return terms[0] if len(terms) == 1 else ("seq", tuple(terms))

    def term(self):
        c = self.peek()
        if c == "^":
            self.i += 1
            return BOL
        if c == "$":
            self.i += 1
            return EOL
        if self.eat("\\b"):
            return ("wb", False)
        if self.eat("\\B"):
            return ("wb", True)
        for pre, ahead, neg in (("(?=", True, False), ("(?!", True, True), ("(?<=", False, False), ("(?<!", False, True)):
            if self.eat(pre):
                body = self.disj()
                if not self.eat(")"):
                    raise PatternSyntaxError("unterminated group")
                return ("look", ahead, neg, body)
        a = self.atom()
        return self.quantifier(a)

    def quantifier(self, a):
        c = self.peek()
        if c == "*":
            mn, mx = 0, None
            self.i += 1
        elif c == "+":
            mn, mx = 1, None
            self.i += 1
        elif c == "?":
            mn, mx = 0, 1
            self.i += 1
        elif c == "{":
            j = self.t.find("}", self.i)
            if j < 0:
                raise PatternSyntaxError("bad quantifier")
            body = self.t[self.i + 1 : j]
            parts = body.split(",")
            if not parts[0].isdigit() or len(parts) > 2 or (len(parts) == 2 and parts[1] and not parts[1].isdigit()):
                raise PatternSyntaxError("bad quantifier")
            mn = int(parts[0])
            mx = mn if len(parts) == 1 else (int(parts[1]) if parts[1] else None)
            self.i = j + 1
        else:
            return a
        greedy = not self.eat("?")
        return ("quant", mn, mx, greedy, a)

    def atom(self):
        c = self.peek()
        if c == ".":
            self.i += 1
            return DOT
        if c == "(":
            if self.eat("(?:"):
                body = self.disj()
                if not self.eat(")"):
                    raise PatternSyntaxError("unterminated group")
                return ("ncgroup", body)
            if self.t.startswith("(?", self.i):
                raise PatternSyntaxError("unsupported group")
            self.i += 1
            self.groups += 1
            idx = self.groups
            body = self.disj()
            if not self.eat(")"):
                raise PatternSyntaxError("unterminated group")
            return ("group", idx, body)
        if c == "[":
            return self.klass()
        if c == "\\":
            self.i += 1
            e = self.peek()
            if e == "":
                raise PatternSyntaxError("trailing backslash")
            if e in "dDwWsS":
                self.i += 1
                return ("esc", e)
            if e.isdigit() and e != "0":
                j = self.i
                while j < len(self.t) and self.t[j].isdigit():
                    j += 1
                n = int(self.t[self.i : j])
                self.i = j
                return ("backref", n)
            return ("char", self.escape_char())
        if c in "*+?{}|)]" or c == "":
            raise PatternSyntaxError("unexpected %r at %d" % (c, self.i))
        self.i += 1
        return ("char", c)

    def escape_char(self):
        e = self.peek()
        self.i += 1
        m = {"n": "\n", "r": "\r", "t": "\t", "v": "\v", "f": "\f", "0": "\0"}
        if e in m:
            return m[e]
        if e == "x":
            h = self.t[self.i : self.i + 2]
            self.i += 2
            return chr(int(h, 16))
        if e == "u":
            h = self.t[self.i : self.i + 4]
            self.i += 4
            return chr(int(h, 16))
        if e.isalnum():
            raise PatternSyntaxError("unsupported escape \\%s" % e)
        return e

    def class_atom(self):
        c = self.peek()
        if c == "\\":
            self.i += 1
            e = self.peek()
            if e in "dDwWsS":
                self.i += 1
                return ("e", e)
            if e == "b":
                self.i += 1
                return ("c", "\b")
            return ("c", self.escape_char())
        self.i += 1
        return ("c", c)

    def klass(self):
        self.i += 1
        neg = self.eat("^")
        items = []
        while True:
            if self.i >= len(self.t):
                raise PatternSyntaxError("unterminated class")
            if self.eat("]"):
                break
            a = self.class_atom()
            if a[0] == "c" and self.peek() == "-" and self.t[self.i + 1 : self.i + 2] not in ("]", ""):
                save = self.i
                self.i += 1
                b = self.class_atom()
                if b[0] == "c":
                    items.append(("r", a[1], b[1]))
                    continue
                self.i = save
            items.append(a)
        return ("class", neg, tuple(items))


# --------------------------------------------------------------------- enumerator
# the small alphabet of DESIGN C09
SMALL_ATOMS = [
    ("char", "a"),
    ("char", "b"),
    DOT,
    ("class", False, (("c", "a"), ("c", "b"))),
    ("class", True, (("c", "a"),)),
    ("esc", "w"),
    BOL,
    EOL,
    ("wb", False),
    EMPTY,
]
SMALL_QUANTS = [(0, None, True), (1, None, True), (0, 1, True), (2, 2, True), (1, 2, True),
                (0, None, False), (1, None, False), (0, 1, False)]
SMALL_LOOKS = [(True, False), (True, True), (False, False), (False, True)]


def _enum(n, g, memo):
    """All ASTs with exactly n nodes when g groups are already open to the left."""
    key = (n, g)
    if key in memo:
        return memo[key]
    out = []
    if n == 1:
        out.extend(SMALL_ATOMS)
        for k in range(1, g + 1):
            out.append(("backref", k))
    elif n >= 2:
        for b in _enum(n - 1, g + 1, memo):
            out.append(("group", g + 1, b))
        for b in _enum(n - 1, g, memo):
            out.append(("ncgroup", b))
            for mn, mx, gr in SMALL_QUANTS:
                out.append(("quant", mn, mx, gr, b))
            for ah, ng in SMALL_LOOKS:
                out.append(("look", ah, ng, b))
        for i in range(1, n - 1):
            for x in _enum(i, g, memo):
                gx = count_groups(x)
                for y in _enum(n - 1 - i, g + gx, memo):
                    out.append(("seq", (x, y)))
                    out.append(("alt", (x, y)))
    memo[key] = out
    return out


def enumerate_asts(max_nodes, min_nodes=1):
    """All ASTs with min_nodes..max_nodes nodes over the small alphabet, in a fixed
    order, without two ASTs that print to the same text."""
    memo = {}
    seen = set()
    out = []
    for n in range(1, max_nodes + 1):
        for a in _enum(n, 0, memo):
            t = to_source(a)
            if t in seen:
                continue
            seen.add(t)
            if n >= min_nodes:
                out.append(a)
    return out


# Sequences of three small terms: the interactions between neighbouring quantifiers, optional groups,
# backreferences and assertions (backtracking across terms, stale captures) that the node-count-bounded
# enumeration reaches only at 6-9 nodes.
SEQ3_TERM_TEXTS = (
    ["a", "b", ".", "[ab]"]
    + [x + q for x in ("a", ".") for q in ("*", "+", "?", "*?", "+?", "??", "{1,2}", "{2}")]
    + ["b*", "b?", "b+?"]
    + ["(a)", "(.)", "(a)?", "(b)?", "(a)*", "(.)*?", "(a|b)", "(a|ab)", "(a)??", "(?:ab)??", "(?:ab)?", "(a*)", "(a)+?",
       "(|a)", "(?:(a)|b)", "(?:a|)", "(a?)*", "((a)|b)+", "(?:(a)|b)*"]
    + ["\\1", "$", "\\b", "(?=a)", "(?!a)", "(?<=a)", "(?<!a)", "(?=(a))", "(?<=(a))"]
)


def enumerate_seq3():
    """All ("seq", (t1, t2, t3)) over SEQ3_TERM_TEXTS, numbered, de-duplicated by text, in a fixed order;
    triples of three bare atoms are left out (the 5-node enumeration has them)."""
    terms = [parse_term(t) for t in SEQ3_TERM_TEXTS]
    atoms = set(range(4))
    out = []
    seen = set()
    for i, t1 in enumerate(terms):
        for j, t2 in enumerate(terms):
            for k, t3 in enumerate(terms):
                if i in atoms and j in atoms and k in atoms:
                    continue
                a = number(("seq", (t1, t2, t3)))[0]
                t = to_source(a)
                if t in seen:
                    continue
                seen.add(t)
                out.append(a)
    return out


def enumerate_lifetime():
    """Capture-lifetime families (full patterns, parsed from text): what a capture holds while its own group is
    still open or is re-entered after backtracking (a backreference to the enclosing group), and which captures
    an iteration of a quantifier resets (groups inside alternatives and inside look-arounds of the repeated body)."""
    texts = []
    quants = ["*", "+", "{2}", "{1,3}", "*?", "+?"]
    # (X|Y\1Z)W : \1 inside group 1, reached after the group closed once and the continuation failed
    for X in ("a", "ab", "a?", "b", "a*"):
        for Y in ("a", "ab", "", "b"):
            for Z in ("b", "c", "", "a"):
                for W in ("c", "b", "bc", "$", "a"):
                    texts.append("(%s|%s\\1%s)%s" % (X, Y, Z, W))
    for X in ("a", "ab", "a|b"):
        for Q in quants:
            for W in ("", "b", "c"):
                texts.append("(%s\\1)%s%s" % (X, Q, W))
                texts.append("((%s)\\1\\2)%s%s" % (X, Q, W))
    # (?:(X)|Y\1)Q W : a capture set by an earlier iteration, read by a later one
    for X in ("a", "b", "ab"):
        for Y in ("b", "a", "c", ""):
            for Q in quants:
                for W in ("", "c", "$", "\\1"):
                    texts.append("(?:(%s)|%s\\1)%s%s" % (X, Y, Q, W))
    # (?:L|N)Q W : a capture inside a look-around of a repeated body
    looks = ["(?=(a))a", "(?=(a))", "(?!(a))b", "(?<=(a))b", "(?<=(a))", "(?=(a)b)a", "(?=(a|b))[ab]", "(?=(?:(a)|b))[ab]", "(?=(a)?)[ab]", "(?<!(a))b"]
    for L in looks:
        for N in ("b", "c", "", "a"):
            for Q in quants:
                for W in ("", "c", "\\1"):
                    texts.append("(?:%s|%s)%s%s" % (L, N, Q, W))
    for X in ("a", "b"):
        for Y in ("b", "c", "a"):
            for Q in quants:
                texts.append("((?=(%s))%s|%s)%s" % (X, X, Y, Q))
                texts.append("(?:(?=(%s))%s|(%s))%s" % (X, X, Y, Q))
                texts.append("(?:((?=(%s))%s)|%s)%s\\2?" % (X, X, Y, Q))
    out = []
    seen = set()
    for t in texts:
        try:
            a = parse(t)
        except PatternSyntaxError:
            continue
        if not valid(a):
            continue
        src = to_source(a)
        if src in seen:
            continue
        seen.add(src)
        out.append(a)
    return out


def parse_term(text):
    """Parse one term that may contain a dangling \\1 (the caller renumbers)."""
    p = _Parser(text)
    n = p.disj()
    if p.i != len(text):
        raise PatternSyntaxError(text)
    return n


def small_subjects(maxlen, letters="abc"):
    out = [""]
    layer = [""]
    for _ in range(maxlen):
        layer = [s + c for s in layer for c in letters]
        out.extend(layer)
    return out


SPECIAL_SUBJECTS = ["A", "aB", "Ab", "AB", "aA", "Bb", "a\nb", "\na", "a\n", "a_b", "a1", "_", "a b", "b\r\na", "a\u2028b", "1"]

# ------------------------------------------------------------ random ASTs (depth<=3)
RANDOM_ALPHABET = "abcABC019_ \n"
_CHAR_WEIGHTS = "aaaaabbbbcccABC019_ \n"
_QUANT_COUNTS = [(0, None), (1, None), (0, 1), (0, None), (1, None), (0, 1), (2, 2), (1, 2), (0, 2), (2, None),
                 (2, 3), (3, 3), (0, 0), (1, 1), (0, 3), (1, 3), (3, None), (1, None), (0, None)]


def ast_strategy(max_depth=3):
    """Hypothesis strategy: numbered, valid ASTs of nesting depth <= max_depth.
    random_ast is driven by Hypothesis' own recorded random source, so examples
    replay and shrink like any other strategy (composite strategies built from
    one_of/recursive gave a far poorer spread of shapes: > 80 % bare groups)."""
    from hypothesis import strategies as st

    return st.randoms(use_true_random=False).map(lambda r: random_ast(r, max_depth))


def flags_strategy():
    from hypothesis import strategies as st

    return st.sampled_from(["", "", "i", "i", "m", "s", "im", "is", "ms", "ims"])


# ------------------------------------------------------------------- random AST without Hypothesis
def random_ast(rnd, max_depth=3):
    """Seeded random AST (same shape distribution as ast_strategy, for tools)."""
    def atom():
        r = rnd.random()
        if r < 0.45:
            return char(rnd.choice(_CHAR_WEIGHTS))
        if r < 0.55:
            return DOT
        if r < 0.65:
            return esc(rnd.choice("dDwWsS"))
        if r < 0.80:
            items = []
            for _ in range(rnd.randint(0, 3)):
                q = rnd.random()
                if q < 0.5:
                    items.append(("c", rnd.choice(_CHAR_WEIGHTS)))
                elif q < 0.8:
                    items.append(rnd.choice([("r", "a", "b"), ("r", "a", "c"), ("r", "A", "C"), ("r", "0", "9"),
                                             ("r", "a", "z"), ("r", "B", "b"), ("r", "_", "a"), ("r", " ", "0")]))
                else:
                    items.append(("e", rnd.choice("dDwWsS")))
            return cls(rnd.random() < 0.4, items)
        if r < 0.92:
            return rnd.choice([BOL, EOL, ("wb", False), ("wb", True)])
        return backref(rnd.randint(1, 3))

    def level(d):
        if d == 0:
            return atom()
        r = rnd.random()
        if r < 0.10:
            return atom()
        if r < 0.36:
            k = rnd.choice([1, 2, 2, 3, 3, 4, 0])
            return ("seq", tuple(level(d - 1) if rnd.random() < 0.6 else atom() for _ in range(k)))
        if r < 0.48:
            return ("alt", tuple(level(d - 1) if rnd.random() < 0.7 else atom() for _ in range(rnd.randint(2, 3))))
        if r < 0.62:
            return group(level(d - 1))
        if r < 0.67:
            return ncgroup(level(d - 1))
        if r < 0.90:
            mn, mx = rnd.choice(_QUANT_COUNTS)
            return quant(level(d - 1), mn, mx, rnd.random() < 0.7)
        return look(level(d - 1), rnd.random() < 0.5, rnd.random() < 0.45)

    return number(level(max_depth))[0]


# -------------------------------------------------------------- subject generator
_WORD = "abcABC019_"
_SPACE = " \n"


def _class_members(n, alphabet):
    def in_item(it, c):
        if it[0] == "c":
            return c == it[1]
        if it[0] == "r":
            return it[1] <= c <= it[2]
        return _esc_has(it[1], c)

    pos = [c for c in alphabet if any(in_item(it, c) for it in n[2])]
    if n[1]:
        return [c for c in alphabet if c not in pos]
    return pos


def _esc_has(k, c):
    if k == "d":
        return c.isdigit() and c.isascii()
    if k == "D":
        return not (c.isdigit() and c.isascii())
    if k == "w":
        return c.isascii() and (c.isalnum() or c == "_")
    if k == "W":
        return not (c.isascii() and (c.isalnum() or c == "_"))
    if k == "s":
        return c in " \n\r\t\v\f\u2028\u2029\u00a0\ufeff"
    return c not in " \n\r\t\v\f\u2028\u2029\u00a0\ufeff"


def matching_string(n, flags, rnd, alphabet=RANDOM_ALPHABET):
    """Random walk through the AST emitting a string the pattern is likely to
    match (assertions are ignored, so it is only *likely*)."""
    caps = {}
    icase = "i" in flags

    def flip(c):
        if icase and c.isalpha() and rnd.random() < 0.4:
            return c.swapcase()
        return c

    def go(x):
        k = x[0]
        if k == "char":
            return flip(x[1])
        if k == "dot":
            pool_ = [c for c in alphabet if c != "\n" or "s" in flags]
            return rnd.choice(pool_)
        if k == "esc":
            pool_ = [c for c in alphabet if _esc_has(x[1], c)]
            return rnd.choice(pool_) if pool_ else ""
        if k == "class":
            pool_ = _class_members(x, alphabet)
            return flip(rnd.choice(pool_)) if pool_ else ""
        if k == "seq":
            return "".join(go(c) for c in x[1])
        if k == "alt":
            return go(rnd.choice(x[1]))
        if k == "group":
            s = go(x[2])
            caps[x[1]] = s
            return s
        if k == "ncgroup":
            return go(x[1])
        if k == "quant":
            mn, mx = x[1], x[2]
            hi = mn + 2 if mx is None else min(mx, mn + 2)
            cnt = rnd.randint(mn, hi)
            return "".join(go(x[4]) for _ in range(cnt))
        if k == "backref":
            return "".join(flip(c) for c in caps.get(x[1], ""))
        if k == "look":
            # a positive lookahead sometimes contributes its text (what follows must agree: luck)
            if x[1] and not x[2] and rnd.random() < 0.3:
                return go(x[3])
            return ""
        return ""  # bol, eol, wb

    return go(n)


def edit(s, rnd, alphabet=RANDOM_ALPHABET, n_edits=None):
    """0-2 random edits (insert / delete / replace)."""
    if n_edits is None:
        n_edits = rnd.choice([0, 0, 1, 1, 2, 2])
    s = list(s)
    for _ in range(n_edits):
        op = rnd.randrange(3)
        if op == 0 or not s:
            s.insert(rnd.randint(0, len(s)), rnd.choice(alphabet))
        elif op == 1:
            del s[rnd.randrange(len(s))]
        else:
            s[rnd.randrange(len(s))] = rnd.choice(alphabet)
    return "".join(s)


def subject_for(n, flags, rnd, alphabet=RANDOM_ALPHABET, maxlen=12):
    """Subject biased to match: matching string, optional prefix/suffix, 0-2 edits."""
    r = rnd.random()
    if r < 0.12:
        s = "".join(rnd.choice(alphabet) for _ in range(rnd.randint(0, 8)))
    else:
        s = matching_string(n, flags, rnd, alphabet)
        r2 = rnd.random()
        if r2 < 0.25:
            s = "".join(rnd.choice(alphabet) for _ in range(rnd.randint(1, 3))) + s
        elif r2 < 0.45:
            s = s + "".join(rnd.choice(alphabet) for _ in range(rnd.randint(1, 3)))
        elif r2 < 0.55:
            s = rnd.choice(alphabet) + s + rnd.choice(alphabet)
        s = edit(s, rnd, alphabet)
    return s[:maxlen]


# ----------------------------------------------------------------------- shrinking
def shrink_candidates(n):
    """Smaller ASTs derived from n (each renumbered, valid): a child in place of
    a node, a dropped sequence/alternative member, simplified quantifier."""
    out = []

    def variants(x):
        """ASTs obtained by changing exactly one node inside x."""
        res = []
        cs = children(x)
        # replace x by one of its children
        for c in cs:
            res.append(c)
        k = x[0]
        if k in ("seq", "alt") and len(x[1]) > (0 if k == "seq" else 1):
            for i in range(len(x[1])):
                res.append((k, x[1][:i] + x[1][i + 1 :]))
        if k == "quant":
            for mn, mx in ((0, None), (1, None), (0, 1)):
                if (mn, mx) != (x[1], x[2]) and size(x) > 0 and (x[1], x[2]) not in ((0, None), (1, None), (0, 1)):
                    res.append(("quant", mn, mx, x[3], x[4]))
            if not x[3]:
                res.append(("quant", x[1], x[2], True, x[4]))
        if k == "class" and len(x[2]) > 1:
            for i in range(len(x[2])):
                res.append(("class", x[1], x[2][:i] + x[2][i + 1 :]))
        if k == "group":
            res.append(("ncgroup", x[2]))
        if k in ("esc", "class", "dot"):
            res.append(("char", "a"))
        # recurse
        for i, c in enumerate(cs):
            for v in variants(c):
                cs2 = list(cs)
                cs2[i] = v
                res.append(with_children(x, cs2))
        return res

    seen = set()
    for v in variants(n):
        if v[0] == "alt" and len(v[1]) == 0:
            continue
        v2 = number(v)[0]
        if not valid(v2):
            continue
        t = to_source(v2)
        if t in seen:
            continue
        seen.add(t)
        out.append(v2)
    out.sort(key=size)
    return out
