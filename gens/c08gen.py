"""Generators for C08.

(a) object-graph histories: steps are JSON dicts interpreted by
    oracles/objmodel.Model.apply and rendered to one JavaScript statement by
    `render_step`; `HistoryBuilder` draws steps (seeded, state aware: it keeps
    a model of its own so that most steps address live objects);
    `observation_plan` / `render_observation` build the observation script.
(b) call forms x function kinds: `call_programs()` enumerates IR programs
    (gens/progs.py) whose reference outcome comes from oracles/refjs.py.
"""
import json
import random
import zlib

from oracles import objmodel as M

from . import progs as G

# ------------------------------------------------------------------ (a) text
KEYS = ["a", "b", "x", "g", "m", "_a", "length", "constructor", "__proto__", "toString", "0", "1", "01", "1.0", "-0"]
BACKING = ["_a"]
ACC_KEYS = ["a", "x", "g", "length", "constructor", "toString", "0", "1", "01", "-0"]

PRELUDE = r"""
var o0, o1, o2, o3, o4, o5, o6, o7, RES;
var Ka = "a", Kb = "b", Kx = "x", Kg = "g", Km = "m", K0 = "0", K1 = 1, Kp = "__proto__", Kl = "length", Kc = "constructor";
function F0(a, b) { this.a = a; this.b = b; }
function F1(a) { this.x = a; }
function F2(a) { this.a = a; return 5; }
function F3(a) { this._a = a; return a; }
var HOP = Object.prototype.hasOwnProperty, IPO = Object.prototype.isPrototypeOf;
function E(v) {
  var t = typeof v;
  if (v === undefined) return "u";
  if (v === null) return "l";
  if (t === "number") return "n" + v;
  if (t === "string") return "s" + v;
  if (t === "boolean") return "b" + v;
  if (v === o0) return "o0";
  if (v === o1) return "o1";
  if (v === o2) return "o2";
  if (v === o3) return "o3";
  if (v === o4) return "o4";
  if (v === o5) return "o5";
  if (v === o6) return "o6";
  if (v === o7) return "o7";
  if (v === F0) return "F0";
  if (v === F1) return "F1";
  if (v === F2) return "F2";
  if (v === F3) return "F3";
  if (v === F0.prototype) return "P0";
  if (v === F1.prototype) return "P1";
  if (v === F2.prototype) return "P2";
  if (v === F3.prototype) return "P3";
  if (v === Object.prototype) return "OP";
  if (v === Array.prototype) return "AP";
  if (typeof Function === "function" && v === Function.prototype) return "FP";
  if (v === Object) return "Object";
  if (v === Array) return "Array";
  if (t === "function") return "fn";
  if (Array.isArray(v)) return "arr";
  if (t === "object") return "obj";
  return "?" + t;
}
function HAS(o, k) { return (typeof o.hasOwnProperty === "function") ? o.hasOwnProperty(k) : HOP.call(o, k); }
function ISP(p, o) { return (typeof p.isPrototypeOf === "function") ? p.isPrototypeOf(o) : IPO.call(p, o); }
function OBS(o, ks, ps, mode) {
  var r = [], i, k, s, a, t;
  for (i = 0; i < ks.length; i++) {
    k = ks[i];
    try { r.push(E(o[k])); } catch (e) { r.push("throw"); }
    try { r.push((k in o) ? "T" : "F"); } catch (e) { r.push("throw"); }
    try { r.push(HAS(o, k) ? "T" : "F"); } catch (e) { r.push("throw"); }
  }
  if (mode & 2) {
    try { a = Object.keys(o); s = ""; for (i = 0; i < a.length; i++) { s += "|" + E(a[i]); } r.push(s); } catch (e) { r.push("throw"); }
    try { a = Object.values(o); s = ""; for (i = 0; i < a.length; i++) { s += "|" + E(a[i]); } r.push(s); } catch (e) { r.push("throw"); }
    try { a = Object.entries(o); s = ""; for (i = 0; i < a.length; i++) { s += "|" + E(a[i][0]) + "=" + E(a[i][1]) + (a[i].length === 2 ? "" : "#" + a[i].length); } r.push(s); } catch (e) { r.push("throw"); }
    try { s = ""; for (k in o) { s += "|" + E(k); } r.push(s); } catch (e) { r.push("throw"); }
    try { r.push(E(Object.getPrototypeOf(o))); } catch (e) { r.push("throw"); }
    try { r.push((o instanceof F0) ? "T" : "F"); } catch (e) { r.push("throw"); }
    try { r.push((o instanceof F1) ? "T" : "F"); } catch (e) { r.push("throw"); }
    try { r.push((o instanceof F2) ? "T" : "F"); } catch (e) { r.push("throw"); }
    try { r.push((o instanceof F3) ? "T" : "F"); } catch (e) { r.push("throw"); }
    for (i = 0; i < ps.length; i++) {
      try { r.push(ISP(ps[i], o) ? "T" : "F"); } catch (e) { r.push("throw"); }
    }
  }
  if (mode & 1) {
    try { t = JSON.stringify(o); r.push(t === undefined ? "u" : "J" + t); } catch (e) { r.push("throw"); }
  }
  return r;
}
"ready";
"""


def js_val(spec):
    k = spec[0]
    if k == "u":
        return "undefined"
    if k == "l":
        return "null"
    if k == "n":
        return G.js_num(spec[1])
    if k == "s":
        return G.js_str(spec[1])
    if k == "b":
        return "true" if spec[1] else "false"
    if k == "slot":
        return "o%d" % spec[1]
    if k == "F":
        return "F%d" % spec[1]
    if k == "P":
        return "F%d.prototype" % spec[1]
    if k == "OP":
        return "Object.prototype"
    if k == "fn":
        return js_fn(spec[1])
    raise KeyError(k)


def _fn_parts(beh):
    """(params, body) of the function with this behaviour."""
    k = beh[0]
    if k == "this":
        return "", "return this;"
    if k == "field":
        return "", "return this.%s;" % beh[1]
    if k == "const":
        return "", "return %s;" % js_val(beh[1])
    if k == "store":
        return "v", "this.%s = v;" % beh[1]
    if k == "nop":
        return "v", ""
    if k == "arg":
        return "v", "return v;"
    if k == "argc":
        return "", "return arguments.length;"
    raise KeyError(k)


def js_fn(beh):
    p, b = _fn_parts(beh)
    return "function (%s) { %s }" % (p, b)


def key_text(form):
    """Text of a numeric key form: the raw text if given (1.0, 0x1 ...)."""
    if len(form) > 2 and form[2]:
        return form[2]
    return G.js_num(form[1])


def js_member(form):
    k = form[0]
    if k == "id":
        return "." + form[1]
    if k == "str":
        return "[%s]" % G.js_str(form[1])
    if k == "num":
        return "[%s]" % key_text(form)
    if k == "computed":
        return _computed(form[1])
    raise KeyError(k)


KEY_VARS = {"a": "Ka", "b": "Kb", "x": "Kx", "g": "Kg", "m": "Km", "0": "K0", "1": "K1", "__proto__": "Kp", "length": "Kl", "constructor": "Kc"}


def _computed(inner):
    if inner[0] == "var":
        return "[%s]" % inner[1]
    if inner[0] == "num":
        return "[0 + %s]" % key_text(inner)
    return '["" + %s]' % G.js_str(inner[1])


def js_litkey(form):
    k = form[0]
    if k == "id":
        return form[1]
    if k == "str":
        return G.js_str(form[1])
    if k == "num":
        t = key_text(form).strip("()")
        return "[%s]" % t if t.startswith("-") else t  # a literal key cannot carry a sign
    if k == "computed":
        return _computed(form[1])
    raise KeyError(k)


DATA_DESC = "{value: %s, writable: true, enumerable: true, configurable: true}"


def js_acc_desc(get, set_):
    parts = []
    if get is not None:
        parts.append("get: " + js_fn(get))
    if set_ is not None:
        parts.append("set: " + js_fn(set_))
    parts.append("enumerable: true, configurable: true")
    return "{" + ", ".join(parts) + "}"


def render_step(st):
    """(statement text, has_value)."""
    op = st["op"]
    if op == "lit":
        parts = []
        for e in st["entries"]:
            kind = e[0]
            if kind == "proto":
                parts.append("__proto__: " + js_val(e[1]))
            elif kind == "init":
                parts.append("%s: %s" % (js_litkey(e[1]), js_val(e[2])))
            elif kind == "get":
                parts.append("get %s() { %s }" % (js_litkey(e[1]), _fn_parts(e[2])[1]))
            elif kind == "set":
                parts.append("set %s(v) { %s }" % (js_litkey(e[1]), _fn_parts(e[2])[1]))
            elif kind == "method":
                p, b = _fn_parts(e[2])
                parts.append("%s(%s) { %s }" % (js_litkey(e[1]), p, b))
        return "o%d = {%s};" % (st["dst"], ", ".join(parts)), False
    if op == "create":
        if st.get("descs"):
            ds = []
            for key, d in st["descs"]:
                ds.append("%s: %s" % (G.js_str(key), DATA_DESC % js_val(d[1]) if d[0] == "data" else js_acc_desc(d[1], d[2])))
            return "o%d = Object.create(%s, {%s});" % (st["dst"], js_val(st["proto"]), ", ".join(ds)), False
        return "o%d = Object.create(%s);" % (st["dst"], js_val(st["proto"])), False
    if op == "new":
        return "o%d = new F%d(%s);" % (st["dst"], st["F"], ", ".join(js_val(a) for a in st["args"])), False
    if op == "arr":
        return "o%d = [%s];" % (st["dst"], ", ".join(js_val(a) for a in st["items"])), False
    if op == "alias":
        return "o%d = o%d;" % (st["dst"], st["src"]), False
    t = js_val(st["o"]) if "o" in st else None
    if op == "set":
        return "%s%s = %s;" % (t, js_member(st["key"]), js_val(st["val"])), False
    if op == "get":
        return "%s%s" % (t, js_member(st["key"])), True
    if op == "callm":
        return "%s%s(%s)" % (t, js_member(st["key"]), ", ".join(js_val(a) for a in st["args"])), True
    if op == "del":
        return "delete %s%s" % (t, js_member(st["key"])), True
    if op == "defdata":
        return "Object.defineProperty(%s, %s, %s);" % (t, G.js_str(st["key"]), DATA_DESC % js_val(st["val"])), False
    if op == "defacc":
        return "Object.defineProperty(%s, %s, %s);" % (t, G.js_str(st["key"]), js_acc_desc(st.get("get"), st.get("set"))), False
    if op == "setproto":
        return "Object.setPrototypeOf(%s, %s);" % (t, js_val(st["proto"])), False
    if op == "fproto":
        return "F%d.prototype = %s;" % (st["F"], js_val(st["val"])), False
    if op == "chain":
        s = "F%d.prototype = Object.create(F%d.prototype);" % (st["F"], st["G"])
        if st.get("fix"):
            s += " F%d.prototype.constructor = F%d;" % (st["F"], st["F"])
        return s, False
    if op == "assign":
        return "Object.assign(%s);" % ", ".join([t] + [js_val(s) for s in st["srcs"]]), False
    raise KeyError(op)


def step_script(st, obs_text):
    text, has_value = render_step(st)
    if has_value:
        body = 'RES = "ok"; try { RES = "=" + E(%s); } catch (e) { RES = "throw"; }' % text
    else:
        body = 'RES = "ok"; try { %s } catch (e) { RES = "throw"; }' % text
    return body + "\n[RES, %s];" % obs_text


# ---------------------------------------------------------- observation plan
def _rng_for(st, index):
    return random.Random(zlib.crc32(json.dumps(st, sort_keys=True).encode()) * 1000003 + index)


def guarded_key(model, o, key, guards):
    """Is the observation of o[key] excluded by an active known-finding guard?"""
    if o.kind == "function" and "c08.function_object" in guards:
        # functions have no [[Prototype]]: only their own properties are observed
        return model.find(o, key)[0] not in (o, None)
    if "c08.nullproto_fallback" in guards and key in ("toString", "hasOwnProperty"):
        # objects that do not inherit from Object.prototype still answer to these two
        return not model.has(o, key)
    return False


def observation_plan(model, st, index, full=False, guards=()):
    """[(target spec, keys, proto specs, mode)] for the state after `st`.
    mode: bit 1 = JSON.stringify, bit 2 = enumerations, getPrototypeOf,
    instanceof, isPrototypeOf."""
    rng = _rng_for(st, index)
    targets = model.targets()
    step_key = None
    if "key" in st:
        step_key = st["key"] if isinstance(st["key"], str) else model.key_from_form(st["key"])
    expressible = [spec for spec, _ in targets if spec[0] != "F"] + [["OP"]]
    fn_limited = "c08.function_object" in guards
    if not full:
        # between the full observations: the objects the step touched, everything
        # on their chains, everything that inherits from them, and two others
        touched = []
        for sp in ([st["o"]] if "o" in st else []) + ([["slot", st["dst"]]] if "dst" in st else []):
            t = model.target(sp)
            if t is not None:
                touched.append(t)
        if "F" in st:
            touched.append(model.ctors[st["F"]])
            t = model.target(["P", st["F"]])
            if t is not None:
                touched.append(t)
        related = set()
        for t in touched:
            c = t
            while c is not None:
                related.add(id(c))
                c = c.proto
        near, far = [], []
        for spec, o in targets:
            c, hit = o, id(o) in related
            while c is not None and not hit:
                hit = any(c is t for t in touched)
                c = c.proto
            (near if hit else far).append((spec, o))
        rng.shuffle(far)
        targets = near + far[:2]
    plan = []
    for spec, o in targets:
        if full:
            keys = list(KEYS)
        else:
            keys = []
            c, depth = o, 0
            while c is not None and c is not model.OP and c is not model.FP and c is not model.AP and depth < 6:
                for k, _ in model.own_props(c):
                    if k not in keys:
                        keys.append(k)
                c, depth = c.proto, depth + 1
            keys = keys[:8]
            if step_key is not None and step_key not in keys:
                keys.append(step_key)
            for k in rng.sample(KEYS, 3):
                if k not in keys:
                    keys.append(k)
        mode = 3
        if o.kind == "function":
            # (recorded finding: functions are not enumerable objects either)
            mode = 0 if fn_limited else 2
        keys = [k for k in keys if not guarded_key(model, o, k, guards)]
        protos = []
        c = o.proto
        while c is not None:
            for ps in expressible:
                if model.target(ps) is c and ps not in protos:
                    protos.append(ps)
            c = c.proto
        others = [ps for ps in expressible if ps not in protos]
        rng.shuffle(others)
        protos = protos[:4] + others[: (len(others) if full else 2)]
        plan.append((spec, keys, protos, mode))
    return plan


def render_observation(plan):
    parts = []
    for spec, keys, protos, mode in plan:
        parts.append("OBS(%s, [%s], [%s], %d)" % (js_val(spec), ", ".join(G.js_str(k) for k in keys), ", ".join(js_val(p) for p in protos), mode))
    return "[" + ", ".join(parts) + "]"


# ------------------------------------------------------------ history builder
PRIMS = [["n", 1], ["n", 2], ["n", 7], ["s", "p"], ["s", "q"], ["b", 1], ["l"], ["u"], ["n", 0]]
GET_BEHS = [["this"], ["field", "_a"], ["const", ["n", 9]], ["const", ["s", "c"]], ["argc"]]
SET_BEHS = [["store", "_a"], ["nop"]]
METH_BEHS = [["this"], ["field", "_a"], ["arg"], ["argc"], ["store", "_a"], ["const", ["n", 3]]]


class HistoryBuilder:
    def __init__(self, seed, n_steps):
        self.r = random.Random(seed)
        self.n = n_steps
        self.m = M.Model()

    # ---- pieces
    def live(self):
        return [i for i, v in enumerate(self.m.slots) if isinstance(v, M.Obj)]

    def slot_spec(self, prefer_live=True):
        lv = self.live()
        if lv and (prefer_live and self.r.random() < 0.93):
            return ["slot", self.r.choice(lv)]
        return ["slot", self.r.randrange(M.NSLOTS)]

    def dst(self):
        lv = self.live()
        free = [i for i in range(M.NSLOTS) if i not in lv]
        if free and (len(lv) < 5 or self.r.random() < 0.5):
            return self.r.choice(free)
        return self.r.randrange(M.NSLOTS)

    def target_spec(self):
        x = self.r.random()
        if x < 0.72:
            return self.slot_spec()
        if x < 0.90:
            return ["P", self.r.randrange(M.NCTORS)]
        return ["F", self.r.randrange(M.NCTORS)]

    def proto_spec(self):
        x = self.r.random()
        if x < 0.6:
            return self.slot_spec()
        if x < 0.85:
            return ["P", self.r.randrange(M.NCTORS)]
        if x < 0.93:
            return ["l"]
        return ["OP"]

    def val(self, objs=0.3):
        if self.r.random() < objs:
            return self.slot_spec()
        return self.r.choice(PRIMS)

    def key(self):
        """A key of the universe; keys already present on some live object or
        its chain are preferred (shadowing, deleting what exists)."""
        if self.r.random() < 0.5:
            present = []
            for i in self.live():
                c, d = self.m.slots[i], 0
                while c is not None and d < 4:
                    present.extend(k for k, _ in self.m.own_props(c) if k in KEYS)
                    c, d = c.proto, d + 1
            if present:
                return self.r.choice(present)
        return self.r.choice(KEYS)

    def key_form(self, key=None):
        key = key or self.key()
        forms = []
        if key.isidentifier():
            forms += [["id", key], ["id", key], ["str", key], ["computed", ["str", key]]]
        else:
            forms += [["str", key], ["computed", ["str", key]]]
        if key in KEY_VARS:
            forms += [["computed", ["var", KEY_VARS[key], key]]] * 2
        if key == "0":
            forms += [["num", 0], ["num", -0.0, "-0"], ["num", 0, "0.0"], ["computed", ["num", 0]]]
        if key == "1":
            forms += [["num", 1], ["num", 1, "1.0"], ["num", 1, "0x1"], ["computed", ["num", 1]]]
        return self.r.choice(forms)

    def lit_entries(self):
        ents = []
        n = self.r.choice([0, 1, 1, 2, 2, 3, 4])
        has_proto = False
        for _ in range(n):
            x = self.r.random()
            if x < 0.12 and not has_proto:
                has_proto = True
                ents.append(["proto", self.proto_spec()])
                continue
            if x < 0.62:
                k = self.key()
                if k == "__proto__":
                    ents.append(["init", ["computed", self.r.choice([["str", k], ["var", "Kp", k]])], self.val()])
                else:
                    ents.append(["init", self.key_form(k), self.val()])
            elif x < 0.76:
                ents.append(["get", self.acc_key_form(), self.r.choice(GET_BEHS[:4])])
            elif x < 0.88:
                ents.append(["set", self.acc_key_form(), self.r.choice(SET_BEHS)])
            else:
                ents.append(["method", self.acc_key_form(), self.r.choice(METH_BEHS)])
        return ents

    def acc_key_form(self):
        k = self.r.choice(ACC_KEYS)
        return self.key_form(k)

    # ---- one step
    def draw(self):
        r = self.r
        x = r.random()
        if not self.live():
            x = x * 0.22
        if x < 0.09:
            return {"op": "lit", "dst": self.dst(), "entries": self.lit_entries()}
        if x < 0.15:
            st = {"op": "create", "dst": self.dst(), "proto": self.proto_spec()}
            if r.random() < 0.4:
                descs, used = [], set()
                for _ in range(r.choice([1, 1, 2, 3])):
                    k = r.choice(ACC_KEYS + ["b", "_a"])
                    if k in used:
                        continue
                    used.add(k)
                    if r.random() < 0.5 or k in BACKING:
                        descs.append([k, ["data", self.val()]])
                    else:
                        g = r.choice(GET_BEHS[:4] + [None])
                        s = r.choice(SET_BEHS + [None])
                        if g is None and s is None:
                            g = ["this"]
                        descs.append([k, ["acc", g, s]])
                st["descs"] = descs
            return st
        if x < 0.21:
            i = r.randrange(M.NCTORS)
            return {"op": "new", "dst": self.dst(), "F": i, "args": [self.val(0.25) for _ in range(r.choice([0, 1, 1, 2, 3]))]}
        if x < 0.24:
            return {"op": "arr", "dst": self.dst(), "items": [self.val(0.2) for _ in range(r.choice([0, 1, 2, 3]))]}
        if x < 0.255:
            return {"op": "alias", "dst": self.dst(), "src": self.slot_spec()[1]}
        if x < 0.46:
            t = self.target_spec()
            k = self.key()
            v = self.val()
            if r.random() < 0.18:
                v = ["fn", r.choice(METH_BEHS)]
            if k == "__proto__" and r.random() < 0.8:
                v = self.proto_spec()
            return {"op": "set", "o": t, "key": self.key_form(k), "val": v}
        if x < 0.51:
            return {"op": "get", "o": self.target_spec(), "key": self.key_form()}
        if x < 0.56:
            t, k = self.target_spec(), r.choice(["m", "g", "a", "x", self.key()])
            if r.random() < 0.85:
                cands = []
                for spec, o in self.m.targets():
                    for kk in KEYS:
                        try:
                            f = self.m.get(o, kk)
                        except M.Throw:
                            continue
                        if isinstance(f, M.Obj) and f.kind == "function" and f.beh[0] not in ("native", "ctor"):
                            cands.append((spec, kk))
                if cands:
                    t, k = r.choice(cands)
            return {"op": "callm", "o": t, "key": self.key_form(k), "args": [self.val(0.2) for _ in range(r.choice([0, 1, 2]))]}
        if x < 0.66:
            return {"op": "del", "o": self.target_spec(), "key": self.key_form()}
        if x < 0.71:
            return {"op": "defdata", "o": self.target_spec(), "key": self.key(), "val": self.val()}
        if x < 0.79:
            g = r.choice(GET_BEHS[:4] + [None])
            s = r.choice(SET_BEHS + [None])
            if g is None and s is None:
                g = ["field", "_a"]
            st = {"op": "defacc", "o": self.target_spec(), "key": r.choice(ACC_KEYS)}
            if g is not None:
                st["get"] = g
            if s is not None:
                st["set"] = s
            return st
        if x < 0.86:
            return {"op": "setproto", "o": self.slot_spec(), "proto": self.proto_spec()}
        if x < 0.91:
            return {"op": "fproto", "F": r.randrange(M.NCTORS), "val": self.slot_spec()}
        if x < 0.95:
            return {"op": "chain", "F": r.randrange(M.NCTORS), "G": r.randrange(M.NCTORS), "fix": r.random() < 0.5}
        return {"op": "assign", "o": self.target_spec(), "srcs": [self.slot_spec() for _ in range(r.choice([1, 1, 2]))]}

    def build(self):
        steps = []
        tries = 0
        while len(steps) < self.n and tries < self.n * 6:
            tries += 1
            st = self.draw()
            try:
                res = self.m.apply(st)
            except M.Unmodelled:
                # the builder's own model is only a guide: rebuild it from the
                # accepted steps (apply may have changed state half way)
                self.m = M.Model()
                for s in steps:
                    self.m.apply(s)
                continue
            if res is M.SKIP:
                continue
            steps.append(st)
        return steps


def build_history(seed, n_steps):
    return HistoryBuilder(seed, n_steps).build()


def history_tags(steps):
    ops = [s["op"] for s in steps]
    tags = set()
    if any(o in ("setproto", "fproto", "chain") for o in ops) or any(
        s["op"] == "set" and isinstance(s["key"], list) and s["key"][-1] == "__proto__" for s in steps
    ):
        tags.add("relink")
    if any(o == "defacc" for o in ops) or any(s["op"] == "lit" and any(e[0] in ("get", "set") for e in s["entries"]) for s in steps):
        tags.add("accessor")
    if "del" in ops:
        tags.add("delete")
    return tags


# =============================================================== (b) call forms
T_VALUES = {
    "undefined": G.UNDEF,
    "null": G.NULL,
    "1": G.num(1),
    "s": G.s_("s"),
    "object": G.obj(G.init("tag", G.s_("T"))),
}
KINDS = ["decl", "expr", "nexpr", "arrow", "arrowx", "method", "bound", "bound2", "hop", "upper", "ctorobj", "ctorprim", "ctornone"]
FORMS_PLAIN = ["plain", "method", "index", "comma", "new", "cb", "getacc", "setacc"]
FORMS_T = ["call", "apply", "bind", "newbound", "cbthis"]


def _tagged(name):
    return G.var((name, G.obj(G.init("tag", G.s_(name)))))


def _body(params, with_this=True, with_args=True, extra=(), ret=None):
    b = []
    if with_this:
        b.append(G.log("this", G.THIS))
        b.append(G.log("tt", G.un("typeof", G.THIS)))
    if with_args:
        b.append(G.log("argc", G.dot(G.id_("arguments"), "length")))
    for p in params:
        b.append(G.log(p, G.id_(p)))
    b.extend(extra)
    if ret is not None:
        b.append(G.ret(ret))
    return b


def _define(kind):
    """Statements that leave the function under test in the global `f`."""
    ab = ["a", "b"]
    setp = [G.expr(G.assign(G.dot(G.THIS, "p"), G.id_("a")))]
    if kind == "decl":
        return [G.fdecl("f", ab, _body(ab, ret=G.s_("r")))]
    if kind == "expr":
        return [G.var(("f", G.fn(None, ab, _body(ab, ret=G.s_("r")))))]
    if kind == "nexpr":
        return [G.var(("f", G.fn("g", ab, _body(ab, ret=G.s_("r")))))]
    if kind == "arrow":
        return [
            G.fdecl("mk", [], [G.ret(G.arrow(ab, _body(ab, ret=G.s_("r")), False))]),
            G.var(("f", G.call(G.dot(G.id_("mk"), "call"), G.id_("OUTER")))),
        ]
    if kind == "arrowx":
        return [G.var(("f", G.arrow(ab, G.seq(G.call(G.id_("log"), G.s_("a"), G.id_("a")), G.call(G.id_("log"), G.s_("b"), G.id_("b")), G.s_("r")), True)))]
    if kind == "method":
        return [G.var(("H", G.obj(("method", ("id", "f"), ab, _body(ab, ret=G.s_("r")))))), G.var(("f", G.dot(G.id_("H"), "f")))]
    if kind in ("bound", "bound2"):
        abc = ["a", "b", "c"]
        out = [G.var(("f0", G.fn(None, abc, _body(abc, ret=G.s_("r")))))]
        b1 = G.call(G.dot(G.id_("f0"), "bind"), G.id_("BT"), G.num(10))
        if kind == "bound2":
            b1 = G.call(G.dot(b1, "bind"), G.id_("BT2"), G.num(20))
        out.append(G.var(("f", b1)))
        return out
    if kind == "hop":
        return [G.var(("f", G.dot(G.obj(), "hasOwnProperty")))]
    if kind == "upper":
        return [G.var(("f", G.dot(G.s_("x"), "toUpperCase")))]
    if kind == "ctorobj":
        return [G.fdecl("f", ab, _body(ab, extra=setp, ret=G.id_("R")))]
    if kind == "ctorprim":
        return [G.fdecl("f", ab, _body(ab, extra=setp, ret=G.num(5)))]
    if kind == "ctornone":
        return [G.fdecl("f", ab, _body(ab, extra=setp))]
    raise KeyError(kind)


def _args(kind):
    """Call arguments: built-ins get something meaningful to them."""
    if kind == "hop":
        return [G.s_("tag"), G.num(2)]
    return [G.num(1), G.num(2)]


def _form(form, kind, t):
    """Statements that perform the call and leave its value in `res`."""
    a = _args(kind)
    f, O, T = G.id_("f"), G.id_("O"), G.id_("T")
    setres = lambda e: [G.expr(G.assign(G.id_("res"), e))]  # noqa: E731
    if form == "plain":
        return setres(G.call(f, *a))
    if form == "method":
        return setres(G.call(G.dot(O, "f"), *a))
    if form == "index":
        return setres(G.call(G.idx(O, G.s_("f")), *a))
    if form == "comma":
        return setres(G.call(G.seq(G.num(0), G.dot(O, "f")), *a))
    if form == "call":
        return setres(G.call(G.dot(f, "call"), T, *a))
    if form == "apply":
        return setres(G.call(G.dot(f, "apply"), T, G.arr(*a)))
    if form == "bind":
        return setres(G.call(G.call(G.dot(f, "bind"), T, a[0]), a[1]))
    if form == "new":
        return setres(G.new(f, *a))
    if form == "newbound":
        return setres(G.new(G.call(G.dot(f, "bind"), T), *a))
    if form == "cb":
        return setres(G.call(G.dot(G.arr(G.s_("tag")), "map"), f))
    if form == "cbthis":
        return [G.expr(G.call(G.dot(G.arr(G.s_("tag")), "forEach"), f, T))] + setres(G.call(G.dot(G.arr(G.s_("tag")), "map"), f, T))
    desc = lambda which: G.obj(G.init(which, f), G.init("enumerable", G.b_(True)), G.init("configurable", G.b_(True)))  # noqa: E731
    pre = [
        G.var(("H2", G.obj(G.init("tag", G.s_("H2"))))),
    ]
    if form == "getacc":
        return pre + [
            G.expr(G.call(G.dot(G.id_("Object"), "defineProperty"), G.id_("H2"), G.s_("q"), desc("get"))),
            G.var(("C", G.call(G.dot(G.id_("Object"), "create"), G.id_("H2")))),
            G.expr(G.assign(G.dot(G.id_("C"), "tag"), G.s_("C"))),
        ] + setres(G.dot(G.id_("C"), "q"))
    if form == "setacc":
        return pre + [
            G.expr(G.call(G.dot(G.id_("Object"), "defineProperty"), G.id_("H2"), G.s_("q"), desc("set"))),
            G.var(("C", G.call(G.dot(G.id_("Object"), "create"), G.id_("H2")))),
            G.expr(G.assign(G.dot(G.id_("C"), "tag"), G.s_("C"))),
            G.expr(G.assign(G.dot(G.id_("C"), "q"), G.num(5))),
            G.log("own", G.call(G.dot(G.id_("C"), "hasOwnProperty"), G.s_("q"))),
        ]
    raise KeyError(form)


def _tail():
    res, f = G.id_("res"), G.id_("f")
    return [
        G.log("res", res),
        G.try_([G.log("inst", G.bin_("instanceof", res, f))], ("e", [G.log("inst", G.s_("throw"))])),
        G.try_(
            [G.log("ctor", G.bin_("===", G.dot(res, "constructor"), f)), G.log("ctorO", G.bin_("===", G.dot(res, "constructor"), G.id_("Object")))],
            ("e", [G.log("ctor", G.s_("throw"))]),
        ),
    ]


def call_program(kind, form, tname):
    body = [
        G.var(("T", T_VALUES[tname])),
        _tagged("O"), _tagged("R"), _tagged("OUTER"), _tagged("BT"), _tagged("BT2"),
        G.var("res"),
    ]
    body += _define(kind)
    if form == "props":
        # properties of the function itself: one cell per kind
        body += [
            G.log("len", G.dot(G.id_("f"), "length")),
            G.log("name", G.dot(G.id_("f"), "name")),
            G.log("typeof", G.un("typeof", G.id_("f"))),
            G.log("hasproto", G.bin_("!==", G.dot(G.id_("f"), "prototype"), G.UNDEF)),
            G.try_([G.log("pctor", G.bin_("===", G.dot(G.dot(G.id_("f"), "prototype"), "constructor"), G.id_("f")))], ("e", [G.log("pctor", G.s_("throw"))])),
        ]
        return {"body": body, "sub": "call", "id": "%s|%s|%s" % (kind, form, tname), "tags": [kind, form, tname]}
    body += [G.expr(G.assign(G.dot(G.id_("O"), "f"), G.id_("f")))]
    body += [G.try_(_form(form, kind, tname) + [G.log("done", G.num(1))], ("e", [G.log("call-throw", G.num(1))]))]
    body += _tail()
    return {"body": body, "sub": "call", "id": "%s|%s|%s" % (kind, form, tname), "tags": [kind, form, tname]}


def accessor_program(which, form):
    """Literal getter / setter reached through its own or an inheriting receiver."""
    if which == "getter":
        h = G.obj(G.init("tag", G.s_("H")), ("get", ("id", "f"), _body([], ret=G.s_("r"))))
    elif which == "setter":
        h = G.obj(G.init("tag", G.s_("H")), ("set", ("id", "f"), "a", _body(["a"])))
    else:  # both, data property of the same name on the inheriting object is not created
        h = G.obj(G.init("tag", G.s_("H")), ("get", ("id", "f"), _body([], ret=G.s_("r"))), ("set", ("id", "f"), "a", _body(["a"])))
    body = [
        G.var(("H", h)),
        G.var(("C", G.call(G.dot(G.id_("Object"), "create"), G.id_("H")))),
        G.expr(G.assign(G.dot(G.id_("C"), "tag"), G.s_("C"))),
        G.var(("D", G.call(G.dot(G.id_("Object"), "create"), G.id_("C")))),
        G.expr(G.assign(G.dot(G.id_("D"), "tag"), G.s_("D"))),
        G.var("res"),
    ]
    recv = {"own": "H", "inh": "C", "inh2": "D"}[form.split("-")[0]]
    access = G.idx(G.id_(recv), G.s_("f")) if form.endswith("-idx") else G.dot(G.id_(recv), "f")
    acts = []
    if which in ("getter", "both"):
        acts.append(G.expr(G.assign(G.id_("res"), access)))
    if which in ("setter", "both"):
        acts.append(G.expr(G.assign(access, G.num(5))))
    body += [G.try_(acts + [G.log("done", G.num(1))], ("e", [G.log("call-throw", G.num(1))]))]
    body += [
        G.log("res", G.id_("res")),
        G.log("ownC", G.call(G.dot(G.id_("C"), "hasOwnProperty"), G.s_("f"))),
        G.log("ownD", G.call(G.dot(G.id_("D"), "hasOwnProperty"), G.s_("f"))),
        G.log("keysD", G.call(G.dot(G.id_("Object"), "keys"), G.id_("D"))),
    ]
    return {"body": body, "sub": "call", "id": "%s|%s|-" % (which, form), "tags": [which, form, "-"]}


def call_programs():
    out = []
    for kind in KINDS:
        out.append(call_program(kind, "props", "object"))
        for form in FORMS_PLAIN:
            out.append(call_program(kind, form, "object"))
        for form in FORMS_T:
            for t in T_VALUES:
                out.append(call_program(kind, form, t))
    for which in ("getter", "setter", "both"):
        for form in ("own", "inh", "inh2", "own-idx", "inh-idx"):
            out.append(accessor_program(which, form))
    return out


def call_program_by_id(pid):
    kind, form, t = pid.split("|")
    if kind in ("getter", "setter", "both"):
        return accessor_program(kind, form)
    return call_program(kind, form, t)
