"""Generators for C19 (JSON.parse / JSON.stringify).

Everything random is drawn through Hypothesis (`draw`).  Four domains:

  value_recipes()    (i)  JSON-representable values
  text_cases()       (ii) JSON texts from the RFC 8259 grammar (token lists)
  nearmiss_cases()   (iii) a grammar text with exactly one token-level mutation
  script_cases()     (iv) script values that are not JSON at some position,
                          cycles / shared references, toJSON, accessors,
                          inherited properties, replacer / indent arguments

A *recipe* is a JSON-able tree from which the JavaScript source that builds
the value (`recipe_js`), the Python value for Context.set (`recipe_py`) and the
reference-model value (`recipe_model`) are derived:

  ["z"] null   ["u"] undefined   ["b",0|1]   ["n", numkey, "i"|"f"]   ["s", str]
  ["f"] function   ["a",[items]]   ["o",[[key,item],...]]  (unique keys)
  ["f", kind]  a callable of the named kind of CALLABLES (never below a "toJSON" key)
  ["tojson", item, by_key, [[key,item],...]]     object with a toJSON method
  ["inh", own_pairs, proto_pairs]                own + inherited enumerable properties
  ["arrx", [items], extra_pairs]                 array with extra named properties
  ["oget", [[key,item,is_getter],...]]           object with accessor properties
"""
import math

from hypothesis import strategies as st

from gens import values as V
from oracles import jsonref as J
from oracles import prims as P

# ------------------------------------------------------------------ pools
NUM_POOL = [x for x in V.NUMS if x == x and abs(x) != math.inf] + [
    9007199254740993.0, -9007199254740991.0, 1e22, 1.5e300, -1e-7, 1e-5, 0.1 + 0.2, 100.0, 1e20,
    4.35, 0.000001, 1.0000000000000002, 4294967294.0, -2147483648.5, 1e100, 1.7976931348623157e308,
    4.9e-324, 1 / 3.0,
]
CHAR_POOL = [
    '"', "\\", "/", "\b", "\f", "\n", "\r", "\t", "\x00", "\x01", "\x0b", "\x1f", "\x7f", "\x80", "\x9f",
    "\xa0", "\xe9", "\u2028", "\u2029", "\ufeff", "\uffff", "\ud800", "\udbff", "\udc00", "\udfff",
    "\U0001f600", "\U00010000", "\U0010ffff", "a", "Z", "0", " ", "'", "<", "&", "\u0100", "\u4e2d", "u", "n",
]
KEY_POOL = [
    "", "a", "b", "c", "d", "1", "0", "2", "10", "01", "-1", "1.5", "4294967294", "4294967295", "__proto__",
    "constructor", "toString", "toJSON", "length", "hasOwnProperty", "valueOf", "\xe9", "\ud800", "a b", '"',
    "\\", "\n", "\U0001f600", "x", "y",
]
WS_POOL = ["", "", "", "", " ", " ", "\t", "\n", "\r", "\r\n", "  ", " \n\t "]
NUM_SPELLINGS = [
    "-0", "0", "0.10", "1E+2", "1e-7", "1e400", "-1e400", "-1e-400", "1e-400", "123456789012345678901234567890",
    "0.1e1", "9007199254740993", "9007199254740992", "-9007199254740993", "1.0", "1e21", "1e+21", "100e-2", "0e0",
    "-0.0", "-0e-0", "5e-324", "2.5e-324", "2.4703282292062327e-324", "2.4703282292062328e-324",
    "1.7976931348623157e308", "1.7976931348623158e308", "1.7976931348623159e308", "0.000001", "4.35",
    "0.30000000000000004", "1E2", "1e0", "12345678901234567890", "0.0000001", "1.5", "-1.5", "10", "255",
    "1e1000", "0.00000000000000000000000000000000000000000001", "1000000000000000000000", "4294967296",
]

_chars = st.one_of(
    st.sampled_from(CHAR_POOL),
    st.sampled_from(CHAR_POOL),
    st.integers(0x20, 0x7E).map(chr),
    st.integers(0, 0x1F).map(chr),
    st.integers(0, 0xFFFF).map(chr),
    st.integers(0x10000, 0x10FFFF).map(chr),
)
strings = st.text(_chars, max_size=8)  # (kept for tools; the generators use rand_string)
keys = st.one_of(st.sampled_from(KEY_POOL), st.sampled_from(KEY_POOL), strings)
numbers = st.one_of(
    st.sampled_from(NUM_POOL),
    st.integers(-1000, 1000).map(float),
    st.floats(allow_nan=False, allow_infinity=False),
    st.integers(-(2 ** 53), 2 ** 53).map(float),
)


# A Random seeded by a Hypothesis-drawn integer (deterministic per Hypothesis seed).  It is used for
# *selection* among fixed alternatives (node kinds, pool entries, spellings, whitespace, mutation
# sites); numbers are drawn through Hypothesis strategies.
_rnd = st.randoms(use_true_random=True)
_LENS = [0, 0, 1, 1, 1, 2, 2, 3, 4, 6, 8]


def rand_char(rnd):
    k = rnd.randrange(20)
    if k < 10:
        return CHAR_POOL[rnd.randrange(len(CHAR_POOL))]
    if k < 14:
        return chr(rnd.randrange(0x20, 0x7F))
    if k < 16:
        return chr(rnd.randrange(0, 0x20))
    if k < 19:
        return chr(rnd.randrange(0, 0x10000))
    return chr(rnd.randrange(0x10000, 0x110000))


def rand_string(rnd):
    return "".join(rand_char(rnd) for _ in range(_LENS[rnd.randrange(len(_LENS))]))


def rand_key(rnd):
    if rnd.randrange(3):
        return KEY_POOL[rnd.randrange(len(KEY_POOL))]
    return rand_string(rnd)


def _rand_digits(rnd):
    return "".join("0123456789"[rnd.randrange(10)] for _ in range(1 + rnd.randrange(6)))


def es_order(pairs):
    """Pairs rearranged so that insertion order == OrdinaryOwnPropertyKeys order."""
    idx = sorted((p for p in pairs if J.is_array_index(p[0])), key=lambda p: int(p[0]))
    return idx + [p for p in pairs if not J.is_array_index(p[0])]


def uniq_pairs(pairs):
    seen, out = set(), []
    for p in pairs:
        k = J.norm_str(p[0])
        if k not in seen:
            seen.add(k)
            out.append([k] + list(p[1:]))
    return out


# ------------------------------------------------------------------ recipes
def _num_recipe(x, rep):
    return ["n", J.numkey(x), rep]


_k10 = st.integers(0, 9)
_k2 = st.integers(0, 1)
_k5 = st.integers(0, 4)


def _leaf(draw, rnd):
    k = rnd.randrange(10)
    if k < 1:
        return ["z"]
    if k < 2:
        return ["b", rnd.randrange(2)]
    if k < 6:
        return _num_recipe(draw(numbers), "if"[rnd.randrange(2)])
    return ["s", J.norm_str(rand_string(rnd))]


def _value(draw, rnd, depth, budget, leaf=_leaf):
    budget[0] -= 1
    k = rnd.randrange(10)
    limit = 8 if depth == 0 else 4
    if depth >= 6 or budget[0] <= 0 or k >= limit:
        return leaf(draw, rnd)
    n = rnd.randrange(5)
    if k % 2 == 0:
        return ["a", [_value(draw, rnd, depth + 1, budget, leaf) for _ in range(n) if budget[0] > 0]]
    return ["o", uniq_pairs([(rand_key(rnd), _value(draw, rnd, depth + 1, budget, leaf)) for _ in range(n) if budget[0] > 0])]


@st.composite
def value_recipes(draw):
    """JSON-representable values: depth <= 6, <= 60 nodes."""
    return _value(draw, draw(_rnd), 0, [draw(st.sampled_from([3, 8, 15, 30, 60]))])


def prune(r, depth):
    """Cut a recipe below `depth` container levels."""
    t = r[0]
    if t == "a":
        if depth == 0:
            return ["z"]
        return ["a", [prune(x, depth - 1) for x in r[1]]]
    if t == "o":
        if depth == 0:
            return ["z"]
        return ["o", [[k, prune(x, depth - 1)] for k, x in r[1]]]
    return r


def recipe_depth(r):
    t = r[0]
    if t == "a":
        return 1 + max([recipe_depth(x) for x in r[1]] or [0])
    if t == "o":
        return 1 + max([recipe_depth(x) for _, x in r[1]] or [0])
    if t == "tojson":
        return 1 + recipe_depth(r[1])
    if t == "inh":
        return 1 + max([recipe_depth(x) for _, x in r[1] + r[2]] or [0])
    if t == "arrx":
        return 1 + max([recipe_depth(x) for x in r[1]] + [recipe_depth(x) for _, x in r[2]] or [0])
    if t == "oget":
        return 1 + max([recipe_depth(p[1]) for p in r[1]] or [0])
    return 0


def recipe_nodes(r):
    t = r[0]
    if t == "a":
        return 1 + sum(recipe_nodes(x) for x in r[1])
    if t == "o":
        return 1 + sum(recipe_nodes(x) for _, x in r[1])
    if t == "tojson":
        return 2 + recipe_nodes(r[1]) + sum(recipe_nodes(x) for _, x in r[3])
    if t == "inh":
        return 1 + sum(recipe_nodes(x) for _, x in r[1] + r[2])
    if t == "arrx":
        return 1 + sum(recipe_nodes(x) for x in r[1]) + sum(recipe_nodes(x) for _, x in r[2])
    if t == "oget":
        return 1 + sum(recipe_nodes(p[1]) for p in r[1])
    return 1


def recipe_leaves(r):
    t = r[0]
    if t == "a":
        for x in r[1]:
            yield from recipe_leaves(x)
    elif t == "o":
        for k, x in r[1]:
            yield ["s", k]
            yield from recipe_leaves(x)
    elif t in ("tojson",):
        yield from recipe_leaves(r[1])
    elif t == "inh":
        for _, x in r[1]:
            yield from recipe_leaves(x)
    elif t == "arrx":
        for x in r[1]:
            yield from recipe_leaves(x)
    elif t == "oget":
        for p in r[1]:
            yield from recipe_leaves(p[1])
    else:
        yield r


def recipe_has_key(r, key):
    t = r[0]
    if t == "a":
        return any(recipe_has_key(x, key) for x in r[1])
    if t == "o":
        return any(k == key or recipe_has_key(x, key) for k, x in r[1])
    return False


def recipe_key_order_ok(r):
    """All objects list their keys in ES own-key order already."""
    t = r[0]
    if t == "a":
        return all(recipe_key_order_ok(x) for x in r[1])
    if t == "o":
        ks = [k for k, _ in r[1]]
        return ks == [k for k, _ in es_order(r[1])] and all(recipe_key_order_ok(x) for _, x in r[1])
    return True


def recipe_without_proto_key(r):
    """"__proto__" in an object literal is not a property definition: spell the key differently."""
    t = r[0]
    if t == "a":
        return ["a", [recipe_without_proto_key(x) for x in r[1]]]
    if t == "o":
        return ["o", uniq_pairs([["proto" if k == "__proto__" else k, recipe_without_proto_key(x)] for k, x in r[1]])]
    return r


def recipe_es_order(r):
    t = r[0]
    if t == "a":
        return ["a", [recipe_es_order(x) for x in r[1]]]
    if t == "o":
        return ["o", [[k, recipe_es_order(x)] for k, x in es_order(r[1])]]
    return r


def _numval(r):
    return float(r[1])


def recipe_model(r):
    t = r[0]
    if t == "z":
        return None
    if t == "u":
        return P.UNDEF
    if t == "b":
        return bool(r[1])
    if t == "n":
        return _numval(r)
    if t == "s":
        return r[1]
    if t == "f":
        return J.FUNC
    if t == "a":
        return [recipe_model(x) for x in r[1]]
    if t == "o":
        return {k: recipe_model(x) for k, x in r[1]}
    if t == "tojson":
        return J.ToJSON(recipe_model(r[1]), bool(r[2]), {k: recipe_model(x) for k, x in r[3]})
    if t == "inh":
        d = J.ProtoDict((k, recipe_model(x)) for k, x in r[1])
        d.proto = {k: recipe_model(x) for k, x in r[2]}
        return d
    if t == "arrx":
        return [recipe_model(x) for x in r[1]]
    if t == "oget":
        return {p[0]: recipe_model(p[1]) for p in r[1]}
    raise KeyError(t)


def recipe_py(r):
    """Python value for Context.set (JSON recipes only)."""
    t = r[0]
    if t == "z":
        return None
    if t == "b":
        return bool(r[1])
    if t == "n":
        x = _numval(r)
        if r[2] == "i" and x.is_integer() and abs(x) <= 2 ** 53 and not (x == 0 and math.copysign(1, x) < 0):
            return int(x)
        return x
    if t == "s":
        return r[1]
    if t == "a":
        return [recipe_py(x) for x in r[1]]
    if t == "o":
        return {k: recipe_py(x) for k, x in r[1]}
    raise KeyError(t)


def _pairs_js(pairs):
    return ", ".join("%s: %s" % (P.js_string_literal(p[0]), recipe_js(p[1])) for p in pairs)


def recipe_js(r):
    """JavaScript expression that builds the value."""
    t = r[0]
    if t == "z":
        return "null"
    if t == "u":
        return "undefined"
    if t == "b":
        return "true" if r[1] else "false"
    if t == "n":
        x = _numval(r)
        lit = P.js_literal(x)
        if r[2] == "f" and x == x and abs(x) != math.inf and x.is_integer() and abs(x) < 1e21 and not (
            x == 0 and math.copysign(1, x) < 0
        ):
            return "(%s/1)" % lit
        return lit
    if t == "s":
        return P.js_string_literal(r[1])
    if t == "f":
        if len(r) > 1:
            return "(%s)" % CALLABLE_JS[r[1]]
        return "function(q){ return q; }"
    if t == "a":
        return "[" + ", ".join(recipe_js(x) for x in r[1]) + "]"
    if t == "o":
        return "({" + _pairs_js(r[1]) + "})"
    if t == "tojson":
        body = '"key:" + k' if r[2] else recipe_js(r[1])
        extra = _pairs_js(r[3])
        return '({"toJSON": function(k){ return %s; }%s})' % (body, (", " + extra) if extra else "")
    if t == "inh":
        sets = "".join(" o[%s] = %s;" % (P.js_string_literal(k), recipe_js(x)) for k, x in r[1])
        return "(function(){ var o = Object.create({%s});%s return o; })()" % (_pairs_js(r[2]), sets)
    if t == "arrx":
        sets = "".join(" a[%s] = %s;" % (P.js_string_literal(k), recipe_js(x)) for k, x in r[2])
        return "(function(){ var a = [%s];%s return a; })()" % (", ".join(recipe_js(x) for x in r[1]), sets)
    if t == "oget":
        parts = []
        for k, x, g in r[1]:
            if g:
                parts.append("get %s(){ return %s; }" % (k, recipe_js(x)))
            else:
                parts.append("%s: %s" % (P.js_string_literal(k), recipe_js(x)))
        return "({" + ", ".join(parts) + "})"
    raise KeyError(t)


# ------------------------------------------------------------------ callables
# Every kind of value whose typeof is "function" in the engine.  (kind name, JavaScript expression);
# the host:* globals are installed by host_callables().  A kind whose expression is not a function
# in the engine under test is dropped at run time (checks/c19.py available_callables).
_CTORS = ["Object", "Array", "Number", "String", "Boolean", "Function", "Error", "TypeError", "RangeError",
          "SyntaxError", "ReferenceError", "EvalError", "URIError", "RegExp", "ArrayBuffer", "Uint8Array", "Int8Array",
          "Uint8ClampedArray", "Int16Array", "Uint16Array", "Int32Array", "Uint32Array", "Float32Array", "Float64Array"]
_NATIVES = ["Math.max", "Math.floor", "parseInt", "parseFloat", "isNaN", "isFinite", "eval", "[].push", "''.slice",
            "JSON.parse", "JSON.stringify", "Object.keys", "Object.create", "Object.assign", "Object.defineProperty",
            "Array.isArray", "Number.isInteger", "Number.parseFloat", "String.fromCharCode", "Date.now",
            "Object.prototype.hasOwnProperty", "Object.prototype.toString", "Array.prototype.map",
            "Array.prototype.forEach", "Error.prototype.toString", "(function(){}).call", "(function(){}).apply",
            "(function(){}).bind", "/a/.test", "(1).toFixed", "console.log", "new Uint8Array(1).set"]
CALLABLES = [
    ("script:expression", "function(q){ return q; }"),
    ("script:named-expression", "function named(a){ return a; }"),
    ("script:declaration", "(function(){ function d(a){ return a; } return d; })()"),
    ("script:closure", "(function(){ var n = 0; return function(){ return n++; }; })()"),
    ("script:arrow", "() => 1"),
    ("script:arrow-param", "a => a"),
    ("script:method", "({m(){ return 1; }}).m"),
    ("script:getter", "Object.getOwnPropertyDescriptor({get a(){ return 1; }}, 'a').get"),
    ("script:new-Function", "new Function('a', 'return a')"),
    ("script:with-properties", "(function(){ var f = function(){}; f.x = 1; f.prototype.y = 2; return f; })()"),
    ("bound:script", "(function(){ return this; }).bind(null)"),
    ("bound:arrow", "(() => 1).bind(null)"),
    ("bound:native", "Math.max.bind(null, 1)"),
    ("bound:host", "hostfn.bind(null)"),
    ("bound:bound", "Math.max.bind(null, 1).bind(null, 2)"),
] + [("native:" + e, e) for e in _NATIVES] + [("ctor:" + e, e) for e in _CTORS] + [
    ("ctor:via-array", "[].constructor"),
    ("ctor:via-object", "({}).constructor"),
    ("ctor:via-error", "new Error('x').constructor"),
    ("ctor:via-regexp", "/a/.constructor"),
    ("ctor:via-prototype", "Object.prototype.constructor"),
    ("host:lambda", "hostfn"),
    ("host:def", "hostdef"),
    ("host:builtin", "hostabs"),
    ("host:partial", "hostpartial"),
    ("host:callable-object", "hostobj"),
    ("host:bound-method", "hostmeth"),
    ("host:class", "hostcls"),
]
CALLABLE_JS = dict(CALLABLES)


def _hostdef(a=0):
    return a


class _HostCallable:
    def __call__(self, *a):
        return 1

    def meth(self, *a):
        return 2


def host_callables():
    """Globals for Context.set: every flavour of Python callable."""
    import functools

    return {"hostfn": lambda *a: 1, "hostdef": _hostdef, "hostabs": abs, "hostpartial": functools.partial(_hostdef, 1),
            "hostobj": _HostCallable(), "hostmeth": _HostCallable().meth, "hostcls": _HostCallable}


def recipe_map_functions(r, fn, under_tojson=False):
    """Copy of the recipe with every function leaf that is never *called* (not the value of a
    "toJSON" key) replaced by fn(leaf)."""
    t = r[0]
    if t == "f":
        return r if under_tojson else fn(r)
    m = recipe_map_functions
    if t == "a":
        return ["a", [m(x, fn) for x in r[1]]]
    if t == "o":
        return ["o", [[k, m(x, fn, k == "toJSON")] for k, x in r[1]]]
    if t == "tojson":
        return ["tojson", m(r[1], fn), r[2], [[k, m(x, fn, k == "toJSON")] for k, x in r[3]]]
    if t == "inh":
        return ["inh", [[k, m(x, fn, k == "toJSON")] for k, x in r[1]], [[k, m(x, fn, k == "toJSON")] for k, x in r[2]]]
    if t == "arrx":
        return ["arrx", [m(x, fn) for x in r[1]], [[k, m(x, fn, k == "toJSON")] for k, x in r[2]]]
    if t == "oget":
        return ["oget", [[p[0], m(p[1], fn), p[2]] for p in r[1]]]
    return r


def callable_templates(F):
    """Positions of one callable F (a recipe leaf): root, array element, property value, nested,
    behind toJSON / getter / prototype / extra array property.  -> [(name, recipe, replacer, indent)]"""
    one, s, z = ["n", "1.0", "i"], ["s", "s"], ["z"]
    plain = [
        ("root", F),
        ("array-only", ["a", [F]]),
        ("array-first", ["a", [F, one]]),
        ("array-middle", ["a", [one, F, s]]),
        ("array-last", ["a", [z, F]]),
        ("array-twice", ["a", [F, F]]),
        ("object-only", ["o", [["a", F]]]),
        ("object-first", ["o", [["a", F], ["b", one]]]),
        ("object-last", ["o", [["b", one], ["a", F]]]),
        ("object-twice", ["o", [["a", F], ["b", F]]]),
        ("nested-array", ["a", [["a", [F]], ["o", [["k", F]]]]]),
        ("nested-object", ["o", [["o", ["o", [["p", ["a", [["n", "0.0", "i"], F]]]]]]]]),
        ("nested-deep", ["a", [["o", [["x", ["a", [["o", [["d", F], ["c", one]]]]]]]]]]),
        ("inherited", ["inh", [["a", F], ["b", one]], [["c", F]]]),
        ("array-extra-property", ["arrx", [F, one], [["x", F]]]),
        ("toJSON-result-root", ["tojson", F, 0, []]),
        ("toJSON-result-element", ["a", [["tojson", F, 0, [["b", one]]], one]]),
        ("toJSON-result-property", ["o", [["a", ["tojson", F, 0, []]], ["b", one]]]),
        ("getter-result", ["oget", [["g", F, True], ["h", one, False]]]),
    ]
    out = [(n, r, "none", "none") for n, r in plain]
    mixed = ["o", [["a", F], ["b", ["a", [F, one]]]]]
    out += [("replacer-identity", mixed, "fn-identity", "none"), ("replacer-list", mixed, "arr-ab", "none"),
            ("indent", mixed, "none", "2"), ("replacer-identity-root", F, "fn-identity", "none")]
    return out


# ------------------------------------------------------------------ wide documents
_WIDE_MEMBERS = {
    "empty-array": ["[]"], "empty-object": ["{}"], "empty-spaced": ["[ ]", "{ }", "[\n]", "{\t}"],
    "empty-mixed": ["[]", "{}", "[]", "{}", "[ ]", "{ }"],
    "nonempty": ["[0]", '{"a":1}', "[[1]]", '{"k":{"j":0}}', '[{"a":null}]', '["s",true]'],
    "nested-empty": ["[[]]", '{"k":{}}', "[{}]", '{"k":[]}', "[[],[]]", '{"a":[],"b":{}}', "[[[]]]"],
    "mixed": ["[]", "{}", "[0]", '{"a":1}', "[[]]", '{"k":{}}', "0", '""', "null", "[{},[]]", "[ ]", "true", "-1.5e3"],
    "scalars": ["0", '""', "null", "true", '"a"', "-1.5e3"],
}
WIDE_MEMBER_KINDS = sorted(_WIDE_MEMBERS)
_WIDE_COUNTS = [100, 150, 250, 350, 399, 400, 401, 402, 450, 500, 640, 800, 1000, 1023, 1025, 1300, 1700, 2000, 2500, 3000]


def wide_text(p):
    """The JSON text of the wide-document parameters p = {"n", "members", "pick", "outer", "group", "wrap", "sep"}:
    n sibling members (cycled / pseudo-randomly picked from a palette) in one array or object, or in groups of
    `group` members, below `wrap` single-child wrappers."""
    pal = _WIDE_MEMBERS[p["members"]]
    n, pick, sep = p["n"], p["pick"], p["sep"]

    def member(i):
        return pal[(i * pick + (i * i) // 7) % len(pal)]

    def container(kind, items):
        if kind == "array":
            return "[" + ("," + sep).join(items) + "]"
        return "{" + ("," + sep).join('"k%d":%s%s' % (j, sep, x) for j, x in enumerate(items)) + "}"

    items = [member(i) for i in range(n)]
    if p["group"]:
        g = p["group"]
        inner = "object" if p["outer"] == "array" else "array"
        items = [container(inner, items[i : i + g]) for i in range(0, n, g)]
    text = container(p["outer"], items)
    for w in p["wrap"]:
        text = "[%s]" % text if w == "array" else '{"w":%s}' % text
    return text


def wide_params(rnd):
    """Selection of wide-document parameters from a random.Random."""
    n = rnd.choice(_WIDE_COUNTS) if rnd.randrange(3) else rnd.randrange(100, 3001)
    return {
        "n": n,
        "members": rnd.choice(WIDE_MEMBER_KINDS),
        "pick": rnd.randrange(1, 7),
        "outer": rnd.choice(["array", "object"]),
        "group": rnd.choice([0, 0, 0, 2, 7, 50, 400]),
        "wrap": [rnd.choice(["array", "object"]) for _ in range(rnd.choice([0, 0, 1, 2]))],
        "sep": rnd.choice(["", "", " ", "\n"]),
    }


# ------------------------------------------------------------------ (ii) texts
_SHORT = {'"': '\\"', "\\": "\\\\", "/": "\\/", "\b": "\\b", "\f": "\\f", "\n": "\\n", "\r": "\\r", "\t": "\\t"}


def _spell_char(rnd, ch):
    """One character of a JSON string spelled in one of its legal forms (selection only)."""
    o = ord(ch)
    forms = []
    if not (ch in '"\\' or o < 0x20):
        forms += ["raw", "raw", "raw", "raw"]
    if ch in _SHORT:
        forms += ["short", "short"]
    forms += ["ul", "uu", "um"]
    f = forms[rnd.randrange(len(forms))]
    if f == "raw":
        return ch, 0
    if f == "short":
        return _SHORT[ch], 1
    units = [o] if o <= 0xFFFF else [0xD800 + ((o - 0x10000) >> 10), 0xDC00 + ((o - 0x10000) & 0x3FF)]
    out = ""
    for u in units:
        h = "%04x" % u
        if f == "uu":
            h = h.upper()
        elif f == "um":
            h = h[:2].upper() + h[2:]
        out += "\\u" + h
    return out, 1


def _spell_string(rnd, s):
    out = ['"']
    esc = 0
    for ch in s:
        t, e = _spell_char(rnd, ch)
        out.append(t)
        esc += e
    out.append('"')
    return "".join(out), esc


_digits = st.text("0123456789", min_size=1, max_size=6)
_numkind = st.integers(0, 9)
_expo = st.integers(0, 330)


def _number_text(draw, rnd):
    k = rnd.randrange(10)
    if k < 3:
        return NUM_SPELLINGS[rnd.randrange(len(NUM_SPELLINGS))]
    if k < 5:
        return P.num_to_str(draw(numbers))
    s = "-" if rnd.randrange(2) else ""
    ip = _rand_digits(rnd).lstrip("0")
    s += ip if ip else "0"
    if rnd.randrange(2):
        s += "." + _rand_digits(rnd)
    if rnd.randrange(5) < 2:
        s += "eE"[rnd.randrange(2)] + ["", "+", "-"][rnd.randrange(3)] + str(rnd.randrange(331))
    return s


class Toks:
    """Token list of one JSON text: (kind, text) with kinds
    ws [ ] { } , : key str num lit;  spans = (start, end) token ranges of values."""

    def __init__(self):
        self.toks = []
        self.spans = []
        self.escapes = 0
        self.ws = 0
        self.nodes = 0
        self.depth = 0

    def add(self, kind, text):
        self.toks.append((kind, text))

    def text(self):
        return "".join(t for _, t in self.toks)


def _ws(rnd, tk):
    w = WS_POOL[rnd.randrange(len(WS_POOL))]
    if w:
        tk.add("ws", w)
        tk.ws += 1


def _gen_value(draw, rnd, tk, depth, budget):
    """Appends the tokens of one value; budget = [remaining nodes]."""
    start = len(tk.toks)
    tk.nodes += 1
    tk.depth = max(tk.depth, depth)
    budget[0] -= 1
    kind = rnd.randrange(10)
    limit = 8 if depth == 0 else 4
    if depth >= 6 or budget[0] <= 0 or kind >= limit:
        kind = rnd.randrange(10)
        if kind < 4:
            tk.add("num", _number_text(draw, rnd))
        elif kind < 8:
            s, e = _spell_string(rnd, rand_string(rnd))
            tk.escapes += e
            tk.add("str", s)
        else:
            tk.add("lit", ["true", "false", "null", "null"][rnd.randrange(4)])
    elif kind % 2 == 0:
        tk.add("[", "[")
        count = 0
        for _ in range(rnd.randrange(5)):
            if budget[0] <= 0:
                break
            if count:
                tk.add(",", ",")
            _ws(rnd, tk)
            _gen_value(draw, rnd, tk, depth + 1, budget)
            _ws(rnd, tk)
            count += 1
        if count == 0:
            _ws(rnd, tk)
        tk.add("]", "]")
    else:
        tk.add("{", "{")
        count = 0
        for _ in range(rnd.randrange(5)):
            if budget[0] <= 0:
                break
            if count:
                tk.add(",", ",")
            _ws(rnd, tk)
            s, e = _spell_string(rnd, rand_key(rnd))
            tk.escapes += e
            tk.add("key", s)
            _ws(rnd, tk)
            tk.add(":", ":")
            _ws(rnd, tk)
            _gen_value(draw, rnd, tk, depth + 1, budget)
            _ws(rnd, tk)
            count += 1
        if count == 0:
            _ws(rnd, tk)
        tk.add("}", "}")
    tk.spans.append((start, len(tk.toks)))


@st.composite
def text_cases(draw):
    tk = Toks()
    rnd = draw(_rnd)
    _ws(rnd, tk)
    _gen_value(draw, rnd, tk, 0, [draw(st.sampled_from([2, 6, 12, 25, 50]))])
    _ws(rnd, tk)
    return tk


# ------------------------------------------------------------------ (iii) near misses
BAD_WORDS = ["NaN", "Infinity", "-Infinity", "undefined", "nan", "None", "True", "TRUE", "Null", "tru", "nul",
             "truee", "nulll", "fals", "-NaN", "+Infinity", "inf", "-inf", "void 0", "new Date()", "{}x", "-", "--1"]
BAD_NUMS = ["01", "-01", "00", "1.", ".5", "-.5", "+1", "0x10", "1e", "1e+", "1E-", "1.e1", "--1", "- 1", "1_000",
            "0b1", "0o7", "1n", "\uff11", "\u0663", "1.5.5", "1e1.5", "1e1e1", "0.", "-", "+0", "1,5e", "1 e2", "1f",
            "1L", "0x", "1e\u0661", "1\u0660", "\xb2"]
BAD_ESCAPES = ["\\x41", "\\u12", "\\u{41}", "\\a", "\\'", "\\0", "\\v", "\\U0041", "\\uD83G", "\\u+123", "\\u 123",
               "\\u1_23", "\\u-123", "\\u12 4", "\\e", "\\\n", "\\101", "\\u", "\\N", "\\ ", "\\u00g0", "\\u0x41",
               "\\q"]
BAD_WS = ["\xa0", "\ufeff", "\x0b", "\x0c", "\u2028", "\u2029", "\u3000", "\x85", "\u200b", "\x00", "\u1680",
          "\u2003", "\x1f", "\x08"]
COMMENTS = ["/*c*/", "//c\n", "#c\n", "/**/", "<!--c-->"]


def _mutations(tk):
    """(kind, token index) pairs applicable to this token list."""
    toks = tk.toks
    out = [("empty", 0), ("ws-only", 0), ("two-values", 0), ("two-values-comma", 0), ("bad-ws", 0), ("comment", 0),
           ("extra-close", 0), ("extra-open", 0), ("garbage-tail", 0), ("bom", 0), ("bad-word-root", 0)]
    for i, (k, t) in enumerate(toks):
        if k in ("]", "}"):
            out += [("trailing-comma", i), ("mismatched-close", i), ("drop-close", i)]
        elif k in ("[", "{"):
            out += [("leading-comma", i), ("drop-open", i)]
        elif k == ",":
            out += [("double-comma", i), ("drop-comma", i), ("comma-to-semicolon", i)]
        elif k == ":":
            out += [("drop-colon", i), ("colon-to-equals", i), ("colon-to-comma", i), ("double-colon", i)]
        elif k == "key":
            out += [("single-quotes", i), ("unquoted-key", i), ("key-number", i), ("key-literal", i),
                    ("raw-control", i), ("bad-escape", i), ("unterminated-string", i)]
        elif k == "str":
            out += [("single-quotes", i), ("raw-control", i), ("bad-escape", i), ("unterminated-string", i),
                    ("drop-open-quote", i), ("bad-word", i), ("backslash-end", i), ("backticks", i)]
        elif k == "num":
            out += [("bad-number", i), ("bad-number", i), ("bad-word", i), ("num-suffix", i)]
        elif k == "lit":
            out += [("bad-word", i), ("bad-word", i), ("lit-case", i), ("lit-truncated", i), ("bad-number", i)]
    return out


def _key_inner(t):
    return t[1:-1]


@st.composite
def nearmiss_cases(draw):
    tk = Toks()
    rnd = draw(_rnd)
    _ws(rnd, tk)
    _gen_value(draw, rnd, tk, 0, [draw(st.sampled_from([1, 3, 6, 12]))])
    _ws(rnd, tk)
    muts = _mutations(tk)
    # structural kinds are over-represented by long texts: pick the kind first
    kinds = sorted(set(k for k, _ in muts))
    kind = kinds[rnd.randrange(len(kinds))]
    sites = [i for k, i in muts if k == kind]
    i = sites[rnd.randrange(len(sites))]
    toks = list(tk.toks)
    pick = lambda pool: pool[rnd.randrange(len(pool))]
    if kind == "empty":
        toks = []
    elif kind == "ws-only":
        toks = [("ws", pick([" ", "\n", "\t \r\n"]))]
    elif kind == "two-values":
        toks = toks + [("ws", pick([" ", "\n", ""]))] + [pick([("lit", "null"), ("num", "1"), ("str", '"a"'), ("[", "[]"), ("{", "{}")])]
    elif kind == "two-values-comma":
        toks = toks + [(",", ","), ("num", "1")]
    elif kind == "bad-ws":
        j = rnd.randrange(len(toks) + 1)
        toks.insert(j, ("ws", pick(BAD_WS)))
    elif kind == "comment":
        j = rnd.randrange(len(toks) + 1)
        toks.insert(j, ("ws", pick(COMMENTS)))
    elif kind == "extra-close":
        toks = toks + [("]", pick(["]", "}", ")", ";"]))]
    elif kind == "extra-open":
        toks = [("[", pick(["[", "{", "(", "="]))] + toks
    elif kind == "garbage-tail":
        toks = toks + [("lit", pick(["x", ";", "\\", "'", ":", ",", "\x00", "e1", ".0", "n", "\xe9", '"']))]
    elif kind == "bom":
        toks = [("ws", "\ufeff")] + toks
    elif kind == "bad-word-root":
        toks = [("lit", pick(BAD_WORDS))]
    elif kind == "trailing-comma":
        toks.insert(i, (",", ","))
    elif kind == "mismatched-close":
        toks[i] = (toks[i][0], "}" if toks[i][1] == "]" else "]")
    elif kind == "drop-close" or kind == "drop-open" or kind == "drop-comma" or kind == "drop-colon":
        del toks[i]
    elif kind == "leading-comma":
        toks.insert(i + 1, (",", ","))
    elif kind == "double-comma":
        toks.insert(i, (",", ","))
    elif kind == "comma-to-semicolon":
        toks[i] = (",", ";")
    elif kind == "colon-to-equals":
        toks[i] = (":", pick(["=", "=>", " "]))
    elif kind == "colon-to-comma":
        toks[i] = (":", ",")
    elif kind == "double-colon":
        toks.insert(i, (":", ":"))
    elif kind == "single-quotes":
        toks[i] = (toks[i][0], "'" + _key_inner(toks[i][1]).replace("'", "") + "'")
    elif kind == "backticks":
        toks[i] = (toks[i][0], "`" + _key_inner(toks[i][1]).replace("`", "") + "`")
    elif kind == "unquoted-key":
        inner = "".join(c for c in _key_inner(toks[i][1]) if c.isalnum() and ord(c) < 128) or "k"
        if inner[0].isdigit():
            inner = "k" + inner
        toks[i] = ("key", inner)
    elif kind == "key-number":
        toks[i] = ("key", pick(["1", "0", "-1", "1.5"]))
    elif kind == "key-literal":
        toks[i] = ("key", pick(["null", "true", "[]", "{}", "undefined"]))
    elif kind == "raw-control":
        t = toks[i][1]
        j = _escape_safe(t, rnd.randrange(1, len(t)))
        toks[i] = (toks[i][0], t[:j] + chr(rnd.randrange(0x20)) + t[j:])
    elif kind == "bad-escape":
        t = toks[i][1]
        j = _escape_safe(t, rnd.randrange(1, len(t)))
        toks[i] = (toks[i][0], t[:j] + pick(BAD_ESCAPES) + t[j:])
    elif kind == "unterminated-string":
        toks[i] = (toks[i][0], toks[i][1][:-1])
    elif kind == "drop-open-quote":
        toks[i] = (toks[i][0], toks[i][1][1:])
    elif kind == "backslash-end":
        toks[i] = (toks[i][0], toks[i][1][:-1] + '\\"')
    elif kind == "bad-word":
        toks[i] = ("lit", pick(BAD_WORDS))
    elif kind == "bad-number":
        toks[i] = ("num", pick(BAD_NUMS))
    elif kind == "num-suffix":
        toks[i] = ("num", toks[i][1] + pick([".", "e", "E+", "x", "n", "f", "_0", "..0", "e1.0", "-", "+1"]))
    elif kind == "lit-case":
        toks[i] = ("lit", pick([toks[i][1].upper(), toks[i][1].capitalize()]))
    elif kind == "lit-truncated":
        toks[i] = ("lit", pick([toks[i][1][:-1], toks[i][1] + toks[i][1][-1], toks[i][1][1:]]))
    return kind, "".join(t for _, t in toks)


def _escape_safe(t, j):
    """Largest position <= j inside string token t that does not split an escape sequence."""
    pos, k = [], 1
    while k < len(t):
        pos.append(k)
        if t[k] == "\\" and k + 1 < len(t):
            k += 6 if t[k + 1] == "u" else 2
        else:
            k += 1
    ok = [p for p in pos if p <= j]
    return ok[-1] if ok else 1


# ------------------------------------------------------------------ (iv) script values
_SPECIAL = [["u"], ["f"], ["n", "NaN", "f"], ["n", "Infinity", "f"], ["n", "-Infinity", "f"], ["u"], ["f"]]
_SIMPLE_KEYS = ["a", "b", "c", "d", "k", "x", "1", "0", "toJSON", "length", "\xe9"]
_IDENT_KEYS = ["g", "h", "p", "q"]
_k7 = st.integers(0, 6)
_k11 = st.integers(0, 10)
_k4 = st.integers(0, 3)
_k20 = st.integers(0, 19)


def _script_leaf(draw, rnd):
    if rnd.randrange(2):
        return list(_SPECIAL[rnd.randrange(7)])
    return _leaf(draw, rnd)


def _script_pairs(draw, rnd, depth, budget, n):
    ps = [(_SIMPLE_KEYS[rnd.randrange(11)], _script_value(draw, rnd, depth + 1, budget)) for _ in range(n) if budget[0] > 0]
    return es_order(uniq_pairs(ps))


_SCRIPT_KINDS = ["a"] * 5 + ["o"] * 5 + ["tojson"] * 2 + ["inh"] * 2 + ["arrx"] * 2 + ["oget"] * 2


def _script_value(draw, rnd, depth, budget):
    budget[0] -= 1
    if depth >= 5 or budget[0] <= 0 or rnd.randrange(10) >= (8 if depth == 0 else 4):
        return _script_leaf(draw, rnd)
    kind = _SCRIPT_KINDS[rnd.randrange(len(_SCRIPT_KINDS))]
    n = rnd.randrange(4)
    if kind == "a":
        return ["a", [_script_value(draw, rnd, depth + 1, budget) for _ in range(n) if budget[0] > 0]]
    if kind == "o":
        return ["o", _script_pairs(draw, rnd, depth, budget, n)]
    if kind == "tojson":
        res = _script_value(draw, rnd, depth + 1, budget)
        extra = [p for p in _script_pairs(draw, rnd, depth, budget, rnd.randrange(2)) if p[0] != "toJSON"]
        return ["tojson", res, 1 if rnd.randrange(4) == 0 else 0, extra]
    if kind == "inh":
        own = _script_pairs(draw, rnd, depth, budget, n)
        proto = [p for p in _script_pairs(draw, rnd, depth, budget, 1 + rnd.randrange(2)) if p[0] != "toJSON"]
        return ["inh", own, proto]
    if kind == "arrx":
        items = [_script_value(draw, rnd, depth + 1, budget) for _ in range(n) if budget[0] > 0]
        extra = [p for p in _script_pairs(draw, rnd, depth, budget, 1 + rnd.randrange(2))
                 if not J.is_array_index(p[0]) and p[0] not in ("length", "toJSON")]
        return ["arrx", items, extra]
    ps = [(_IDENT_KEYS[rnd.randrange(4)], _script_value(draw, rnd, depth + 1, budget), bool(rnd.randrange(2)))
          for _ in range(1 + rnd.randrange(2))]
    return ["oget", uniq_pairs(ps)]


@st.composite
def script_recipes(draw):
    return _script_value(draw, draw(_rnd), 0, [draw(st.sampled_from([2, 5, 9, 14]))])


def plain_paths(r, path=()):
    """Paths (through plain arrays/objects only) of all plain containers."""
    out = []
    if r[0] == "a":
        out.append(path)
        for i, x in enumerate(r[1]):
            out += plain_paths(x, path + (i,))
    elif r[0] == "o":
        out.append(path)
        for k, x in r[1]:
            out += plain_paths(x, path + (k,))
    return out


def _at(r, path):
    for p in path:
        if r[0] == "a":
            r = r[1][p]
        else:
            r = dict((k, x) for k, x in r[1])[p]
    return r


REPLACERS = ["none", "null", "fn-identity", "fn-double", "fn-drop-a", "fn-wrap-root", "arr-ab", "arr-num", "arr-empty",
             "non-callable"]
INDENTS = ["none", "0", "1", "2", "10", "11", "2.7", "-1", "NaN", '""', '"\\t"', '"--"', '"0123456789ab"', "true",
           "null", "({})"]


def _is_prefix(a, b):
    return len(a) <= len(b) and list(b[: len(a)]) == list(a)


@st.composite
def script_cases(draw):
    """{"recipe", "links", "replacer", "indent"}; links = [[P path, key or None (push), Q path], ...]:
    container P receives a reference to container Q (Q an ancestor of P: cycle; else shared)."""
    rnd = draw(_rnd)
    r = _script_value(draw, rnd, 0, [draw(st.sampled_from([2, 5, 9, 14]))])
    links = []
    nlinks = [0, 0, 1, 1, 1, 2][rnd.randrange(6)]
    if nlinks and len(plain_paths(r)) < 3:  # room for a shared reference next to the cycles
        r = ["a", [r, ["o", [["k", ["z"]]]], ["a", [["b", 1]]]]]
    paths = plain_paths(r)
    if paths:
        for _ in range(nlinks):
            p = paths[rnd.randrange(len(paths))]
            qs = paths
            if rnd.randrange(3):  # prefer a shared (acyclic) reference when one exists
                qs = [q for q in paths if not _is_prefix(q, p)] or paths
            q = qs[rnd.randrange(len(qs))]
            key = None if _at(r, p)[0] == "a" else ["a", "z", "self"][rnd.randrange(3)]
            links.append([list(p), key, list(q)])
    rep = ind = "none"
    if rnd.randrange(8) == 0:
        k = rnd.randrange(3)
        if k != 0:
            rep = REPLACERS[rnd.randrange(len(REPLACERS))]
        if k != 1:
            ind = INDENTS[rnd.randrange(len(INDENTS))]
    return {"recipe": r, "links": links, "replacer": rep, "indent": ind}


@st.composite
def opts_value_cases(draw):
    """A plain JSON value with replacer and/or indent arguments (tagged class)."""
    rnd = draw(_rnd)
    r = recipe_es_order(recipe_without_proto_key(_value(draw, rnd, 0, [draw(st.sampled_from([3, 8, 15]))])))
    rep = ind = "none"
    k = rnd.randrange(3)
    if k != 0:
        rep = REPLACERS[rnd.randrange(len(REPLACERS))]
    if k != 1:
        ind = INDENTS[rnd.randrange(len(INDENTS))]
    return {"recipe": r, "links": [], "replacer": rep, "indent": ind}


@st.composite
def script_domain_cases(draw):
    """Domain (iv): five script-value cases for every plain value with options."""
    if draw(st.integers(0, 5)) == 0:
        return draw(opts_value_cases())
    return draw(script_cases())
