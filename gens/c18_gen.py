"""Generators for C18: boundary doubles, random bit patterns, numeric strings
(grammar + mutations), parseInt radix arguments, Math argument grids.

Everything is either a fixed enumeration or a function of a random.Random
handed in by the check (seeded from VERIF_SEED)."""
import math
import struct
from fractions import Fraction

from oracles import prims as P

INF = math.inf
NAN = math.nan


# ------------------------------------------------------------------ doubles
def bits(x):
    return struct.pack(">d", x).hex()


def from_bits(h):
    return struct.unpack(">d", bytes.fromhex(h))[0]


def neighbours(x, n=1):
    out = [x]
    lo = hi = x
    for _ in range(n):
        lo = math.nextafter(lo, -INF)
        hi = math.nextafter(hi, INF)
        out += [lo, hi]
    return out


HALFWAY_TEXT = [
    "0.5", "1.5", "2.5", "3.5", "4.5", "0.05", "0.15", "0.25", "0.35", "0.45", "0.125", "0.375", "0.625",
    "1.005", "1.45", "8.345", "1.255", "10.235", "1.0049999999999999", "0.000001", "0.0000015", "9.995", "0.9995",
    "99.5", "999.9995", "999999.5", "9.5", "0.95", "0.094999", "0.5000000000000001", "0.49999999999999994",
    "123.456", "1234.5678", "0.00001", "0.00015", "1e-10", "1.5e-10", "25", "35", "45", "95", "995", "9995", "15",
    "5", "1", "9", "99", "999", "9.9", "99.99", "0.99", "0.999", "0.0999", "1e20", "123456789012345680000",
    "999999999999999900000", "999999999999999868928", "1e21", "1.2345678901234567e25", "5e-324", "1e-323",
    "1.7976931348623157e308", "2.2250738585072014e-308", "2.225073858507201e-308", "9007199254740991",
    "9007199254740992", "9007199254740994", "4503599627370495.5", "4503599627370496.5", "0.1", "0.2", "0.3",
    "0.7", "1.1", "2.675", "1.115", "5e-7", "5e-6", "4.9999e-7", "1e-6", "1e-7", "9.5e-7", "9.99999e-7",
    "0.000999", "1e15", "1e16", "1e17", "123456.789", "0.000123456789", "3.141592653589793", "2.718281828459045",
    "1.0000000000000002", "0.9999999999999999", "4.35", "0.285", "1.45e-5", "8.5e20", "5.5e20", "1.5e300",
]


def boundary_doubles():
    """Ordered, duplicate-free list of the boundary grid (see DESIGN C18)."""
    out = []
    seen = set()

    def add(x):
        for v in (x, -x):
            b = bits(v)
            if b not in seen:
                seen.add(b)
                out.append(v)

    for v in (0.0, NAN, INF):
        add(v)
    for t in HALFWAY_TEXT:
        for v in neighbours(float(t), 1):
            add(v)
    # exact decimal halfway cases at every digit count 0..20: (2k+1) / (2 * 10^d)
    for d in range(0, 21):
        for k in (0, 1, 2, 7, 12, 62, 499):
            add(float(Fraction(2 * k + 1, 2 * 10 ** d)))
    for t in ("1e21", "1e-6", "1e-7"):
        for v in neighbours(float(t), 2):
            add(v)
    for k in range(-1074, 1024):
        for v in neighbours(math.ldexp(1.0, k), 1):
            if v == v and abs(v) != INF:
                add(v)
    for k in range(-324, 309):
        for v in neighbours(float("1e%d" % k), 1):
            if abs(v) != INF:
                add(v)
    from gens import values as V

    for v in V.NUMS:
        add(v)
    for n in (3, 7, 10, 36, 100, 255, 1000, 65535, 123456789, 2 ** 31, 2 ** 32, 2 ** 53 - 1, 2 ** 53 + 2, 2 ** 60, 2 ** 64, 10 ** 20, 10 ** 21 + 2 ** 18):
        add(float(n))
    return out


def core_doubles():
    """The small part of the grid that every digit count / radix is applied to
    even in the quick tier."""
    out = []
    seen = set()
    for t in HALFWAY_TEXT:
        for v in (float(t), -float(t)):
            if bits(v) not in seen:
                seen.add(bits(v))
                out.append(v)
    for v in (0.0, -0.0, NAN, INF, -INF, 2.0 ** -1074, 2.0 ** 1023, 2.0 ** 70, 2.0 ** -20, 255.0, -255.0, 0.5 ** 10 * 3,
              # subnormals and the first normals (their ulp is not 2^(e-52))
              2.5e-320, 3 * 2.0 ** -1074, 2.0 ** -1060 * 5, 2.2250738585072009e-308, 2.2250738585072014e-308, 4.4501477170144023e-308, -2.5e-320):
        if bits(v) not in seen:
            seen.add(bits(v))
            out.append(v)
    return out


def random_double(rnd):
    """One seeded double; a mixture so that every class the formatting
    thresholds distinguish is hit often."""
    k = rnd.random()
    if k < 0.40:  # uniform over sign / exponent / mantissa
        return struct.unpack(">d", rnd.getrandbits(64).to_bytes(8, "big"))[0]
    if k < 0.60:  # human range, full mantissa
        m = rnd.getrandbits(52) | (1 << 52)
        x = math.ldexp(m, rnd.randint(-85, 25))
        return -x if rnd.random() < 0.3 else x
    if k < 0.80:  # decimal halfway cases (not exactly representable in general)
        d = rnd.randint(0, 20)
        n = rnd.randrange(0, 10 ** rnd.randint(1, 8))
        x = float(Fraction(2 * n + 1, 2 * 10 ** d))
        return -x if rnd.random() < 0.3 else x
    if k < 0.90:  # few significant decimal digits, wide exponent
        x = float("%de%d" % (rnd.randrange(1, 10 ** rnd.randint(1, 6)), rnd.randint(-30, 30)))
        return -x if rnd.random() < 0.3 else x
    # integers of any magnitude up to 2^80
    x = float(rnd.getrandbits(rnd.randint(1, 80)))
    return -x if rnd.random() < 0.3 else x


def nontrivial_double(x):
    """>= 15 significant digits, non-finite, zero, or within 2 ulps of a
    notation threshold / decimal halfway point."""
    if x != x or x == 0 or abs(x) == INF:
        return True
    digs, _ = P.digits_exp(abs(x))
    if len(digs) >= 15:
        return True
    a = abs(x)
    for t in (1e21, 1e-6, 1e-7):
        if abs(a - t) <= 2 * math.ulp(t):
            return True
    return digs.endswith("5")  # a decimal halfway candidate at some digit count


# ------------------------------------------------------------- digit counts
DIGIT_ARGS = [P.UNDEF] + [float(i) for i in range(0, 21)] + [
    -1.0, 100.0, 101.0, 21.0, 50.0, NAN, INF, -INF, -0.5, 2.9, -0.0, 1e21, -1e21, "2", "", "x", None, True, 4294967298.0,
]
RADIX_ARGS = [P.UNDEF] + [float(i) for i in range(2, 37)] + [
    0.0, 1.0, 37.0, -1.0, NAN, INF, -INF, 2.9, 36.9, 1.9, "16", "", None, True, 4294967298.0, 1e21,
]


# ------------------------------------------------------------------ strings
WS_ALL = P.WS
NOT_WS = ["\u180e", "\u200b", "\u0085", "\x1c", "\x1f", "\x00", "\u200e"]  # host str.strip() removes some of these

DEC_BODIES = [
    "0", "1", "7", "10", "42", "007", "00", "123456789", "9007199254740993", "9007199254740995", "18014398509481985",
    "123456789012345678901234567890", "1.5", "0.1", "3.14159", "0.000001", ".5", ".0", "5.", "0.", "1e3", "1E3",
    "1e+3", "1e-3", "1.5e2", ".5e1", "5.e1", "1e21", "1e-7", "1e308", "1e309", "1.7976931348623157e308",
    "1.7976931348623158e308", "1.7976931348623159e308", "5e-324", "2.4703282292062327e-324",
    "2.4703282292062328e-324", "2.5e-324", "1e-400", "1e400", "0e0", "0.0e-0", "1e0010",
    "9007199254740993.0000000000000000000000001", "0.30000000000000004", "4.35", "0.1e1", "100e-2",
    "179769313486231580793728971405303415079934132710037826936173778980444968292764750946649017977587207096330286416"
    "692887910946555547851940402630657488671505820681908902000708383676273854845817711531764475730270069855571366959"
    "622842914819860834936475292719074168444365510704342711559699508093042880177904174497791",
    "Infinity",
]
RADIX_BODIES = [
    "0x10", "0X1f", "0xABCDEF", "0xabcdef", "0x0", "0x00ff", "0x1fffffffffffff", "0x20000000000001", "0x20000000000003",
    "0xfffffffffffff800", "0xfffffffffffffc00", "0o17", "0O17", "0o0", "0o777777777777777777777", "0b11", "0B101", "0b0",
    "0b" + "1" * 54, "0b" + "1" * 1024, "0x" + "f" * 256, "0x" + "f" * 257,
]
MUTANTS = [
    "", ".", "+", "-", "+.", "-.", "e", "e1", ".e1", "-.e1", "1e", "1e+", "1e-", "1e+x", "1.e", "1..", "1..5", "1.2.3",
    "1e1.5", "1e1e1", "1e+-1", "++1", "--1", "+-1", "-+1", "- 1", "+ 1", "1 2", "1,2", "1_0", "1_", "_1", "1__0",
    "0x", "0X", "0o", "0b", "0x_1", "0x1g", "0xg", "0b12", "0b2", "0o18", "0o8", "0x-1", "-0x10", "+0x10", "-0o7", "+0b1",
    "0x1p3", "0x1.8", "0x 1", "1n", "1f", "1d", "1L", "12px", "12e", "12e+", "3.14abc", "1e3x", "1x", ".5.", "5..",
    "infinity", "INFINITY", "Infinit", "Infinityx", "InfinityInfinity", "+Infinity", "-Infinity", "Infinity1", "Inf",
    "inf", "-inf", "nan", "NaN", "-NaN", "nanx", "\uff11", "\uff11\uff12", "1\uff12", "\u0661", "\u0663\u0664", "1\u0663",
    "\u0967", "\u00b2", "1\u00b2", "\u2460", "1\u0301", "1\x00", "\x001", "0.0000001", "1e-7x", "-0", "+0", "-0.0", "-0e5",
    "-.0", "-0x0", "00x10", "0x10.8", "1/2", "1e", "e5", "E5", ".e", "1 e5", "1e 5", "true", "null", "undefined", "[]",
    "0.1e", "0.1e+", "..1", "+.e1", "1E", "1E+", "010", "08", "-08.5", "0e", "0e+", "0.e1",
    # more than one sign, a sign after the body, signs around every kind of body
    "--Infinity", "+-Infinity", "-+Infinity", "++Infinity", "---Infinity", "Infinity-", "Infinity+", "- Infinity", "-Infinity-",
    "--0", "++0", "--.5", "+-.5", "--1e3", "-+1e3", "--0x10", "+-0b1", "1-", "1+", ".5-", "1e3-", "--", "+-", "-+", "++",
]


def boundary_strings():
    """Ordered, duplicate-free list: grammar products with every whitespace
    character, every sign, plus the mutation list."""
    out = []
    seen = set()

    def add(s):
        if s not in seen:
            seen.add(s)
            out.append(s)

    for b in DEC_BODIES + RADIX_BODIES:
        for sg in ("", "+", "-"):
            add(sg + b)
    for m in MUTANTS:
        add(m)
    for i, w in enumerate(WS_ALL):
        add(w + "12")
        add("12" + w)
        add(w + "-1.5e1" + w)
        add(w)
        add("1" + w + "2")
        add(w + "0x1F" + w)
        add("-" + w + "1")
    for w in NOT_WS:
        add(w + "12")
        add("12" + w)
        add(w)
        add(w + "0x10")
    add(" \t\n\r\v\f\u00a0\ufeff\u2028\u2029 -42.5e-1 \u3000\u2003")
    add(" " * 50 + "7")
    add(WS_ALL)
    # very long digit strings (beyond what the host converts to an integer without complaint: 4300 digits)
    for n in (309, 310, 400, 401, 1100, 4300, 4301, 5000, 20000):
        add("1" * n)
        add("-" + "9" * n)
        add("0" * n + "7")
        add("1" * n + ".5")
        add("0." + "0" * n + "1")
        add("1" * n + "e-" + str(n))
        add("0x" + "f" * n)
        add("0b" + "1" * n)
        add("1e" + "9" * n)
        add("1e-" + "9" * n)
        add("-" + "0" * n)
    return out


def random_numeric_string(rnd):
    """Seeded string from the StringNumericLiteral grammar, then mutated with
    probability 1/2."""
    def digs(lo, hi, alphabet="0123456789"):
        return "".join(rnd.choice(alphabet) for _ in range(rnd.randint(lo, hi)))

    k = rnd.random()
    if k < 0.55:
        form = rnd.randrange(4)
        if form == 0:
            body = digs(1, rnd.choice((3, 3, 17, 25, 40)))
        elif form == 1:
            body = digs(1, 20) + "." + digs(0, rnd.choice((3, 20, 30)))
        elif form == 2:
            body = "." + digs(1, rnd.choice((3, 20, 30)))
        else:
            body = digs(1, 18) + "."
        if rnd.random() < 0.5:
            body += rnd.choice("eE") + rnd.choice(("", "+", "-")) + digs(1, rnd.choice((1, 2, 3, 3, 5)))
    elif k < 0.62:
        body = "Infinity"
    elif k < 0.78:
        body = "0" + rnd.choice("xX") + digs(1, rnd.choice((4, 13, 14, 16, 30)), "0123456789abcdefABCDEF")
    elif k < 0.86:
        body = "0" + rnd.choice("oO") + digs(1, rnd.choice((4, 18, 30)), "01234567")
    elif k < 0.94:
        body = "0" + rnd.choice("bB") + digs(1, rnd.choice((8, 53, 54, 70)), "01")
    else:
        # decimal text just around the midpoint of two adjacent doubles
        x = abs(random_double(rnd))
        if x != x or x == INF or x == 0:
            x = 1.5
        mid = (Fraction(x) + Fraction(math.nextafter(x, INF))) / 2 if math.nextafter(x, INF) != INF else Fraction(x)
        e = len(str(mid.numerator)) - len(str(mid.denominator))
        scaled = mid / Fraction(10) ** (e - 30)
        n = scaled.numerator // scaled.denominator + rnd.choice((-1, 0, 0, 1))
        body = "%de%d" % (n, e - 30)
    s = rnd.choice(("", "", "", "+", "-")) + body
    if rnd.random() < 0.5:
        s = rnd.choice(WS_ALL) * rnd.randint(0, 2) + s + rnd.choice(WS_ALL) * rnd.randint(0, 2)
    if rnd.random() < 0.5 and s:
        m = rnd.randrange(8)
        i = rnd.randrange(len(s) + 1)
        junk = rnd.choice(["_", "x", "e", ".", "+", "-", " ", "\uff11", "\u0663", "n", "g", "\u0085", "\u200b", "Infinity", "0x", "8", "2"])
        if m <= 2:
            s = s[:i] + junk + s[i:]
        elif m == 3 and i < len(s):
            s = s[:i] + s[i + 1:]
        elif m == 4:
            s = s + junk
        elif m == 5:
            s = junk + s
        elif m == 6 and i < len(s):
            s = s[:i] + junk + s[i + 1:]
        else:
            s = s[:i] + s[i:].swapcase()
    return s


def nontrivial_string(s):
    """Anything but a plain decimal integer."""
    return not (s.isascii() and s.isdigit())


# -------------------------------------------------------------- parseInt
PARSEINT_RADICES = [P.UNDEF, 0.0] + [float(r) for r in range(2, 37)] + [
    37.0, 1.0, -1.0, NAN, INF, -INF, "16", "0x10", " 8 ", "", "x", None, True, False, 4294967306.0, 4294967312.0,
    -4294967280.0, 16.9, -16.0, 2147483664.0, 1e21, -0.0, 10.5,
]


def radix_of(rv):
    """Effective radix of a parseInt radix argument: 0 = 'auto', None = NaN result."""
    r = P.to_int32(rv)
    if r == 0:
        return 0
    if r < 2 or r > 36:
        return None
    return r


def parseint_strings_for(radix, rnd=None):
    """Digit strings valid / invalid in `radix` (2..36)."""
    D = "0123456789abcdefghijklmnopqrstuvwxyz"
    top = D[radix - 1]
    bad = D[radix] if radix < 36 else "_"
    out = [
        top, top * 3, "1" + "0" * 5, top.upper() + "1", bad, bad + "1", "1" + bad, "1" + bad + "1", "10" + bad.upper(),
        "-" + top, "+" + top + top, " \t" + top + "1 ", "-" + bad, "0x1" + top, "0X" + top, "-0x" + top, "0" + top,
        top * 11, "1" + "0" * 20, top * 25, top * 60, "1" + top * 52, "1" + "0" * 52 + "1", "1." + top, top + "e2",
        "", "-", "0", "-0", "00", "z", "Z", "9", "a", "A", "1_0", "\uff11", "1\uff12", "\u0661", top + "\u0085",
        "\u0085" + top, "\u2003" + top, "\ufeff" + top, "\u180e" + top,
        top * 1101, "-" + top * 1500, "1" + "0" * 1023, "1" + "0" * 1024, "000" + top * 1099 + bad,
    ]
    if rnd is not None:
        for _ in range(6):
            n = rnd.choice((1, 3, 8, 14, 22, 40, 80))
            s = "".join(rnd.choice(D[:radix]) for _ in range(n))
            if rnd.random() < 0.3:
                s = s.upper()
            if rnd.random() < 0.3:
                i = rnd.randrange(len(s) + 1)
                s = s[:i] + rnd.choice([bad, ".", "_", " ", "x"]) + s[i:]
            if rnd.random() < 0.3:
                s = rnd.choice(("-", "+", " ", "0x", "-0X", "\n")) + s
            out.append(s)
    seen = set()
    res = []
    for s in out:
        if s not in seen:
            seen.add(s)
            res.append(s)
    return res


# ------------------------------------------------------------ literals (lexer)
LITERALS = [
    "0", "1", "42", "123456789", "9007199254740991", "9007199254740992", "9007199254740993", "9007199254740995",
    "18014398509481985", "123456789012345678901234567890", "1.5", "0.1", "0.30000000000000004", "3.14159", ".5",
    ".0", "0.5e1", ".5e1", "1e3", "1E3", "1e+3", "1e-3", "1.5e2", "1e21", "1e-7", "1e308", "1e309", "1e400", "1e-400",
    "1.7976931348623157e308", "1.7976931348623158e308", "1.7976931348623159e308", "5e-324", "2.4703282292062327e-324",
    "2.4703282292062328e-324", "2.5e-324", "0e0", "0.0", "1e0010", "9007199254740993.0000000000000000000000001",
    "4.35", "100e-2", "0x10", "0X1f", "0xABCDEF", "0xabcdef", "0x0", "0x00ff", "0x1fffffffffffff", "0x20000000000001",
    "0x20000000000003", "0xfffffffffffff800", "0xfffffffffffffc00", "0o17", "0O17", "0o0", "0o777777777777777777777",
    "0b11", "0B101", "0b0", "0b" + "1" * 54, "0b" + "1" * 1024, "0x" + "f" * 256, "0x" + "f" * 257,
    "5.", "5.e1", "0.", "5.0e-1", "1.e3",
]


def random_literal(rnd):
    def digs(lo, hi, alphabet="0123456789"):
        return "".join(rnd.choice(alphabet) for _ in range(rnd.randint(lo, hi)))

    k = rnd.random()
    if k < 0.6:
        form = rnd.randrange(3)
        if form == 0:
            body = rnd.choice("123456789") + digs(0, rnd.choice((3, 17, 25)))
        elif form == 1:
            body = rnd.choice(("0", rnd.choice("123456789") + digs(0, 18))) + "." + digs(1, rnd.choice((3, 20, 30)))
        else:
            body = "." + digs(1, rnd.choice((3, 20)))
        if rnd.random() < 0.5:
            body += rnd.choice("eE") + rnd.choice(("", "+", "-")) + digs(1, rnd.choice((1, 2, 3)))
        return body
    if k < 0.8:
        return "0" + rnd.choice("xX") + digs(1, rnd.choice((4, 13, 14, 16, 30)), "0123456789abcdefABCDEF")
    if k < 0.9:
        return "0" + rnd.choice("oO") + digs(1, rnd.choice((4, 18, 30)), "01234567")
    return "0" + rnd.choice("bB") + digs(1, rnd.choice((8, 53, 54, 70)), "01")


# ------------------------------------------------------------------- Math
MATH_GRID = [
    NAN, 0.0, -0.0, INF, -INF, 1.0, -1.0, 0.5, -0.5, 2.5, -2.5, 1.5, -1.5, 3.5, -3.5, 1e308, -1e308, 5e-324, -5e-324,
    9007199254740992.0, -2147483648.0, 2147483648.0, 4294967296.0, 4294967301.0, -4294967301.0, 2.0, 3.0, -8.0, 8.0, 27.0,
    1 / 3, 0.49999999999999994, -0.49999999999999994, -0.5000000000000001, 4503599627370495.5, 4503599627370497.0,
    -4503599627370495.5, 9007199254740991.0, 1e21, 709.0, 710.0, -745.0, -746.0, math.pi / 2, math.pi, 1e-10, -1e-10,
    0.9999999999999999, 1.0000000000000002, -0.9999999999999999, -1.0000000000000002, 1.7976931348623157e308,
    3.4028234663852886e38, 3.4028235677973366e38, 3.4028235677973362e38, 1.401298464324817e-45, 7.006492321624085e-46,
    7.00649232162409e-46, 16777217.0, 1.0000000596046448, 10.0, 100.0, 1000.0, 1024.0, 0.1, -7.0, 2147483647.0,
    4294967295.0, 65536.0, 65537.0, -65537.0, 1e300, 123456.789,
]
MATH_GRID_SMALL = [NAN, 0.0, -0.0, INF, -INF, 1.0, -1.0, 0.5, -2.5, 1e308, -5e-324, 3.0]
MATH_NONNUM = ["1", "", "abc", " 0x10 ", None, P.UNDEF, True, False, "-0", "Infinity", "1e3"]


def random_math_arg(rnd):
    k = rnd.random()
    if k < 0.25:
        return struct.unpack(">d", rnd.getrandbits(64).to_bytes(8, "big"))[0]
    if k < 0.65:
        return rnd.uniform(-1, 1) * 10 ** rnd.randint(-3, 3)
    if k < 0.80:
        return float(rnd.randint(-40, 40)) + rnd.choice((0.0, 0.5, 0.25, 0.49999999999999994))
    if k < 0.90:
        return rnd.choice(MATH_GRID)
    return float(rnd.getrandbits(rnd.randint(1, 70))) * rnd.choice((1, -1))
