"""Program IR, printer, static validator and tagging (DESIGN 3.2).

Shared by C05 (control flow / closures), C07 (exceptions) and C08 (objects).
The generators live in gens/c05gen.py (skeleton enumerators, switch product,
closure matrix, seeded random program builder); the reference interpreter for this IR is
oracles/refjs.py.

IR = nested tuples (lists after a JSON round trip are accepted everywhere;
nodes are only ever indexed, never type-tested).  First element = node kind.

Expressions
  ("num", float)  ("str", s)  ("bool", b)  ("null",)  ("undef",)
  ("id", name)    ("this",)
  ("un", op, e)                 op in  - + ! ~ typeof void
  ("bin", op, a, b)             arithmetic / relational / equality / in / instanceof
  ("logic", op, a, b)           && ||
  ("cond", c, a, b)
  ("seq", [e, ...])
  ("assign", op, target, e)     op "=" or compound "+=" ...; target = id / dot / idx
  ("upd", op, prefix, target)   op "++" "--"
  ("call", callee, [args])      callee dot/idx => method call (this = object)
  ("new", callee, [args])
  ("dot", o, name)  ("idx", o, k)
  ("arr", [e, ...])
  ("obj", [prop, ...])          prop = ("init", key, e) | ("get", key, body) |
                                       ("set", key, param, body) | ("method", key, params, body)
                                key  = ("id", name) | ("str", s) | ("num", f) | ("computed", e)
  ("fn", name|None, [params], [body])
  ("arrow", [params], body, is_expr)   body = expression if is_expr else [stmts]
  ("delete", target)            target = dot / idx

Statements
  ("expr", e)  ("var", [(name, init|None), ...])  ("fdecl", name, [params], [body])
  ("block", [s, ...])  ("if", c, then, else|None)
  ("while", c, body)  ("dowhile", body, c)  ("for", init|None, test|None, update|None, body)
  ("forin", left, e, body)  ("forof", left, e, body)    left = ("vardecl", name) | id / dot / idx
  ("switch", disc, [(test|None, [stmts]), ...])
  ("label", name, stmt)  ("break", label|None)  ("continue", label|None)
  ("return", e|None)  ("throw", e)
  ("try", [block], (param, [block])|None, [block]|None)
  ("empty",)

A program is a dict {"body": [stmts], "tags": [...], "sub": campaign, "id": key}.
"""
import math

# ----------------------------------------------------------------- constructors
UNDEF = ("undef",)
NULL = ("null",)
THIS = ("this",)
EMPTY = ("empty",)


def num(v):
    return ("num", float(v))


def s_(v):
    return ("str", v)


def b_(v):
    return ("bool", bool(v))


def id_(n):
    return ("id", n)


def un(op, e):
    return ("un", op, e)


def bin_(op, a, b):
    return ("bin", op, a, b)


def logic(op, a, b):
    return ("logic", op, a, b)


def cond(c, a, b):
    return ("cond", c, a, b)


def seq(*es):
    return ("seq", list(es))


def assign(target, e, op="="):
    return ("assign", op, target, e)


def upd(op, target, prefix=False):
    return ("upd", op, bool(prefix), target)


def call(callee, *args):
    return ("call", callee, list(args))


def mcall(obj, name, *args):
    return ("call", ("dot", obj, name), list(args))


def new(callee, *args):
    return ("new", callee, list(args))


def dot(o, name):
    return ("dot", o, name)


def idx(o, k):
    return ("idx", o, k)


def arr(*es):
    return ("arr", list(es))


def obj(*props):
    return ("obj", list(props))


def init(key, e):
    return ("init", ("id", key) if isinstance(key, str) else key, e)


def fn(name, params, body):
    return ("fn", name, list(params), list(body))


def arrow(params, body, is_expr=None):
    if is_expr is None:
        is_expr = not isinstance(body, list)
    return ("arrow", list(params), body, bool(is_expr))


def log(tag, e):
    return ("expr", ("call", ("id", "log"), [("str", tag), e]))


def expr(e):
    return ("expr", e)


def var(*decls):
    """var(("x", e), "y", ...)"""
    out = []
    for d in decls:
        out.append((d, None) if isinstance(d, str) else (d[0], d[1]))
    return ("var", out)


def fdecl(name, params, body):
    return ("fdecl", name, list(params), list(body))


def block(*ss):
    return ("block", list(ss))


def if_(c, then, els=None):
    return ("if", c, then, els)


def while_(c, body):
    return ("while", c, body)


def dowhile(body, c):
    return ("dowhile", body, c)


def for_(init_, test, update, body):
    return ("for", init_, test, update, body)


def forin(left, e, body):
    return ("forin", left, e, body)


def forof(left, e, body):
    return ("forof", left, e, body)


def switch(disc, cases):
    return ("switch", disc, [(c[0], list(c[1])) for c in cases])


def label(name, stmt):
    return ("label", name, stmt)


def brk(lbl=None):
    return ("break", lbl)


def cont(lbl=None):
    return ("continue", lbl)


def ret(e=None):
    return ("return", e)


def throw(e):
    return ("throw", e)


def try_(blk, catch=None, fin=None):
    return ("try", list(blk), (catch[0], list(catch[1])) if catch else None, list(fin) if fin is not None else None)


# ---------------------------------------------------------------------- printer
class Layout:
    """compact: one line; parens: redundant parentheses round every compound
    sub-expression; indent: indentation unit of the multi-line layout."""

    def __init__(self, compact=False, parens=False, indent="  "):
        self.compact = compact
        self.parens = parens
        self.indent = indent


_BIN_PREC = {
    "||": 4, "&&": 5, "|": 6, "^": 7, "&": 8,
    "==": 9, "!=": 9, "===": 9, "!==": 9,
    "<": 10, "<=": 10, ">": 10, ">=": 10, "in": 10, "instanceof": 10,
    "<<": 11, ">>": 11, ">>>": 11, "+": 12, "-": 12, "*": 13, "/": 13, "%": 13, "**": 14,
}
_P_COMMA, _P_ASSIGN, _P_COND, _P_UNARY, _P_POSTFIX, _P_CALL, _P_PRIMARY = 1, 2, 3, 15, 16, 18, 20


def js_num(v):
    v = float(v)
    if v != v:
        return "NaN"
    if v == math.inf:
        return "Infinity"
    if v == -math.inf:
        return "(-Infinity)"
    if v == 0 and math.copysign(1, v) < 0:
        return "(-0)"
    if v < 0:
        return "(-" + js_num(-v) + ")"
    if v.is_integer() and v < 1e21:
        return str(int(v))
    return repr(v)


def js_str(s):
    out = ['"']
    for ch in s:
        o = ord(ch)
        if ch == '"':
            out.append('\\"')
        elif ch == "\\":
            out.append("\\\\")
        elif ch == "\n":
            out.append("\\n")
        elif ch == "\r":
            out.append("\\r")
        elif ch == "\t":
            out.append("\\t")
        elif o < 0x20 or o >= 0x7F:
            if o > 0xFFFF:
                o -= 0x10000
                out.append("\\u%04x\\u%04x" % (0xD800 + (o >> 10), 0xDC00 + (o & 0x3FF)))
            else:
                out.append("\\u%04x" % o)
        else:
            out.append(ch)
    out.append('"')
    return "".join(out)


class Printer:
    def __init__(self, layout=None):
        self.lay = layout or Layout()

    # ---- expressions
    def e(self, n, prec=0):
        s, p = self._e(n)
        if p < prec or (self.lay.parens and p < _P_PRIMARY and n[0] not in ("num", "str", "id")):
            return "(" + s + ")"
        return s

    def _key(self, k):
        kk = k[0]
        if kk == "id":
            return k[1]
        if kk == "str":
            return js_str(k[1])
        if kk == "num":
            return js_num(k[1]).strip("()")
        return "[" + self.e(k[1], _P_ASSIGN) + "]"

    def _fnbody(self, body, depth):
        return self.block_str(body, depth)

    def _e(self, n, depth=None):
        k = n[0]
        d = self._depth
        if k == "num":
            return js_num(n[1]), _P_PRIMARY
        if k == "str":
            return js_str(n[1]), _P_PRIMARY
        if k == "bool":
            return ("true" if n[1] else "false"), _P_PRIMARY
        if k == "null":
            return "null", _P_PRIMARY
        if k == "undef":
            return "undefined", _P_PRIMARY
        if k == "id":
            return n[1], _P_PRIMARY
        if k == "this":
            return "this", _P_PRIMARY
        if k == "un":
            op = n[1]
            sp = " " if op.isalpha() else ""
            inner = self.e(n[2], _P_UNARY)
            if not sp and inner[:1] == op[:1] and op in "+-":
                inner = "(" + inner + ")"  # - -x, + +x
            return op + sp + inner, _P_UNARY
        if k == "bin":
            op = n[1]
            p = _BIN_PREC[op]
            if op == "**":
                left = self.e(n[2], _P_POSTFIX)  # unary operand of ** must be parenthesised
                return "%s ** %s" % (left, self.e(n[3], p)), p
            s = "%s %s %s" % (self.e(n[2], p), op, self.e(n[3], p + 1))
            if op == "in":
                return "(" + s + ")", _P_PRIMARY  # safe inside for-init
            return s, p
        if k == "logic":
            p = _BIN_PREC[n[1]]
            return "%s %s %s" % (self.e(n[2], p), n[1], self.e(n[3], p + 1)), p
        if k == "cond":
            return "%s ? %s : %s" % (self.e(n[1], _P_COND + 1), self.e(n[2], _P_ASSIGN), self.e(n[3], _P_ASSIGN)), _P_COND
        if k == "seq":
            return ", ".join(self.e(x, _P_ASSIGN) for x in n[1]), _P_COMMA
        if k == "assign":
            return "%s %s %s" % (self.e(n[2], _P_CALL), n[1], self.e(n[3], _P_ASSIGN)), _P_ASSIGN
        if k == "upd":
            t = self.e(n[3], _P_CALL)
            return ((n[1] + t), _P_UNARY) if n[2] else ((t + n[1]), _P_POSTFIX)
        if k == "call":
            return "%s(%s)" % (self._callee(n[1]), ", ".join(self.e(a, _P_ASSIGN) for a in n[2])), _P_CALL
        if k == "new":
            c = n[1]
            cs = self.e(c, _P_PRIMARY) if not self._is_member_chain(c) else self.e(c, _P_CALL)
            return "new %s(%s)" % (cs, ", ".join(self.e(a, _P_ASSIGN) for a in n[2])), _P_CALL
        if k == "dot":
            return "%s.%s" % (self._callee(n[1]), n[2]), _P_CALL
        if k == "idx":
            return "%s[%s]" % (self._callee(n[1]), self.e(n[2], 0)), _P_CALL
        if k == "arr":
            return "[" + ", ".join(self.e(x, _P_ASSIGN) for x in n[1]) + "]", _P_PRIMARY
        if k == "obj":
            parts = []
            for p in n[1]:
                pk = p[0]
                if pk == "init":
                    parts.append("%s: %s" % (self._key(p[1]), self.e(p[2], _P_ASSIGN)))
                elif pk == "get":
                    parts.append("get %s() %s" % (self._key(p[1]), self.block_str(p[2], d + 1)))
                elif pk == "set":
                    parts.append("set %s(%s) %s" % (self._key(p[1]), p[2], self.block_str(p[3], d + 1)))
                elif pk == "method":
                    parts.append("%s(%s) %s" % (self._key(p[1]), ", ".join(p[2]), self.block_str(p[3], d + 1)))
                else:
                    raise KeyError(pk)
            return ("{" + ", ".join(parts) + "}") if parts else "{}", _P_PRIMARY
        if k == "fn":
            return "function %s(%s) %s" % ((n[1] + "") if n[1] else "", ", ".join(n[2]), self.block_str(n[3], d + 1)), _P_PRIMARY
        if k == "arrow":
            ps = "(" + ", ".join(n[1]) + ")"
            if n[3]:
                body = self.e(n[2], _P_ASSIGN)
                if body.startswith("{"):
                    body = "(" + body + ")"
                return "%s => %s" % (ps, body), _P_ASSIGN
            return "%s => %s" % (ps, self.block_str(n[2], d + 1)), _P_ASSIGN
        if k == "delete":
            return "delete " + self.e(n[1], _P_UNARY), _P_UNARY
        raise KeyError("expression kind %r" % (k,))

    @staticmethod
    def _is_member_chain(c):
        while c[0] in ("dot", "idx"):
            c = c[1]
        return c[0] in ("id", "this")

    def _callee(self, c):
        if c[0] in ("fn", "obj", "num", "new", "arrow"):
            return "(" + self._e(c)[0] + ")"
        return self.e(c, _P_CALL)

    # ---- statements
    _depth = 0

    def block_str(self, stmts, depth):
        """'{ ... }' for a statement list, honouring the layout."""
        old = self._depth
        self._depth = depth
        try:
            if self.lay.compact:
                inner = " ".join(self.s(x) for x in stmts)
                return "{ " + inner + " }" if inner else "{ }"
            if not stmts:
                return "{\n" + self.lay.indent * (depth - 1) + "}" if depth > 0 else "{}"
            pad = self.lay.indent * depth
            lines = [pad + self.s(x) for x in stmts]
            return "{\n" + "\n".join(lines) + "\n" + self.lay.indent * (depth - 1) + "}"
        finally:
            self._depth = old

    def _sub(self, st):
        """Statement in a body position (if/loop body)."""
        if st[0] == "block":
            return self.block_str(st[1], self._depth + 1)
        if self.lay.compact:
            return self.s(st)
        old = self._depth
        self._depth += 1
        try:
            return "\n" + self.lay.indent * self._depth + self.s(st)
        finally:
            self._depth = old

    def _left(self, left):
        if left[0] == "vardecl":
            return "var " + left[1]
        return self.e(left, _P_CALL)

    def s(self, n):
        k = n[0]
        if k == "expr":
            t = self.e(n[1], 0)
            if t.startswith("function") or t.startswith("{"):
                t = "(" + t + ")"
            return t + ";"
        if k == "var":
            return "var " + ", ".join(d[0] if d[1] is None else "%s = %s" % (d[0], self.e(d[1], _P_ASSIGN)) for d in n[1]) + ";"
        if k == "fdecl":
            return "function %s(%s) %s" % (n[1], ", ".join(n[2]), self.block_str(n[3], self._depth + 1))
        if k == "block":
            return self.block_str(n[1], self._depth + 1)
        if k == "if":
            t = "if (%s) %s" % (self.e(n[1], 0), self._sub(n[2]))
            if n[3] is not None:
                sep = " " if (n[2][0] == "block" or self.lay.compact) else "\n" + self.lay.indent * self._depth
                t += sep + "else " + (self.s(n[3]) if n[3][0] == "if" else self._sub(n[3]))
            return t
        if k == "while":
            return "while (%s) %s" % (self.e(n[1], 0), self._sub(n[2]))
        if k == "dowhile":
            body = self._sub(n[1])
            sep = " " if (n[1][0] == "block" or self.lay.compact) else "\n" + self.lay.indent * self._depth
            return "do %s%swhile (%s);" % (body, sep, self.e(n[2], 0))
        if k == "for":
            i = ""
            if n[1] is not None:
                i = self.s(n[1])[:-1] if n[1][0] == "var" else self.e(n[1], 0)
            t = self.e(n[2], 0) if n[2] is not None else ""
            u = self.e(n[3], 0) if n[3] is not None else ""
            return "for (%s; %s; %s) %s" % (i, t, u, self._sub(n[4]))
        if k == "forin":
            return "for (%s in %s) %s" % (self._left(n[1]), self.e(n[2], 0), self._sub(n[3]))
        if k == "forof":
            return "for (%s of %s) %s" % (self._left(n[1]), self.e(n[2], _P_ASSIGN), self._sub(n[3]))
        if k == "switch":
            old = self._depth
            parts = []
            self._depth += 1
            try:
                for test, body in n[2]:
                    head = ("case %s:" % self.e(test, 0)) if test is not None else "default:"
                    self._depth += 1
                    try:
                        lines = [self.s(x) for x in body]
                    finally:
                        self._depth -= 1
                    parts.append((head, lines))
            finally:
                self._depth = old
            if self.lay.compact:
                return "switch (%s) { %s }" % (self.e(n[1], 0), " ".join(h + (" " + " ".join(ls) if ls else "") for h, ls in parts))
            p1 = self.lay.indent * (old + 1)
            p2 = self.lay.indent * (old + 2)
            out = ["switch (%s) {" % self.e(n[1], 0)]
            for h, ls in parts:
                out.append(p1 + h)
                out.extend(p2 + l for l in ls)
            out.append(self.lay.indent * old + "}")
            return "\n".join(out)
        if k == "label":
            return "%s: %s" % (n[1], self.s(n[2]))
        if k == "break":
            return "break%s;" % (" " + n[1] if n[1] else "")
        if k == "continue":
            return "continue%s;" % (" " + n[1] if n[1] else "")
        if k == "return":
            return "return%s;" % (" " + self.e(n[1], 0) if n[1] is not None else "")
        if k == "throw":
            return "throw %s;" % self.e(n[1], 0)
        if k == "try":
            t = "try " + self.block_str(n[1], self._depth + 1)
            if n[2] is not None:
                t += " catch (%s) %s" % (n[2][0], self.block_str(n[2][1], self._depth + 1))
            if n[3] is not None:
                t += " finally " + self.block_str(n[3], self._depth + 1)
            return t
        if k == "empty":
            return ";"
        raise KeyError("statement kind %r" % (k,))

    def program(self, body):
        self._depth = 0
        return ("\n" if not self.lay.compact else " ").join(self.s(x) for x in body)


def to_js(prog, layout=None):
    """JavaScript source of a program (dict with 'body') or of a statement list."""
    body = prog["body"] if isinstance(prog, dict) else prog
    return Printer(layout).program(body)


def expr_to_js(e, layout=None):
    p = Printer(layout)
    return p.e(e, 0)


# ------------------------------------------------------------ traversal helpers
_STMT_KINDS = {
    "expr", "var", "fdecl", "block", "if", "while", "dowhile", "for", "forin", "forof", "switch",
    "label", "break", "continue", "return", "throw", "try", "empty",
}


def is_stmt(n):
    return n[0] in _STMT_KINDS


def walk(n, fn_):
    """Pre-order walk over every IR node (statements and expressions)."""
    if n is None:
        return
    fn_(n)
    for c in children(n):
        walk(c, fn_)


def children(n):
    k = n[0]
    if k in ("num", "str", "bool", "null", "undef", "id", "this", "empty", "break", "continue", "vardecl"):
        return []
    if k == "un":
        return [n[2]]
    if k in ("bin", "logic"):
        return [n[2], n[3]]
    if k == "cond":
        return [n[1], n[2], n[3]]
    if k in ("seq", "arr"):
        return list(n[1])
    if k == "assign":
        return [n[2], n[3]]
    if k == "upd":
        return [n[3]]
    if k in ("call", "new"):
        return [n[1]] + list(n[2])
    if k == "dot":
        return [n[1]]
    if k == "idx":
        return [n[1], n[2]]
    if k == "delete":
        return [n[1]]
    if k == "obj":
        out = []
        for p in n[1]:
            if p[1][0] == "computed":
                out.append(p[1][1])
            if p[0] == "init":
                out.append(p[2])
            elif p[0] == "get":
                out.extend(p[2])
            elif p[0] == "set":
                out.extend(p[3])
            elif p[0] == "method":
                out.extend(p[3])
        return out
    if k == "fn":
        return list(n[3])
    if k == "arrow":
        return [n[2]] if n[3] else list(n[2])
    if k == "expr":
        return [n[1]]
    if k == "var":
        return [d[1] for d in n[1] if d[1] is not None]
    if k == "fdecl":
        return list(n[3])
    if k == "block":
        return list(n[1])
    if k == "if":
        return [x for x in (n[1], n[2], n[3]) if x is not None]
    if k == "while":
        return [n[1], n[2]]
    if k == "dowhile":
        return [n[1], n[2]]
    if k == "for":
        return [x for x in (n[1], n[2], n[3], n[4]) if x is not None]
    if k in ("forin", "forof"):
        return [n[1], n[2], n[3]]
    if k == "switch":
        out = [n[1]]
        for test, body in n[2]:
            if test is not None:
                out.append(test)
            out.extend(body)
        return out
    if k == "label":
        return [n[2]]
    if k in ("return",):
        return [n[1]] if n[1] is not None else []
    if k == "throw":
        return [n[1]]
    if k == "try":
        out = list(n[1])
        if n[2] is not None:
            out.extend(n[2][1])
        if n[3] is not None:
            out.extend(n[3])
        return out
    raise KeyError("kind %r" % (k,))


def count_nodes(body):
    c = [0]

    def f(_):
        c[0] += 1

    for st in body:
        walk(st, f)
    return c[0]


# --------------------------------------------------------------- static validity
class Invalid(Exception):
    """The IR denotes a program with an ECMAScript early error (or one the
    generators promise never to build)."""


_LOOPS = ("while", "dowhile", "for", "forin", "forof")
_FUNCS = ("fn", "arrow", "fdecl")


def validate(body):
    """Raise Invalid for: break/continue without a valid target, return outside
    a function, duplicate labels in one nest, duplicate parameter names."""

    def stmts(ss, ctx):
        for st in ss:
            stmt(st, ctx)

    def func(params, body_, is_expr=False):
        if len(set(params)) != len(params):
            raise Invalid("duplicate parameter")
        ctx = {"fn": True, "labels": (), "looplabels": (), "loop": False, "brk": False}
        if is_expr:
            expr_(body_)
        else:
            stmts(body_, ctx)

    def expr_(e):
        if e is None:
            return
        k = e[0]
        if k == "fn":
            func(e[2], e[3])
            return
        if k == "arrow":
            func(e[1], e[2], e[3])
            return
        if k == "obj":
            for p in e[1]:
                if p[1][0] == "computed":
                    expr_(p[1][1])
                if p[0] == "init":
                    expr_(p[2])
                elif p[0] == "get":
                    func([], p[2])
                elif p[0] == "set":
                    func([p[2]], p[3])
                elif p[0] == "method":
                    func(p[2], p[3])
            return
        for c in children(e):
            expr_(c)

    def stmt(st, ctx, pending=()):
        k = st[0]
        if k == "label":
            if st[1] in ctx["labels"] or st[1] in pending:
                raise Invalid("duplicate label")
            stmt(st[2], ctx, pending + (st[1],))
            return
        c2 = dict(ctx)
        c2["labels"] = ctx["labels"] + pending
        if k in _LOOPS:
            c2["looplabels"] = ctx["looplabels"] + pending
            c2["loop"] = True
            c2["brk"] = True
            if k == "while":
                expr_(st[1]); stmt(st[2], c2)
            elif k == "dowhile":
                stmt(st[1], c2); expr_(st[2])
            elif k == "for":
                if st[1] is not None:
                    if st[1][0] == "var":
                        stmt(st[1], ctx)
                    else:
                        expr_(st[1])
                expr_(st[2]); expr_(st[3]); stmt(st[4], c2)
            else:
                if st[1][0] != "vardecl":
                    expr_(st[1])
                expr_(st[2]); stmt(st[3], c2)
            return
        if k == "switch":
            expr_(st[1])
            c2["brk"] = True
            for test, body_ in st[2]:
                expr_(test)
                stmts(body_, c2)
            return
        if k == "break":
            if st[1] is None:
                if not ctx["brk"]:
                    raise Invalid("break outside loop/switch")
            elif st[1] not in ctx["labels"]:
                raise Invalid("break to unknown label")
            return
        if k == "continue":
            if st[1] is None:
                if not ctx["loop"]:
                    raise Invalid("continue outside loop")
            elif st[1] not in ctx["looplabels"]:
                raise Invalid("continue to non-loop label")
            return
        if k == "return":
            if not ctx["fn"]:
                raise Invalid("return outside function")
            expr_(st[1])
            return
        if k == "fdecl":
            func(st[2], st[3])
            return
        if k == "block":
            stmts(st[1], c2)
            return
        if k == "if":
            expr_(st[1]); stmt(st[2], c2)
            if st[3] is not None:
                stmt(st[3], c2)
            return
        if k == "try":
            stmts(st[1], c2)
            if st[2] is not None:
                stmts(st[2][1], c2)
            if st[3] is not None:
                stmts(st[3], c2)
            return
        if k == "expr":
            expr_(st[1]); return
        if k == "var":
            for d in st[1]:
                expr_(d[1])
            return
        if k == "throw":
            expr_(st[1]); return
        if k == "empty":
            return
        raise Invalid("unknown statement %r" % (k,))

    top = {"fn": False, "labels": (), "looplabels": (), "loop": False, "brk": False}
    stmts(body, top)


# ------------------------------------------------------------------------ tags
def tags_of(body):
    """Construct tags computed from the IR itself (bucket keys after shrinking):
    abrupt exits with the constructs they cross, closures, hoisting uses."""
    tags = set()

    def func_body(ss, inner):
        declared = set()
        for st in ss:
            scan(st, (), inner, declared)

    def scan_e(e, stack, infn):
        if e is None:
            return
        k = e[0]
        if k in ("fn", "arrow"):
            tags.add("closure" if infn else "fnexpr")
            if any(x in _LOOPS for x in stack):
                tags.add("closure-in-loop")
            if k == "arrow":
                tags.add("arrow")
                if e[3]:
                    scan_e(e[2], (), True)
                else:
                    func_body(e[2], True)
            else:
                if e[1]:
                    tags.add("nfe")
                func_body(e[3], True)
            return
        if k == "obj":
            for p in e[1]:
                if p[0] in ("get", "set"):
                    tags.add("accessor")
                    func_body(p[2] if p[0] == "get" else p[3], True)
                elif p[0] == "method":
                    func_body(p[3], True)
                else:
                    scan_e(p[2], stack, infn)
                if p[1][0] == "computed":
                    scan_e(p[1][1], stack, infn)
            return
        if k == "id" and e[1] == "arguments":
            tags.add("arguments")
        if k == "new":
            tags.add("new")
        if k == "this":
            tags.add("this")
        if k == "call" and e[1][0] == "dot" and e[1][2] in ("map", "forEach", "filter", "reduce", "some", "every", "find", "findIndex", "sort", "reduceRight"):
            tags.add("callback:" + e[1][2])
        if k == "call" and e[1][0] == "dot" and e[1][2] in ("call", "apply", "bind"):
            tags.add(e[1][2])
        for c in children(e):
            scan_e(c, stack, infn)

    def crossing(kind, stack, lbl, target_kinds):
        # constructs crossed by an exit, innermost first, up to its target
        out = []
        for entry in reversed(stack):
            ek = entry if isinstance(entry, str) else entry[0]
            labels = () if isinstance(entry, str) else entry[1]
            if lbl is None:
                if ek in target_kinds:
                    break
            elif lbl in labels:
                break
            out.append(ek)
        return out

    def scan(st, stack, infn, declared, labels=()):
        k = st[0]
        if k == "label":
            tags.add("label")
            scan(st[2], stack, infn, declared, labels + (st[1],))
            return
        ent = (k, labels)
        if k in ("break", "continue"):
            tk = _LOOPS + (("switch",) if k == "break" else ())
            cr = crossing(k, stack, st[1], tk)
            name = k + ("-L" if st[1] else "")
            tags.add(name)
            for c in cr:
                if c in ("try", "catch", "finally", "forin", "forof", "switch") or (st[1] and c in _LOOPS):
                    tags.add("%s-x-%s" % (name, c))
            return
        if k == "return":
            tags.add("return")
            for entry in stack:
                ek = entry if isinstance(entry, str) else entry[0]
                if ek in ("try", "catch", "finally", "forin", "forof", "switch") or ek in _LOOPS:
                    tags.add("return-x-%s" % ek)
            scan_e(st[1], stack, infn)
            return
        if k == "throw":
            tags.add("throw")
            scan_e(st[1], stack, infn)
            return
        if k == "fdecl":
            tags.add("fdecl-inner" if infn else "fdecl")
            func_body(st[3], True)
            return
        if k == "try":
            tags.add("try" + ("-catch" if st[2] else "") + ("-finally" if st[3] is not None else ""))
            for x in st[1]:
                scan(x, stack + (("try", labels),), infn, declared)
            if st[2] is not None:
                for x in st[2][1]:
                    scan(x, stack + (("catch", labels),), infn, declared)
            if st[3] is not None:
                for x in st[3]:
                    scan(x, stack + (("finally", labels),), infn, declared)
            return
        if k == "switch":
            tags.add("switch")
            scan_e(st[1], stack, infn)
            for i, (test, body_) in enumerate(st[2]):
                if test is None and i != len(st[2]) - 1:
                    tags.add("switch-default-not-last")
                scan_e(test, stack, infn)
                for x in body_:
                    scan(x, stack + (ent,), infn, declared)
            return
        if k in _LOOPS:
            tags.add(k)
            for c in children(st):
                if is_stmt(c) and c[0] != "var":
                    scan(c, stack + (ent,), infn, declared)
                elif c[0] == "var":
                    scan(c, stack, infn, declared)
                elif c[0] != "vardecl":
                    scan_e(c, stack + (ent,), infn)
            return
        if k == "block":
            for x in st[1]:
                scan(x, stack + ((k, labels),) if labels else stack, infn, declared)
            return
        if k == "if":
            scan_e(st[1], stack, infn)
            scan(st[2], stack + ((k, labels),) if labels else stack, infn, declared)
            if st[3] is not None:
                scan(st[3], stack + ((k, labels),) if labels else stack, infn, declared)
            return
        if k == "var":
            for d in st[1]:
                if d[0] in declared:
                    tags.add("var-redecl")
                declared.add(d[0])
                scan_e(d[1], stack, infn)
            return
        if k == "expr":
            scan_e(st[1], stack, infn)
            return

    func_body(body, False)
    return sorted(tags)
