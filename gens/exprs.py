"""Expression / program trees, printers, tokenizer and layout tools for C13.

The IR is the engine's own AST in its `to_dict()` shape (plain dicts with a
"type" key), so three consumers share one object: the printers below, the
structural comparison with `Parser(src).parse().to_dict()`, and the shrinker.
Keys starting with "_" are printing hints (spelling of a literal, `new X`
without an argument list, ...) and are ignored by `strip()`.

Contents
  constructors            Id, Num, Str, Bin, Un, Upd, Cond, Asg, Seq, Mem, Call, New, Arrow, Fn, Arr, Obj, ...
  Printer                 tree -> token list; mode "min" (ECMAScript precedence / associativity, minimal
                          parentheses) or "full" (every operator node parenthesised); optional redundant parentheses
  join_min / render       token list -> source, minimal separators / random trivia
  tokenize                my own ECMAScript tokenizer (corpus programs)
  enum_trees              all trees with n operators over an operator list (exhaustive part of sub-campaign 1)
  ExprGen / ProgGen       random expression trees / terminating programs
"""
import math

# ----------------------------------------------------------------------------
# constructors (field names and order = microjs.ast_nodes dataclasses)


def Id(name):
    return {"type": "Identifier", "name": name}


def Num(value, raw=None):
    n = {"type": "NumericLiteral", "value": value}
    if raw is not None:
        n["_raw"] = raw
    return n


def Str(value, raw=None):
    n = {"type": "StringLiteral", "value": value}
    if raw is not None:
        n["_raw"] = raw
    return n


def Bool(v):
    return {"type": "BooleanLiteral", "value": bool(v)}


def Null():
    return {"type": "NullLiteral"}


def This():
    return {"type": "ThisExpression"}


def Regex(pattern, flags=""):
    return {"type": "RegexLiteral", "pattern": pattern, "flags": flags}


def Bin(op, left, right):
    return {"type": "LogicalExpression" if op in ("&&", "||") else "BinaryExpression",
            "operator": op, "left": left, "right": right}


def Un(op, arg):
    return {"type": "UnaryExpression", "operator": op, "argument": arg, "prefix": True}


def Upd(op, arg, prefix):
    return {"type": "UpdateExpression", "operator": op, "argument": arg, "prefix": bool(prefix)}


def Cond(test, cons, alt):
    return {"type": "ConditionalExpression", "test": test, "consequent": cons, "alternate": alt}


def Asg(op, left, right):
    return {"type": "AssignmentExpression", "operator": op, "left": left, "right": right}


def Seq(exprs):
    return {"type": "SequenceExpression", "expressions": list(exprs)}


def Mem(obj, prop, computed=False):
    if isinstance(prop, str):
        prop = Id(prop)
    return {"type": "MemberExpression", "object": obj, "property": prop, "computed": bool(computed)}


def Call(callee, args):
    return {"type": "CallExpression", "callee": callee, "arguments": list(args)}


def New(callee, args=(), noargs=False):
    n = {"type": "NewExpression", "callee": callee, "arguments": list(args)}
    if noargs:
        assert not args
        n["_noargs"] = True
    return n


def Arrow(params, body, expression=True, bare=False):
    n = {"type": "ArrowFunctionExpression", "params": [Id(p) if isinstance(p, str) else p for p in params],
         "body": body, "expression": bool(expression)}
    if bare:
        n["_bare"] = True  # single parameter printed without parentheses
    return n


def Fn(name, params, body):
    return {"type": "FunctionExpression", "id": Id(name) if isinstance(name, str) else name,
            "params": [Id(p) if isinstance(p, str) else p for p in params], "body": body}


def Arr(elements):
    return {"type": "ArrayExpression", "elements": list(elements)}


def Obj(props):
    return {"type": "ObjectExpression", "properties": list(props)}


def Prop(key, value, kind="init", computed=False, shorthand=False):
    return {"type": "Property", "key": key, "value": value, "kind": kind, "computed": bool(computed),
            "shorthand": bool(shorthand)}


# statements
def Prog(body):
    return {"type": "Program", "body": list(body)}


def ExprStmt(e):
    return {"type": "ExpressionStatement", "expression": e}


def Block(body):
    return {"type": "BlockStatement", "body": list(body)}


def Empty():
    return {"type": "EmptyStatement"}


def Var(decls):
    """decls: [(name, init or None)]"""
    return {"type": "VariableDeclaration",
            "declarations": [{"type": "VariableDeclarator", "id": Id(n), "init": i} for n, i in decls], "kind": "var"}


def If(test, cons, alt=None):
    return {"type": "IfStatement", "test": test, "consequent": cons, "alternate": alt}


def While(test, body):
    return {"type": "WhileStatement", "test": test, "body": body}


def DoWhile(body, test):
    return {"type": "DoWhileStatement", "body": body, "test": test}


def For(init, test, update, body):
    return {"type": "ForStatement", "init": init, "test": test, "update": update, "body": body}


def ForIn(left, right, body):
    return {"type": "ForInStatement", "left": left, "right": right, "body": body}


def ForOf(left, right, body):
    return {"type": "ForOfStatement", "left": left, "right": right, "body": body}


def Break(label=None):
    return {"type": "BreakStatement", "label": Id(label) if label else None}


def Continue(label=None):
    return {"type": "ContinueStatement", "label": Id(label) if label else None}


def Return(arg=None):
    return {"type": "ReturnStatement", "argument": arg}


def Throw(arg):
    return {"type": "ThrowStatement", "argument": arg}


def Try(block, param=None, handler=None, finalizer=None):
    h = None
    if handler is not None:
        h = {"type": "CatchClause", "param": Id(param), "body": handler}
    return {"type": "TryStatement", "block": block, "handler": h, "finalizer": finalizer}


def Switch(disc, cases):
    """cases: [(test or None, [stmts])]"""
    return {"type": "SwitchStatement", "discriminant": disc,
            "cases": [{"type": "SwitchCase", "test": t, "consequent": list(c)} for t, c in cases]}


def Labeled(label, body):
    return {"type": "LabeledStatement", "label": Id(label), "body": body}


def FnDecl(name, params, body):
    return {"type": "FunctionDeclaration", "id": Id(name), "params": [Id(p) for p in params], "body": body}


def strip(t):
    """Copy of t without the printing hints (keys starting with '_')."""
    if isinstance(t, dict):
        return {k: strip(v) for k, v in t.items() if not k.startswith("_")}
    if isinstance(t, list):
        return [strip(x) for x in t]
    return t


def tree_eq(a, b):
    """Structural equality of two to_dict() trees; numbers by IEEE value."""
    if isinstance(a, dict) and isinstance(b, dict):
        if a.keys() != b.keys():
            # A boolean/None annotation that only one side carries (a flag the parser records and this
            # generator does not model, e.g. FunctionExpression.is_method) is not a structural difference.
            for k in a.keys() ^ b.keys():
                v = a.get(k, b.get(k))
                if not (v is None or isinstance(v, bool)):
                    return False
        return all(tree_eq(a[k], b[k]) for k in a.keys() & b.keys())
    if isinstance(a, list) and isinstance(b, list):
        return len(a) == len(b) and all(tree_eq(x, y) for x, y in zip(a, b))
    if isinstance(a, bool) or isinstance(b, bool):
        return a is b
    if isinstance(a, (int, float)) and isinstance(b, (int, float)):
        return a == b or (a != a and b != b)
    return type(a) is type(b) and a == b


def first_diff(a, b, path=""):
    """Path of the first structural difference (for messages)."""
    if isinstance(a, dict) and isinstance(b, dict):
        if a.get("type") != b.get("type"):
            return "%s: %s != %s" % (path or ".", a.get("type"), b.get("type"))
        for k in a:
            if k not in b:
                if a[k] is None or isinstance(a[k], bool):
                    continue
                return "%s.%s missing" % (path, k)
            d = first_diff(a[k], b[k], path + "." + k)
            if d:
                return d
        for k in b:
            if k not in a and not (b[k] is None or isinstance(b[k], bool)):
                return "%s.%s extra" % (path, k)
        return None
    if isinstance(a, list) and isinstance(b, list):
        if len(a) != len(b):
            return "%s: length %d != %d" % (path, len(a), len(b))
        for i, (x, y) in enumerate(zip(a, b)):
            d = first_diff(x, y, "%s[%d]" % (path, i))
            if d:
                return d
        return None
    if not tree_eq(a, b):
        return "%s: %r != %r" % (path, a, b)
    return None


# ----------------------------------------------------------------------------
# literal printers


def js_string(s, quote='"'):
    """Default spelling of a string literal (ASCII only, round-trips any str)."""
    out = [quote]
    for ch in s:
        o = ord(ch)
        if ch == quote:
            out.append("\\" + ch)
        elif ch == "\\":
            out.append("\\\\")
        elif ch == "\n":
            out.append("\\n")
        elif ch == "\r":
            out.append("\\r")
        elif ch == "\t":
            out.append("\\t")
        elif o < 0x20 or o == 0x7F:
            out.append("\\x%02x" % o)
        elif o < 0x7F:
            out.append(ch)
        elif o <= 0xFFFF:
            out.append("\\u%04x" % o)
        else:
            out.append("\\u{%x}" % o)
    out.append(quote)
    return "".join(out)


def num_src(v):
    """Default spelling of a non-negative number."""
    if isinstance(v, bool):
        raise TypeError(v)
    if isinstance(v, int):
        return str(v)
    if v != v or v < 0:
        raise ValueError("no literal for %r" % v)
    if v == math.inf:
        return "1e400"
    return repr(float(v))


# ----------------------------------------------------------------------------
# precedence table of the ECMAScript expression grammar (higher binds tighter)

SEQ, ASG, COND, LOR, LAND, BOR, BXOR, BAND, EQ, REL, SHIFT, ADD, MUL, EXP, UNARY, UPDATE, NEWNOARGS, CALL, MEMBER, PRIMARY = range(20)

BINLEVEL = {
    "||": LOR, "&&": LAND, "|": BOR, "^": BXOR, "&": BAND,
    "==": EQ, "!=": EQ, "===": EQ, "!==": EQ,
    "<": REL, ">": REL, "<=": REL, ">=": REL, "in": REL, "instanceof": REL,
    "<<": SHIFT, ">>": SHIFT, ">>>": SHIFT,
    "+": ADD, "-": ADD, "*": MUL, "/": MUL, "%": MUL, "**": EXP,
}
BINOPS = list(BINLEVEL)
UNOPS = ["-", "+", "!", "~", "typeof", "void", "delete"]
ASGOPS = ["=", "+=", "-=", "*=", "/=", "%=", "&=", "|=", "^=", "<<=", ">>=", ">>>="]
KEYWORDS = {
    "var", "function", "return", "if", "else", "while", "do", "for", "in", "of", "break", "continue", "switch", "case",
    "default", "try", "catch", "finally", "throw", "new", "delete", "typeof", "instanceof", "this", "true", "false",
    "null", "void",
}
EXPR_TYPES = {
    "NumericLiteral", "StringLiteral", "BooleanLiteral", "NullLiteral", "RegexLiteral", "Identifier", "ThisExpression",
    "ArrayExpression", "ObjectExpression", "UnaryExpression", "UpdateExpression", "BinaryExpression",
    "LogicalExpression", "ConditionalExpression", "AssignmentExpression", "SequenceExpression", "MemberExpression",
    "CallExpression", "NewExpression", "FunctionExpression", "ArrowFunctionExpression",
}
LEAF_TYPES = {"NumericLiteral", "StringLiteral", "BooleanLiteral", "NullLiteral", "RegexLiteral", "Identifier",
              "ThisExpression"}


def level(n):
    """Grammar level of the production that derives node n when printed
    without parentheses around itself."""
    t = n["type"]
    if t == "SequenceExpression":
        return SEQ
    if t in ("AssignmentExpression", "ArrowFunctionExpression"):
        return ASG
    if t == "ConditionalExpression":
        return COND
    if t in ("BinaryExpression", "LogicalExpression"):
        return BINLEVEL[n["operator"]]
    if t == "UnaryExpression":
        return UNARY
    if t == "UpdateExpression":
        return UPDATE
    if t == "NewExpression":
        return NEWNOARGS if n.get("_noargs") else MEMBER
    if t == "CallExpression":
        return CALL
    if t == "MemberExpression":
        lo = level(n["object"])
        # a member chain whose spine contains a call is a CallExpression;
        # an object that gets parenthesised is a PrimaryExpression
        return CALL if lo == CALL else MEMBER
    return PRIMARY


def is_reference(n):
    return n["type"] in ("Identifier", "MemberExpression")


# ----------------------------------------------------------------------------
# token classes and separators

_IDCH = set("abcdefghijklmnopqrstuvwxyzABCDEFGHIJKLMNOPQRSTUVWXYZ0123456789_$")


def _idch(c):
    return c in _IDCH or ord(c) > 127


def tok_kind(t):
    c = t[0]
    if c in "\"'":
        return "str"
    if c.isdigit() or (c == "." and len(t) > 1 and t[1].isdigit()):
        return "num"
    if c == "/" and len(t) > 1 and t != "/=":
        return "regex"
    if _idch(c):
        return "word"
    return "punct"


def need_space(a, b):
    """True when tokens a, b written next to each other would be read as
    different tokens (or as a comment)."""
    la, fb = a[-1], b[0]
    ka = tok_kind(a)
    if ka in ("word", "num") and (_idch(fb) or fb == "\\"):
        return True
    if ka == "num" and fb == ".":
        return True
    if ka == "regex" and _idch(fb):
        return True
    if la == "+" and fb == "+":
        return True
    if la == "-" and fb == "-":
        return True
    if la == "/" and fb in "/*":
        return True
    if la == "*" and fb == "/":
        return True
    if la == "<" and fb == "!":  # <!-- is a comment in web scripts
        return True
    if a == "--" and fb == ">":
        return True
    return False


class Toks:
    """A token list plus the gaps in which ECMAScript forbids a line
    terminator (restricted productions) ."""

    def __init__(self):
        self.toks = []
        self.nonl = set()  # indices i: no line terminator between token i-1 and token i
        self.marks = {}  # name -> token index (used by the rejection mutations)

    def add(self, text, nonl=False):
        if nonl:
            self.nonl.add(len(self.toks))
        self.toks.append(text)

    def forbid_nl_next(self):
        self.nonl.add(len(self.toks))


def join_min(toks):
    """Source with a single space only where two tokens would otherwise merge."""
    if isinstance(toks, Toks):
        toks = toks.toks
    out = []
    prev = None
    for t in toks:
        if prev is not None and need_space(prev, t):
            out.append(" ")
        out.append(t)
        prev = t
    return "".join(out)


def join_spaced(toks):
    if isinstance(toks, Toks):
        toks = toks.toks
    return " ".join(toks)


# ----------------------------------------------------------------------------
# the printer


class Printer:
    """mode 'min': parentheses exactly where the ECMAScript grammar needs them.
    mode 'full': every operator node (non-leaf expression) is parenthesised,
    except the places where a parenthesis is not an expression parenthesis
    (assignment / update / for-in targets stay bare references; arrow
    parameters).
    extra > 0 with rnd: additionally wrap random sub-expressions in 1-3
    redundant pairs (never: targets unless extra_targets, never arrow heads).
    """

    def __init__(self, mode="min", rnd=None, extra=0.0, extra_targets=False, raw_targets=False, quote=None,
                 wrap_stmt_whole=False, raw_exp_base=False, raw_noin=False):
        self.raw_noin = raw_noin  # rejection campaign: print `in` inside a for-init without the required parentheses
        self.raw_exp_base = raw_exp_base  # rejection campaign: print `-a ** b` without the required parentheses
        self.mode = mode
        self.rnd = rnd
        self.extra = extra
        self.extra_targets = extra_targets
        self.raw_targets = raw_targets  # rejection campaign: print a non-reference target without parentheses
        self.quote = quote
        self.wrap_stmt_whole = wrap_stmt_whole
        self.o = Toks()
        self.extra_count = 0

    # -- helpers
    def t(self, text, nonl=False):
        self.o.add(text, nonl)

    def _chance(self, p):
        return self.rnd is not None and p > 0 and self.rnd.random() < p

    # -- expressions
    def expr(self, n, minlevel=SEQ, noin=False, first=(), target=False):
        """Emit expression n where the grammar requires a production of at
        least `minlevel`.  noin: inside a for-init (the `in` operator needs
        parentheses).  first: tokens the emitted text must not start with
        ('{' / 'function' at statement start, '{' at arrow-body start)."""
        typ = n["type"]
        leaf = typ in LEAF_TYPES
        if self.mode == "full":
            need = not leaf and not target
        else:
            lv = level(n)
            need = lv < minlevel
            if minlevel == -1:  # callee of `new X` without arguments: MemberExpression or another bare new
                need = not (lv >= MEMBER or lv == NEWNOARGS)
            if noin and typ == "BinaryExpression" and n["operator"] == "in" and not self.raw_noin:
                need = True
            if typ in ("ObjectExpression", "FunctionExpression") and typ_first(typ) in first:
                need = True
            if target and self.raw_targets:
                need = False
        extra = 0
        if self.extra and not (target and not self.extra_targets) and self._chance(self.extra):
            extra = 1 + (self.rnd.random() < 0.3) + (self.rnd.random() < 0.1)
            self.extra_count += extra
        pairs = extra + (1 if need else 0)
        for _ in range(pairs):
            self.t("(")
        if pairs:
            self._expr_inner(n, False, ())
        else:
            self._expr_inner(n, noin, first)
        for _ in range(pairs):
            self.t(")")

    def _expr_inner(self, n, noin, first):
        typ = n["type"]
        e = self.expr
        if typ == "Identifier":
            self.t(n["name"])
        elif typ == "NumericLiteral":
            self.t(n["_raw"] if "_raw" in n else num_src(n["value"]))
        elif typ == "StringLiteral":
            if "_raw" in n:
                self.t(n["_raw"])
            else:
                q = self.quote or ('"' if self.rnd is None or self.rnd.random() < 0.5 else "'")
                self.t(js_string(n["value"], q))
        elif typ == "BooleanLiteral":
            self.t("true" if n["value"] else "false")
        elif typ == "NullLiteral":
            self.t("null")
        elif typ == "ThisExpression":
            self.t("this")
        elif typ == "RegexLiteral":
            self.t("/" + n["pattern"] + "/" + n["flags"])
        elif typ == "SequenceExpression":
            for i, x in enumerate(n["expressions"]):
                if i:
                    self.t(",")
                e(x, ASG, noin, first if i == 0 else ())
        elif typ == "AssignmentExpression":
            e(n["left"], NEWNOARGS, False, first, target=True)
            self.t(n["operator"])
            e(n["right"], ASG, noin)
        elif typ == "ConditionalExpression":
            e(n["test"], LOR, noin, first)
            self.o.marks.setdefault("cond?", []).append(len(self.o.toks))
            self.t("?")
            e(n["consequent"], ASG, False)
            self.o.marks.setdefault("cond:", []).append(len(self.o.toks))
            self.t(":")
            e(n["alternate"], ASG, noin)
        elif typ in ("BinaryExpression", "LogicalExpression"):
            op = n["operator"]
            lv = BINLEVEL[op]
            if op == "**":
                # ExponentiationExpression : UpdateExpression ** ExponentiationExpression
                if self.raw_exp_base and n["left"]["type"] == "UnaryExpression":
                    e(n["left"], UNARY, noin, first)
                else:
                    e(n["left"], UPDATE, noin, first)
                self.t(op)
                e(n["right"], EXP, noin)
            else:
                e(n["left"], lv, noin, first)
                self.t(op)
                e(n["right"], lv + 1, noin)
        elif typ == "UnaryExpression":
            self.t(n["operator"])
            e(n["argument"], UNARY)
        elif typ == "UpdateExpression":
            if n["prefix"]:
                self.t(n["operator"])
                e(n["argument"], UNARY, target=True)
            else:
                e(n["argument"], NEWNOARGS, False, first, target=True)
                self.t(n["operator"], nonl=True)
        elif typ == "MemberExpression":
            e(n["object"], CALL, False, first)
            if n["computed"]:
                self.t("[")
                e(n["property"], SEQ)
                self.t("]")
            else:
                self.t(".")
                self.t(n["property"]["name"])
        elif typ == "CallExpression":
            e(n["callee"], CALL, False, first)
            self._args(n["arguments"])
        elif typ == "NewExpression":
            self.t("new")
            noargs = n.get("_noargs") and not n["arguments"] and self.mode != "full"
            if self.mode == "full":
                # the callee is parenthesised even when it is a leaf-free primary: `new (a.b)(c)`
                e(n["callee"], MEMBER)
                self._args(n["arguments"])
            elif noargs:
                e(n["callee"], -1)
            else:
                e(n["callee"], MEMBER)
                self._args(n["arguments"])
        elif typ == "ArrayExpression":
            self.t("[")
            for i, x in enumerate(n["elements"]):
                if i:
                    self.t(",")
                e(x, ASG)
            if n.get("_trailing") and n["elements"]:
                self.t(",")
            self.t("]")
        elif typ == "ObjectExpression":
            self.t("{")
            for i, p in enumerate(n["properties"]):
                if i:
                    self.t(",")
                self._prop(p)
            if n.get("_trailing") and n["properties"]:
                self.t(",")
            self.t("}")
        elif typ == "FunctionExpression":
            self.t("function")
            if n["id"] is not None:
                self.t(n["id"]["name"])
            self._params(n["params"])
            self.block(n["body"])
        elif typ == "ArrowFunctionExpression":
            ps = n["params"]
            if n.get("_bare") and len(ps) == 1:
                self.t(ps[0]["name"])
            else:
                self._params(ps)
            self.t("=>", nonl=True)
            if n["expression"]:
                e(n["body"], ASG, noin, ("{",))
            else:
                self.block(n["body"])
        else:
            raise ValueError("not an expression: %s" % typ)

    def _args(self, args):
        self.t("(")
        for i, x in enumerate(args):
            if i:
                self.t(",")
            self.expr(x, ASG)
        self.t(")")

    def _params(self, ps):
        self.t("(")
        for i, p in enumerate(ps):
            if i:
                self.t(",")
            self.t(p["name"])
        self.t(")")

    def _key(self, p):
        k = p["key"]
        if p["computed"]:
            self.t("[")
            self.expr(k, ASG)
            self.t("]")
        elif k["type"] == "Identifier":
            self.t(k["name"])
        elif k["type"] == "StringLiteral":
            self.t(k["_raw"] if "_raw" in k else js_string(k["value"], self.quote or '"'))
        elif k["type"] == "NumericLiteral":
            self.t(k["_raw"] if "_raw" in k else num_src(k["value"]))
        else:
            raise ValueError("property key %s" % k["type"])

    def _prop(self, p):
        v = p["value"]
        if p["kind"] in ("get", "set"):
            self.t(p["kind"])
            self._key(p)
            self._params(v["params"])
            self.block(v["body"])
            return
        # method shorthand: the generator's hint, or what the parser recorded (is_method) for a parsed tree
        if (p.get("_method") or v.get("is_method")) and v["type"] == "FunctionExpression" and v["id"] is None:
            self._key(p)
            self._params(v["params"])
            self.block(v["body"])
            return
        if (p["shorthand"] and not p["computed"] and p["key"]["type"] == "Identifier" and v["type"] == "Identifier"
                and v["name"] == p["key"]["name"]):
            self.t(v["name"])
            return
        self._key(p)
        self.t(":")
        self.expr(v, ASG)

    # -- statements
    def block(self, b):
        self.t("{")
        for s in b["body"]:
            self.stmt(s)
        self.t("}")

    def stmt(self, s):
        typ = s["type"]
        e = self.expr
        if typ == "ExpressionStatement":
            x = s["expression"]
            if self.wrap_stmt_whole and self.mode == "min" and _starts_with(x) in ("{", "function"):
                self.t("(")
                e(x, SEQ)
                self.t(")")
            else:
                e(x, SEQ, False, ("{", "function"))
            self.t(";")
        elif typ == "BlockStatement":
            self.block(s)
        elif typ == "EmptyStatement":
            self.t(";")
        elif typ == "VariableDeclaration":
            self._vardecl(s, False)
            self.t(";")
        elif typ == "IfStatement":
            self.t("if")
            self.t("(")
            e(s["test"], SEQ)
            self.t(")")
            self.stmt(s["consequent"])
            if s["alternate"] is not None:
                self.t("else")
                self.stmt(s["alternate"])
        elif typ == "WhileStatement":
            self.t("while")
            self.t("(")
            e(s["test"], SEQ)
            self.t(")")
            self.stmt(s["body"])
        elif typ == "DoWhileStatement":
            self.t("do")
            self.stmt(s["body"])
            self.t("while")
            self.t("(")
            e(s["test"], SEQ)
            self.t(")")
            self.t(";")
        elif typ == "ForStatement":
            self.t("for")
            self.t("(")
            i = s["init"]
            if i is not None:
                if i["type"] == "VariableDeclaration":
                    self._vardecl(i, True)
                else:
                    e(i, SEQ, True)
            self.t(";")
            if s["test"] is not None:
                e(s["test"], SEQ)
            self.t(";")
            if s["update"] is not None:
                e(s["update"], SEQ)
            self.t(")")
            self.stmt(s["body"])
        elif typ in ("ForInStatement", "ForOfStatement"):
            self.t("for")
            self.t("(")
            left = s["left"]
            if left["type"] == "VariableDeclaration":
                self._vardecl(left, True)
            else:
                e(left, NEWNOARGS, target=True)
            if typ == "ForInStatement":
                self.t("in")
                e(s["right"], SEQ)
            else:
                self.t("of")
                e(s["right"], ASG)
            self.t(")")
            self.stmt(s["body"])
        elif typ in ("BreakStatement", "ContinueStatement"):
            self.t("break" if typ == "BreakStatement" else "continue")
            self.o.forbid_nl_next()
            if s["label"] is not None:
                self.t(s["label"]["name"])
            self.t(";")
        elif typ == "ReturnStatement":
            self.t("return")
            self.o.forbid_nl_next()
            if s["argument"] is not None:
                e(s["argument"], SEQ)
            self.t(";")
        elif typ == "ThrowStatement":
            self.t("throw")
            self.o.forbid_nl_next()
            e(s["argument"], SEQ)
            self.t(";")
        elif typ == "TryStatement":
            self.t("try")
            self.block(s["block"])
            if s["handler"] is not None:
                self.t("catch")
                self.t("(")
                self.t(s["handler"]["param"]["name"])
                self.t(")")
                self.block(s["handler"]["body"])
            if s["finalizer"] is not None:
                self.t("finally")
                self.block(s["finalizer"])
        elif typ == "SwitchStatement":
            self.t("switch")
            self.t("(")
            e(s["discriminant"], SEQ)
            self.t(")")
            self.t("{")
            for c in s["cases"]:
                if c["test"] is None:
                    self.t("default")
                else:
                    self.t("case")
                    e(c["test"], SEQ)
                self.t(":")
                for x in c["consequent"]:
                    self.stmt(x)
            self.t("}")
        elif typ == "LabeledStatement":
            self.t(s["label"]["name"])
            self.t(":")
            self.stmt(s["body"])
        elif typ == "FunctionDeclaration":
            self.t("function")
            self.t(s["id"]["name"])
            self._params(s["params"])
            self.block(s["body"])
        else:
            raise ValueError("not a statement: %s" % typ)

    def _vardecl(self, d, noin):
        self.t("var")
        for i, dd in enumerate(d["declarations"]):
            if i:
                self.t(",")
            self.t(dd["id"]["name"])
            if dd["init"] is not None:
                self.t("=")
                self.expr(dd["init"], ASG, noin)

    def program(self, p):
        for s in p["body"]:
            self.stmt(s)
        return self.o


def typ_first(typ):
    return "{" if typ == "ObjectExpression" else "function"


def _starts_with(n):
    """First token class of the minimal rendering of n ('{', 'function' or '')."""
    while True:
        t = n["type"]
        if t == "ObjectExpression":
            return "{"
        if t == "FunctionExpression":
            return "function"
        if t == "SequenceExpression":
            n = n["expressions"][0]
        elif t in ("BinaryExpression", "LogicalExpression", "AssignmentExpression"):
            child = n["left"]
            lv = BINLEVEL.get(n.get("operator"), NEWNOARGS) if t != "AssignmentExpression" else NEWNOARGS
            if n.get("operator") == "**":
                lv = UPDATE
            if level(child) < lv:
                return ""
            n = child
        elif t == "ConditionalExpression":
            if level(n["test"]) < LOR:
                return ""
            n = n["test"]
        elif t == "MemberExpression":
            if level(n["object"]) < CALL:
                return ""
            n = n["object"]
        elif t == "CallExpression":
            if level(n["callee"]) < CALL:
                return ""
            n = n["callee"]
        elif t == "UpdateExpression" and not n["prefix"]:
            n = n["argument"]
        else:
            return ""


def print_expr(t, mode="min", ctx="stmt", **kw):
    """Tokens of expression t placed in context ctx, and the path under which
    the parsed expression is found in Program.to_dict()."""
    p = Printer(mode=mode, **kw)
    path = emit_in_context(p, t, ctx)
    return p.o, path


CONTEXTS = ["stmt", "rhs", "arg", "elem", "forinit", "paren", "cond", "ret", "arrowbody", "propval", "index", "case"]


def emit_in_context(p, t, ctx):
    """Emit a small program around expression t; returns the access path
    (list of keys) of t inside the parsed Program dict."""
    e = p.expr
    if ctx == "stmt":  # ExpressionStatement: must not start with { or function
        e(t, SEQ, False, ("{", "function"))
        p.t(";")
        return ["body", 0, "expression"]
    if ctx == "rhs":  # var z = AssignmentExpression
        p.t("var"); p.t("z"); p.t("=")
        e(t, ASG)
        p.t(";")
        return ["body", 0, "declarations", 0, "init"]
    if ctx == "arg":
        p.t("f"); p.t("("); p.t("x"); p.t(",")
        e(t, ASG)
        p.t(")"); p.t(";")
        return ["body", 0, "expression", "arguments", 1]
    if ctx == "elem":
        p.t("z"); p.t("="); p.t("[")
        e(t, ASG)
        p.t(","); p.t("x"); p.t("]"); p.t(";")
        return ["body", 0, "expression", "right", "elements", 0]
    if ctx == "forinit":  # Expression[~In]
        p.t("for"); p.t("(")
        e(t, SEQ, True)
        p.t(";"); p.t("false"); p.t(";"); p.t(")"); p.t(";")
        return ["body", 0, "init"]
    if ctx == "paren":
        p.t("z"); p.t("="); p.t("(")
        e(t, SEQ)
        p.t(")"); p.t(";")
        return ["body", 0, "expression", "right"]
    if ctx == "cond":
        p.t("if"); p.t("(")
        e(t, SEQ)
        p.t(")"); p.t(";")
        return ["body", 0, "test"]
    if ctx == "ret":
        p.t("function"); p.t("g"); p.t("("); p.t(")"); p.t("{"); p.t("return")
        p.o.forbid_nl_next()
        e(t, SEQ)
        p.t(";"); p.t("}")
        return ["body", 0, "body", "body", 0, "argument"]
    if ctx == "arrowbody":  # ConciseBody: must not start with {
        p.t("z"); p.t("="); p.t("("); p.t(")"); p.t("=>", nonl=True)
        e(t, ASG, False, ("{",))
        p.t(";")
        return ["body", 0, "expression", "right", "body"]
    if ctx == "propval":
        p.t("z"); p.t("="); p.t("{"); p.t("k"); p.t(":")
        e(t, ASG)
        p.t("}"); p.t(";")
        return ["body", 0, "expression", "right", "properties", 0, "value"]
    if ctx == "index":
        p.t("z"); p.t("="); p.t("o"); p.t("[")
        e(t, SEQ)
        p.t("]"); p.t(";")
        return ["body", 0, "expression", "right", "property"]
    if ctx == "case":
        p.t("switch"); p.t("("); p.t("x"); p.t(")"); p.t("{"); p.t("case")
        e(t, SEQ)
        p.t(":"); p.t("}")
        return ["body", 0, "cases", 0, "test"]
    raise KeyError(ctx)


def get_path(d, path):
    for k in path:
        d = d[k]
    return d


def print_program(prog, mode="min", **kw):
    p = Printer(mode=mode, **kw)
    return p.program(prog)


# ----------------------------------------------------------------------------
# trivia

_COMMENT_BITS = [
    "c", "note", "x = 1", "\"", "'", "`", "(", ")", "[", "]", "{", "}", "* /", "/ *", "/*", "//", "*\\/", "* /", "**", "*",
    "/", "\\", "\\n", "<!--", "-->", "=>", "++", "return", "\"unterminated", "it's", ";", "?:", "@#", "é", "漢",
    "*/".replace("/", " /"), "/**", " ",
]


def comment_text(rnd, block):
    n = rnd.choice((0, 1, 1, 2, 3, 5))
    s = " ".join(rnd.choice(_COMMENT_BITS) for _ in range(n))
    if block:
        while "*/" in s:
            s = s.replace("*/", "* /")
        if s.endswith("*"):
            s += " "
    return s


class Layout:
    """Parameters of the trivia inserter."""

    def __init__(self, density=0.5, newlines=("\n", "\r\n"), spaces=(" ", "\t"), comments=True, lone_cr=False,
                 vt_ff=False):
        self.density = density
        self.newlines = list(newlines) + (["\r"] if lone_cr else [])
        self.spaces = list(spaces) + (["\v", "\f"] if vt_ff else [])
        self.comments = comments


def gen_trivia(rnd, lay, allow_nl, must_nl=False):
    """One run of trivia.  allow_nl False: no line terminator anywhere in it
    (so no line comment and no line break inside a block comment)."""
    out = []
    n = rnd.choice((1, 1, 1, 2, 2, 3, 4))
    has_nl = False
    for _ in range(n):
        r = rnd.random()
        if r < 0.35:
            out.append(rnd.choice(lay.spaces) * rnd.choice((1, 1, 2, 4)))
        elif r < 0.55:
            if allow_nl:
                out.append(rnd.choice(lay.newlines))
                has_nl = True
            else:
                out.append(" ")
        elif r < 0.8 and lay.comments:
            txt = comment_text(rnd, True)
            if allow_nl and rnd.random() < 0.25:
                txt += rnd.choice(lay.newlines) + comment_text(rnd, True)
                has_nl = True
            out.append("/*" + txt + "*/")
        elif lay.comments and allow_nl:
            out.append("//" + comment_text(rnd, False) + rnd.choice(lay.newlines))
            has_nl = True
        else:
            out.append(" ")
    if must_nl and not has_nl:
        out.append(rnd.choice(lay.newlines))
    return "".join(out)


def render(toks, rnd, lay=None, nonl=None, must_nl=None, stats=None):
    """Re-render a token sequence with random trivia.  Returns source text.
    Never puts a line terminator into a gap listed in nonl; never leaves two
    tokens adjacent that need a separator; never lets trivia and a token form
    a comment opener by accident."""
    if isinstance(toks, Toks):
        nonl = toks.nonl if nonl is None else nonl
        toks = toks.toks
    nonl = nonl or set()
    must_nl = must_nl or set()
    lay = lay or Layout()
    out = []
    prev = None
    ntriv = ncomment = nnl = 0
    for i in range(len(toks) + 1):
        t = toks[i] if i < len(toks) else None
        mnl = i in must_nl
        allow_nl = (i not in nonl) or mnl
        need = prev is not None and t is not None and need_space(prev, t)
        tr = ""
        if mnl and i in nonl:
            # the original has a line break in a restricted position (break / continue / return / throw
            # followed by a new line): keep exactly that, a line feed
            tr = "\n"
        elif mnl or rnd.random() < lay.density:
            tr = gen_trivia(rnd, lay, allow_nl, mnl)
        if need and not tr:
            tr = " "
        if tr:
            # `/` or `*` followed by a comment opener would form `//`, `/*` or `*/`
            if prev is not None and prev[-1] in "/*" and tr[0] == "/":
                tr = " " + tr
            ntriv += 1
            ncomment += tr.count("/*") > 0 or tr.count("//") > 0
            nnl += ("\n" in tr) or ("\r" in tr)
        out.append(tr)
        if t is not None:
            out.append(t)
        prev = t
    if stats is not None:
        stats["trivia"] = ntriv
        stats["comments"] = ncomment
        stats["newlines"] = nnl
    return "".join(out)


# ----------------------------------------------------------------------------
# my own tokenizer (corpus programs; generated programs never need it)

_PUNCT = [
    ">>>=", "===", "!==", ">>>", "<<=", ">>=", "**=", "...", "=>", "==", "!=", "<=", ">=", "&&", "||", "++", "--", "+=",
    "-=", "*=", "/=", "%=", "&=", "|=", "^=", "<<", ">>", "**", "??", "?.",
    "{", "}", "(", ")", "[", "]", ";", ",", "<", ">", "+", "-", "*", "/", "%", "&", "|", "^", "!", "~", "?", ":", "=", ".",
]
_REGEX_AFTER_WORD = {"return", "typeof", "instanceof", "in", "of", "new", "delete", "void", "throw", "case", "do", "else"}
_LT = "\n\r\u2028\u2029"
_WS = " \t\v\f\u00a0\ufeff"


class TokenizeError(Exception):
    pass


class Tok:
    __slots__ = ("kind", "text", "start", "end", "nl_before", "line", "col")

    def __init__(self, kind, text, start, end, nl_before, line, col):
        self.kind, self.text, self.start, self.end, self.nl_before, self.line, self.col = kind, text, start, end, nl_before, line, col

    def __repr__(self):
        return "Tok(%s,%r)" % (self.kind, self.text)


def tokenize(src):
    """ECMAScript (ES2017 without templates) tokens of src with their
    positions.  The regex-vs-division decision uses the previous significant
    token; after `)` the keyword in front of the matching `(` (if / while /
    for / with heads are followed by a statement); after `}` whether the brace
    opened a block (statement follows) or an object literal / function
    expression (operator follows)."""
    toks = []
    i, n = 0, len(src)
    nl = False
    line, linestart = 1, 0
    parens = []  # per open '(' : keyword that owns it ('if', 'function-expr', ...) or None
    braces = []  # per open '{' : True when the closing brace ends an operand
    prev = None
    last_paren = [None]
    last_brace = [False]
    last_postfix = [False]
    pending_fn = [None]  # 'expr' / 'decl' between the `function` keyword and its parameter list

    def operand_position():
        """True when the next token starts an operand (so `/` starts a regex,
        `{` an object literal, `function` a function expression)."""
        if prev is None:
            return True
        if prev.kind == "word":
            return prev.text in _REGEX_AFTER_WORD
        if prev.kind in ("num", "str", "regex"):
            return False
        if prev.text == ")":
            return last_paren[0] in ("if", "while", "for", "with")
        if prev.text == "]":
            return False
        if prev.text == "}":
            return not last_brace[0]
        if prev.text in ("++", "--"):
            return not last_postfix[0]
        return True

    while i < n:
        c = src[i]
        if c in _LT:
            nl = True
            if c == "\r" and i + 1 < n and src[i + 1] == "\n":
                i += 1
            i += 1
            line += 1
            linestart = i
            continue
        if c in _WS:
            i += 1
            continue
        if c == "/" and i + 1 < n and src[i + 1] == "/":
            while i < n and src[i] not in _LT:
                i += 1
            continue
        if c == "/" and i + 1 < n and src[i + 1] == "*":
            j = src.find("*/", i + 2)
            if j < 0:
                raise TokenizeError("unterminated comment")
            k = i
            while k < j:
                ch = src[k]
                if ch in _LT:
                    nl = True
                    if ch == "\r" and src[k + 1] == "\n":
                        k += 1
                    line += 1
                    linestart = k + 1
                k += 1
            i = j + 2
            continue
        start = i
        col = i - linestart + 1
        tline = line
        if c in "\"'":
            j = i + 1
            while True:
                if j >= n or src[j] in "\n\r":
                    raise TokenizeError("unterminated string")
                if src[j] == "\\":
                    if src[j + 1:j + 3] == "\r\n":
                        j += 3
                        line += 1
                        linestart = j
                    else:
                        if j + 1 < n and src[j + 1] in _LT:
                            line += 1
                            linestart = j + 2
                        j += 2
                    continue
                if src[j] == c:
                    break
                j += 1
            kind, end = "str", j + 1
        elif c == "`":
            raise TokenizeError("template literal")
        elif c.isdigit() or (c == "." and i + 1 < n and src[i + 1].isdigit()):
            j = i
            if c == "0" and i + 1 < n and src[i + 1] in "xXoObB":
                j = i + 2
                while j < n and src[j].isalnum():
                    j += 1
            else:
                while j < n and src[j].isdigit():
                    j += 1
                if j < n and src[j] == ".":
                    j += 1
                    while j < n and src[j].isdigit():
                        j += 1
                if j < n and src[j] in "eE":
                    k = j + 1
                    if k < n and src[k] in "+-":
                        k += 1
                    if k < n and src[k].isdigit():
                        j = k
                        while j < n and src[j].isdigit():
                            j += 1
            if j < n and _idch(src[j]):
                raise TokenizeError("identifier directly after number")
            kind, end = "num", j
        elif _idch(c):
            j = i
            while j < n and _idch(src[j]):
                j += 1
            kind, end = "word", j
        elif c == "/" and operand_position():
            j = i + 1
            incls = False
            while True:
                if j >= n or src[j] in _LT:
                    raise TokenizeError("unterminated regex")
                ch = src[j]
                if ch == "\\":
                    j += 2
                    continue
                if ch == "[":
                    incls = True
                elif ch == "]":
                    incls = False
                elif ch == "/" and not incls:
                    break
                j += 1
            j += 1
            while j < n and _idch(src[j]):
                j += 1
            kind, end = "regex", j
        else:
            for p in _PUNCT:
                if src.startswith(p, i):
                    break
            else:
                raise TokenizeError("unexpected character %r" % c)
            kind, end = "punct", i + len(p)
        text = src[start:end]
        tok = Tok(kind, text, start, end, nl, tline, col)
        if kind == "word" and text == "function":
            pending_fn[0] = "expr" if operand_position() else "decl"
        elif kind == "punct":
            if text == "(":
                if pending_fn[0]:
                    parens.append("function-" + pending_fn[0])
                    pending_fn[0] = None
                else:
                    parens.append(prev.text if prev is not None and prev.kind == "word" else None)
            elif text == ")":
                last_paren[0] = parens.pop() if parens else None
            elif text == "{":
                if prev is not None and prev.text == ")" and last_paren[0] in ("function-expr", "function-decl"):
                    braces.append(last_paren[0] == "function-expr")
                elif prev is not None and prev.text == "=>":
                    braces.append(True)  # arrow body: the arrow function is an operand
                elif prev is not None and prev.text == ":" and braces and braces[-1]:
                    braces.append(True)  # property value inside an object literal
                elif prev is not None and prev.text in (":", ")"):
                    braces.append(False)  # label / case / statement head
                else:
                    braces.append(operand_position() and prev is not None and prev.text not in (";", "{", "}"))
            elif text == "}":
                last_brace[0] = braces.pop() if braces else False
            elif text in ("++", "--"):
                last_postfix[0] = prev is not None and not nl and not operand_position()
        toks.append(tok)
        prev = tok
        nl = False
        i = end
    return toks


RESTRICTED_AFTER = {"break", "continue", "return", "throw"}


def corpus_layout_constraints(toks):
    """(nonl, must_nl) gap sets for a corpus program tokenized by tokenize():
    keep a line terminator wherever the original had one (the program may rely
    on automatic semicolon insertion), and add none in a restricted position:
    after break/continue/return/throw, before or after ++/-- (conservative:
    prefix or postfix is not decided here), before =>."""
    nonl, must = set(), set()
    for i, t in enumerate(toks):
        if t.nl_before:
            must.add(i)
        if i > 0:
            p = toks[i - 1]
            if (p.kind == "word" and p.text in RESTRICTED_AFTER) or t.text in ("++", "--", "=>") or p.text in ("++", "--"):
                nonl.add(i)
    return nonl, must


# ----------------------------------------------------------------------------
# exhaustive enumeration of small operator trees

# operator specs: (name, nslots, builder(children) -> node, slot kinds)
#   slot kind 'e' any expression, 'r' reference (identifier or member), 'd' operand of delete,
#   'c' callee, 'n' constructor, 'o' object (these three admit any expression; they choose the leaf's name)


def _mk_ops():
    ops = []
    for op in BINOPS:
        ops.append(("bin" + op, {"in": "eo", "instanceof": "en"}.get(op, "ee"), (lambda op: lambda c: Bin(op, c[0], c[1]))(op)))
    for op in UNOPS:
        ops.append(("un" + op, "d" if op == "delete" else "e", (lambda op: lambda c: Un(op, c[0]))(op)))
    for op in ("++", "--"):
        ops.append(("pre" + op, "r", (lambda op: lambda c: Upd(op, c[0], True))(op)))
        ops.append(("post" + op, "r", (lambda op: lambda c: Upd(op, c[0], False))(op)))
    ops.append(("cond", "eee", lambda c: Cond(c[0], c[1], c[2])))
    for op in ASGOPS:
        ops.append(("asg" + op, "re", (lambda op: lambda c: Asg(op, c[0], c[1]))(op)))
    ops.append(("seq", "ee", lambda c: Seq([c[0], c[1]])))
    ops.append(("dot", "o", lambda c: Mem(c[0], "p")))
    ops.append(("idx", "oe", lambda c: Mem(c[0], c[1], True)))
    ops.append(("call", "ce", lambda c: Call(c[0], [c[1]])))
    ops.append(("call0", "c", lambda c: Call(c[0], [])))
    ops.append(("new", "ne", lambda c: New(c[0], [c[1]])))
    ops.append(("new()", "n", lambda c: New(c[0], [])))
    ops.append(("new0", "n", lambda c: New(c[0], [], noargs=True)))
    ops.append(("arrow", "e", lambda c: Arrow(["x"], c[0], True, bare=True)))
    ops.append(("arrow2", "e", lambda c: Arrow(["x", "y"], c[0], True)))
    ops.append(("arr", "e", lambda c: Arr([c[0]])))
    ops.append(("arr2", "ee", lambda c: Arr([c[0], c[1]])))
    ops.append(("obj", "e", lambda c: Obj([Prop(Id("k"), c[0])])))
    ops.append(("fnret", "e", lambda c: Fn(None, [], Block([Return(c[0])]))))
    return ops


OPS = _mk_ops()
OPS_BY_NAME = {o[0]: o for o in OPS}
# one representative per precedence class / grammar shape (triples in the quick tier)
REP_NAMES = [
    "bin||", "bin&&", "bin|", "bin^", "bin&", "bin==", "bin!==", "bin<", "binin", "bininstanceof", "bin<<", "bin>>>",
    "bin+", "bin-", "bin*", "bin/", "bin**", "un-", "un!", "untypeof", "undelete", "pre++", "post--", "cond", "asg=",
    "asg+=", "seq", "dot", "idx", "call", "new", "new0", "arrow", "arr", "obj",
]
LEAF_NAMES = ["a", "b", "c", "d", "e", "g", "h", "i"]


def _ref_ok(name):
    return name in ("dot", "idx")


def enum_shapes(n, ops):
    """All trees with exactly n operators from ops, as nested tuples
    (opname, child, child, ...) with None for a leaf.  Slot kind 'r' admits
    only a leaf or a member operator (the pruning of ill-typed targets)."""
    memo = {}

    def gen(k, kind):
        kind = "r" if kind == "r" else "e"  # the other kinds only choose the leaf name
        key = (k, kind)
        if key in memo:
            return memo[key]
        out = []
        if k == 0:
            out.append(None)
        else:
            for name, slots, _ in ops:
                if kind == "r" and not _ref_ok(name):
                    continue
                for dist in _distributions(k - 1, len(slots)):
                    choices = [gen(d, s) for d, s in zip(dist, slots)]
                    for combo in _product(choices):
                        out.append((name,) + combo)
        memo[key] = out
        return out

    return gen(n, "e")


def _distributions(total, parts):
    if parts == 1:
        yield (total,)
        return
    for first in range(total + 1):
        for rest in _distributions(total - first, parts - 1):
            yield (first,) + rest


def _product(lists):
    if not lists:
        yield ()
        return
    for x in lists[0]:
        for rest in _product(lists[1:]):
            yield (x,) + rest


def build_shape(shape):
    """Tree for a shape; leaves are a, b, c, ... in left-to-right order.  The
    operand of delete is never a bare identifier (early error in strict code):
    a leaf there becomes a member `a.p`."""
    counter = [0]

    def leaf():
        nm = LEAF_NAMES[counter[0] % len(LEAF_NAMES)]
        counter[0] += 1
        return Id(nm)

    def go(s, kind):
        if s is None:
            # leaves are typed by the role of their slot so that most trees evaluate without a TypeError:
            # callee f, constructor F, object o (member object, right operand of in), delete operand o.p
            if kind == "c":
                return Id("f")
            if kind == "n":
                return Id("F")
            if kind == "o":
                return Id("o")
            if kind == "d":
                return Mem(Id("o"), "p")
            return leaf()
        name, slots, build = OPS_BY_NAME[s[0]]
        return build([go(c, k) for c, k in zip(s[1:], slots)])

    return go(shape, "e")


def count_ops(t):
    """Number of operator nodes (non-leaf expression nodes) of a tree."""
    if isinstance(t, list):
        return sum(count_ops(x) for x in t)
    if not isinstance(t, dict):
        return 0
    c = 0
    if t["type"] in EXPR_TYPES and t["type"] not in LEAF_TYPES:
        c = 1
    if t["type"] == "MemberExpression" and not t["computed"]:
        return c + count_ops(t["object"])
    return c + sum(count_ops(v) for k, v in t.items() if not k.startswith("_"))


def depth(t):
    if isinstance(t, list):
        return max([depth(x) for x in t] or [0])
    if not isinstance(t, dict):
        return 0
    d = max([depth(v) for k, v in t.items() if not k.startswith("_")] or [0])
    return d + (1 if t["type"] in EXPR_TYPES and t["type"] not in LEAF_TYPES else 0)


def subexprs(t):
    """All expression sub-trees (for shrinking)."""
    out = []

    def go(n):
        if isinstance(n, list):
            for x in n:
                go(x)
        elif isinstance(n, dict):
            if n.get("type") in EXPR_TYPES:
                out.append(n)
            for k, v in n.items():
                if not k.startswith("_"):
                    go(v)

    go(t)
    return out


# ----------------------------------------------------------------------------
# literal spellings (shared by the generators and sub-campaign 4)


def spell_number(rnd):
    """(source text, kind).  Only forms of the ES NumericLiteral grammar
    without legacy octal, separators and BigInt."""
    r = rnd.random()
    if r < 0.22:
        d = str(rnd.choice((0, 1, 2, 7, 10, 255, 1000, rnd.randrange(10 ** 6), rnd.randrange(10 ** 15))))
        return d, "int"
    if r < 0.4:
        ip = str(rnd.randrange(1000))
        fp = "".join(rnd.choice("0123456789") for _ in range(rnd.choice((1, 2, 3, 8))))
        return ip + "." + fp, "frac"
    if r < 0.47:
        return "." + "".join(rnd.choice("0123456789") for _ in range(rnd.choice((1, 2, 5)))), "leading-dot"
    if r < 0.54:
        return str(rnd.randrange(1000)) + ".", "trailing-dot"
    if r < 0.72:
        m = rnd.choice((str(rnd.randrange(1, 100)), "%d.%d" % (rnd.randrange(10), rnd.randrange(1000)),
                        ".%d" % rnd.randrange(1, 100), "%d." % rnd.randrange(1, 10)))
        e = rnd.choice("eE") + rnd.choice(("", "+", "-")) + rnd.choice(("", "0", "00")) + str(rnd.choice((0, 1, 2, 5, 10, 21, 22, 100, 300, 308, 309, 323, 324, 400)))
        return m + e, "exp"
    if r < 0.8:
        h = "".join(rnd.choice("0123456789abcdefABCDEF") for _ in range(rnd.choice((1, 2, 4, 8, 13, 14, 16, 20))))
        return "0" + rnd.choice("xX") + h, "hex"
    if r < 0.86:
        return "0" + rnd.choice("oO") + "".join(rnd.choice("01234567") for _ in range(rnd.choice((1, 3, 11, 18, 22)))), "octal"
    if r < 0.92:
        return "0" + rnd.choice("bB") + "".join(rnd.choice("01") for _ in range(rnd.choice((1, 8, 32, 53, 54, 64)))), "binary"
    digs = rnd.choice("123456789") + "".join(rnd.choice("0123456789") for _ in range(rnd.choice((16, 17, 18, 20, 25, 40))))
    if rnd.random() < 0.5:
        k = rnd.randrange(1, len(digs))
        return digs[:k] + "." + digs[k:], "long-mantissa"
    return digs, "long-mantissa"


_STR_CHARS = (
    list("abcXYZ019 _-+*/=<>()[]{};:,.?!&|^~%#@`$") + ["'", '"', "\\", "\n", "\r", "\t", "\b", "\f", "\v", "\0", "\x7f",
    "\x01", "\x1f", "\u00a0", "é", "\u00ff", "\u0100", "\u03a9", "\u2028", "\u2029", "\u20ac", "\ufeff", "\uffff",
    "\U0001f600", "\U00010000", "\U0010ffff", "n", "t", "u", "x", "0", "8"]
)
_SIMPLE_ESC = {"\n": "n", "\t": "t", "\r": "r", "\b": "b", "\f": "f", "\v": "v"}
_NO_IDENTITY = set("nrtbfvxu0123456789\n\r\u2028\u2029")


def spell_char(rnd, ch, quote, nxt):
    """One spelling of character ch inside a literal quoted with `quote`;
    nxt = the next character of the value (for \\0)."""
    o = ord(ch)
    forms = []
    if ch != quote and ch != "\\" and ch not in "\n\r":
        forms += ["raw", "raw", "raw"]
    if ch in _SIMPLE_ESC or ch in "'\"\\":
        forms += ["simple", "simple"]
    if ch == "\0":
        forms.append("nul")
    if o <= 0xFF:
        forms.append("x")
    if o <= 0xFFFF:
        forms.append("u4")
    forms.append("u{}")
    if ch not in _NO_IDENTITY and ch != "\\" and not (0xD800 <= o <= 0xDFFF):
        forms.append("identity")
    f = rnd.choice(forms)
    if f == "nul" and nxt is not None and nxt.isdigit():
        f = "x"
    if f == "raw":
        return ch, f
    if f == "simple":
        return "\\" + _SIMPLE_ESC.get(ch, ch), f
    if f == "nul":
        return "\\0", f
    hx = (lambda s: s.upper()) if rnd.random() < 0.5 else (lambda s: s)
    if f == "x":
        return "\\x" + hx("%02x" % o), f
    if f == "u4":
        return "\\u" + hx("%04x" % o), f
    if f == "u{}":
        return "\\u{" + "0" * rnd.choice((0, 0, 1, 3)) + hx("%x" % o) + "}", f
    return "\\" + ch, f


_CONTINUATIONS = ["\\\n", "\\\r\n", "\\\r", "\\\u2028", "\\\u2029"]


def spell_string(rnd, value=None, continuations=0.15, maxlen=8):
    """(value, source text, set of spelling forms used)."""
    if value is None:
        value = "".join(rnd.choice(_STR_CHARS) for _ in range(rnd.randrange(maxlen + 1)))
    quote = rnd.choice("'\"")
    out = [quote]
    forms = set()
    for i, ch in enumerate(value):
        if continuations and rnd.random() < continuations:
            out.append(rnd.choice(_CONTINUATIONS))
            forms.add("continuation")
        s, f = spell_char(rnd, ch, quote, value[i + 1] if i + 1 < len(value) else None)
        # a raw digit after \0 would turn it into an octal escape
        if out[-1] == "\\0" and s[:1].isdigit():
            s, f = "\\x%02x" % ord(ch), "x"
        out.append(s)
        forms.add(f)
    if continuations and rnd.random() < continuations:
        out.append(rnd.choice(_CONTINUATIONS))
        forms.add("continuation")
    out.append(quote)
    return value, "".join(out), forms


# ----------------------------------------------------------------------------
# random expression trees

REGEX_POOL = [("a", ""), ("=", ""), ("=+", "g"), ("[/]", "g"), ("\\/", ""), ("a*", ""), ("(?:x)", "i"), ("[)]", ""),
              ("\\)", "m"), ("\"", ""), ("'", ""), ("[^\\]/]", ""), ("a|b", "gi"), ("\\d+", "y"), ("x{2,3}", ""), (" ", "")]
ID_POOL = ["a", "b", "c", "d", "o", "f", "F", "x", "y", "p", "q", "$", "_", "a1", "of_", "get", "set", "async",
           "undefined", "NaN", "Infinity", "arguments_", "é"]
PROP_POOL = ["p", "q", "length", "k", "if", "in", "new", "typeof", "default", "get", "set", "constructor", "x1", "$"]


class ExprGen:
    """Random expression trees over everything the engine's parser accepts."""

    def __init__(self, rnd, ids=None, exotic=True):
        self.rnd = rnd
        self.ids = ids or ID_POOL
        self.exotic = exotic  # function / arrow / object / regex leaves

    def ident(self):
        return Id(self.rnd.choice(self.ids))

    def number(self):
        from oracles import prims as P

        src, _ = spell_number(self.rnd)
        return Num(P.str_to_number(src), raw=src)

    def string(self):
        v, src, _ = spell_string(self.rnd, continuations=0.05, maxlen=5)
        return Str(v, raw=src)

    def leaf(self):
        r = self.rnd.random()
        if r < 0.5:
            return self.ident()
        if r < 0.68:
            return self.number()
        if r < 0.8:
            return self.string()
        if r < 0.84:
            return Bool(self.rnd.random() < 0.5)
        if r < 0.87:
            return Null()
        if r < 0.91:
            return This()
        if r < 0.95 and self.exotic:
            p, f = self.rnd.choice(REGEX_POOL)
            return Regex(p, f)
        return self.ident()

    def ref(self, d):
        r = self.rnd.random()
        if r < 0.5 or d <= 0:
            return self.ident()
        if r < 0.8:
            return Mem(self.expr(d - 1), self.rnd.choice(PROP_POOL))
        return Mem(self.expr(d - 1), self.expr(d - 1), True)

    def expr(self, d):
        rnd = self.rnd
        if d <= 0 or rnd.random() < 0.12:
            return self.leaf()
        r = rnd.random()
        e = self.expr
        if r < 0.30:
            return Bin(rnd.choice(BINOPS), e(d - 1), e(d - 1))
        if r < 0.40:
            op = rnd.choice(UNOPS)
            a = e(d - 1)
            if op == "delete" and a["type"] == "Identifier":
                a = Mem(a, rnd.choice(PROP_POOL))
            return Un(op, a)
        if r < 0.46:
            return Upd(rnd.choice(("++", "--")), self.ref(d - 1), rnd.random() < 0.5)
        if r < 0.53:
            return Cond(e(d - 1), e(d - 1), e(d - 1))
        if r < 0.60:
            return Asg(rnd.choice(ASGOPS), self.ref(d - 1), e(d - 1))
        if r < 0.64:
            return Seq([e(d - 1) for _ in range(rnd.choice((2, 2, 3)))])
        if r < 0.72:
            if rnd.random() < 0.6:
                return Mem(e(d - 1), rnd.choice(PROP_POOL))
            return Mem(e(d - 1), e(d - 1), True)
        if r < 0.79:
            return Call(e(d - 1), [e(d - 1) for _ in range(rnd.choice((0, 1, 1, 2)))])
        if r < 0.85:
            k = rnd.choice((0, 0, 1, 2))
            if k == 0 and rnd.random() < 0.5:
                return New(e(d - 1), [], noargs=True)
            return New(e(d - 1), [e(d - 1) for _ in range(k)])
        if r < 0.89:
            n = Arr([e(d - 1) for _ in range(rnd.choice((0, 1, 1, 2, 3)))])
            if rnd.random() < 0.15:
                n["_trailing"] = True
            return n
        if not self.exotic:
            return Bin(rnd.choice(BINOPS), e(d - 1), e(d - 1))
        if r < 0.93:
            return self.obj(d)
        if r < 0.965:
            ps = rnd.choice(([], ["x"], ["x"], ["x", "y"]))
            if rnd.random() < 0.7:
                return Arrow(ps, e(d - 1), True, bare=(len(ps) == 1 and rnd.random() < 0.6))
            return Arrow(ps, Block(self.body(d - 1)), False, bare=(len(ps) == 1 and rnd.random() < 0.6))
        return Fn(rnd.choice((None, None, "fn")), rnd.choice(([], ["x"], ["x", "y"])), Block(self.body(d - 1)))

    def body(self, d):
        rnd = self.rnd
        out = []
        for _ in range(rnd.choice((0, 1, 1, 2))):
            r = rnd.random()
            if r < 0.4:
                out.append(ExprStmt(self.expr(d)))
            elif r < 0.6:
                out.append(Var([("v", self.expr(d))]))
            elif r < 0.8:
                out.append(If(self.expr(d), Return(self.expr(d)), None))
            else:
                out.append(Return(self.expr(d) if rnd.random() < 0.8 else None))
        return out

    def obj(self, d):
        rnd = self.rnd
        props = []
        for _ in range(rnd.choice((0, 1, 1, 2, 3))):
            r = rnd.random()
            if r < 0.45:
                props.append(Prop(Id(rnd.choice([p for p in PROP_POOL if p not in ("get", "set")])), self.expr(d - 1)))
            elif r < 0.55:
                v, src, _ = spell_string(rnd, continuations=0, maxlen=4)
                props.append(Prop(Str(v, raw=src), self.expr(d - 1)))
            elif r < 0.63:
                k = rnd.choice((0, 1, 7, 42))
                props.append(Prop(Num(k), self.expr(d - 1)))
            elif r < 0.72:
                props.append(Prop(self.expr(d - 1), self.expr(d - 1), computed=True))
            elif r < 0.80:
                props.append(Prop(Id(rnd.choice(("g1", "p", "if"))), Fn(None, [], Block([Return(self.expr(d - 1))])), kind="get"))
            elif r < 0.86:
                props.append(Prop(Id(rnd.choice(("s1", "p", "for"))), Fn(None, ["v"], Block(self.body(d - 1))), kind="set"))
            elif r < 0.93:
                p = Prop(Id(rnd.choice(("m", "run", "do"))), Fn(None, ["x"], Block(self.body(d - 1))))
                p["_method"] = True
                props.append(p)
            else:
                nm = rnd.choice(("a", "b", "x"))
                props.append(Prop(Id(nm), Id(nm), shorthand=True))
        n = Obj(props)
        if rnd.random() < 0.15:
            n["_trailing"] = True
        return n


# ----------------------------------------------------------------------------
# random terminating programs (layout / round trip / rejection campaigns)


class ProgGen:
    """Random programs that terminate (every loop has a fuel counter with a
    literal bound) and end in an expression statement showing the state.
    Functions are declared before use, `return` only inside functions,
    `break`/`continue` only where ECMAScript allows them, labels only on loops
    and blocks, `continue label` only for labels of loops."""

    VARS = ["a", "b", "c", "d"]

    def __init__(self, rnd, size=12):
        self.rnd = rnd
        self.size = size
        self.fuel = 0
        self.labels = 0
        self.fns = []

    # expressions: numbers and strings in variables, an object o, an array arr, declared functions
    def val(self, d=2):
        rnd = self.rnd
        r = rnd.random()
        if d <= 0 or r < 0.3:
            r2 = rnd.random()
            if r2 < 0.5:
                return Id(rnd.choice(self.VARS))
            if r2 < 0.75:
                return Num(rnd.choice((0, 1, 2, 3, 5, 10)))
            if r2 < 0.82:
                from oracles import prims as P

                src, _ = spell_number(rnd)
                return Num(P.str_to_number(src), raw=src)
            if r2 < 0.9:
                v, src, _ = spell_string(rnd, continuations=0.05, maxlen=4)
                return Str(v, raw=src)
            if r2 < 0.94:
                return Mem(Id("o"), rnd.choice(("p", "q")))
            if r2 < 0.97:
                return Mem(Id("arr"), Num(rnd.choice((0, 1, 2))), True)
            return rnd.choice((Bool(True), Bool(False), Null()))
        v = self.val
        if r < 0.55:
            op = rnd.choice(("+", "-", "*", "%", "<", "<=", ">", "===", "!==", "==", "&", "|", "^", "<<", ">>", ">>>", "&&",
                             "||", "/", "**", "in", "instanceof"))
            if op == "in":
                return Bin("in", Str(rnd.choice(("p", "z"))), Id("o"))
            if op == "instanceof":
                return Bin("instanceof", Id("o"), Id("Object"))
            if op == "**":
                return Bin("**", Num(rnd.choice((2, 3))), Bin("%", v(d - 1), Num(4)))
            return Bin(op, v(d - 1), v(d - 1))
        if r < 0.63:
            return Un(rnd.choice(("-", "+", "!", "~", "typeof", "void")), v(d - 1))
        if r < 0.7:
            return Cond(v(d - 1), v(d - 1), v(d - 1))
        if r < 0.78:
            return Asg(rnd.choice(("=", "+=", "-=", "*=", "|=")), self.target(), v(d - 1))
        if r < 0.84:
            return Upd(rnd.choice(("++", "--")), self.target(), rnd.random() < 0.5)
        if r < 0.9 and self.fns:
            name, arity = rnd.choice(self.fns)
            return Call(Id(name), [v(d - 1) for _ in range(arity)])
        if r < 0.93:
            return Call(Mem(Id("log"), "push"), [v(d - 1)])
        if r < 0.96:
            return Seq([v(d - 1), v(d - 1)])
        if r < 0.975:
            return Arr([v(d - 1), v(d - 1)])
        if r < 0.985:
            pat, fl = rnd.choice(REGEX_POOL)
            return Call(Mem(Regex(pat, fl), "test"), [Id("c")])
        return Call(Arrow(["x"], Bin("+", Id("x"), v(d - 1)), True, bare=rnd.random() < 0.5), [v(d - 1)])

    def target(self):
        rnd = self.rnd
        r = rnd.random()
        if r < 0.7:
            return Id(rnd.choice(self.VARS))
        if r < 0.85:
            return Mem(Id("o"), rnd.choice(("p", "q")))
        return Mem(Id("arr"), Num(rnd.choice((0, 1))), True)

    def stmts(self, n, d, ctx):
        return [self.stmt(d, ctx) for _ in range(n)]

    def block(self, d, ctx, lo=1, hi=3):
        return Block(self.stmts(self.rnd.randrange(lo, hi + 1), d, ctx))

    def body(self, d, ctx):
        """loop / if body: a block or a single statement"""
        if self.rnd.random() < 0.6:
            return self.block(d, ctx)
        s = self.stmt(d, ctx)
        return s

    def stmt(self, d, ctx):
        """ctx: dict(loop=bool, switch=bool, fn=bool, labels=[(name, is_loop)])"""
        rnd = self.rnd
        r = rnd.random()
        if d <= 0 or r < 0.34:
            r2 = rnd.random()
            if r2 < 0.55:
                return ExprStmt(self.val(2))
            if r2 < 0.7:
                return ExprStmt(Call(Mem(Id("log"), "push"), [self.val(2)]))
            if r2 < 0.78:
                return Var([(rnd.choice(self.VARS), self.val(2))] + ([(rnd.choice(self.VARS), None)] if rnd.random() < 0.3 else []))
            if r2 < 0.82:
                return Empty()
            if r2 < 0.87 and ctx["loop"]:
                lab = [l for l, _ in ctx["labels"]]
                if lab and rnd.random() < 0.4:
                    return If(self.val(1), Break(rnd.choice(lab)), None)
                return If(self.val(1), Break(), None)
            if r2 < 0.91 and ctx["loop"]:
                lab = [l for l, isloop in ctx["labels"] if isloop]
                if lab and rnd.random() < 0.4:
                    return If(self.val(1), Continue(rnd.choice(lab)), None)
                return If(self.val(1), Continue(), None)
            if r2 < 0.95 and ctx["fn"]:
                return If(self.val(1), Return(self.val(2) if rnd.random() < 0.8 else None), None)
            if r2 < 0.97:
                return Try(Block([If(self.val(1), Throw(self.val(1)), None)]), "e", Block([ExprStmt(Call(Mem(Id("log"), "push"), [Id("e")]))]))
            return ExprStmt(self.val(3))
        sub = dict(ctx)
        if r < 0.46:
            c = self.body(d - 1, ctx)
            if rnd.random() < 0.5:
                a = self.body(d - 1, ctx)
                if _dangling_if(c):
                    c = Block([c])
                return If(self.val(2), c, a)
            return If(self.val(2), c, None)
        loopctx = dict(ctx, loop=True, switch=False)
        if r < 0.53:
            f = self.newfuel()
            return self.maybe_label(lambda lc: While(Bin("&&", Bin("<", Upd("++", Id(f), False), Num(rnd.choice((1, 2, 3)))), self.val(1)),
                                                       self.body(d - 1, lc)), loopctx, [f])
        if r < 0.58:
            f = self.newfuel()
            return self.maybe_label(lambda lc: DoWhile(self.body(d - 1, lc), Bin("<", Upd("++", Id(f), False), Num(rnd.choice((0, 1, 2))))), loopctx, [f])
        if r < 0.68:
            f = self.newfuel()
            k = rnd.random()
            if k < 0.5:
                init = Var([(f, Num(0))] + ([("t", self.val(1))] if rnd.random() < 0.3 else []))
            elif k < 0.8:
                init = Asg("=", Id(f), Num(0))
            else:
                init = None
            test = Bin("<", Id(f), Num(rnd.choice((1, 2, 3)))) if rnd.random() < 0.85 else None
            upd = Upd("++", Id(f), rnd.random() < 0.5)
            if rnd.random() < 0.2:
                upd = Seq([upd, self.val(1)])

            def mk(lc):
                b = self.body(d - 1, lc)
                if test is None:
                    b = Block([If(Bin(">=", Id(f), Num(2)), Break(), None), b])
                return For(init, test, upd, b)

            return self.maybe_label(mk, loopctx, [f])
        if r < 0.74:
            v = rnd.choice(("k", "k2"))
            left = Var([(v, None)]) if rnd.random() < 0.5 else rnd.choice((Id(v), Mem(Id("o"), "q")))
            right = rnd.choice((Obj([Prop(Id("u"), Num(1)), Prop(Id("w"), Num(2))]), Id("o")))
            return self.maybe_label(lambda lc: ForIn(left, right, self.body(d - 1, lc)), loopctx, [])
        if r < 0.79:
            v = rnd.choice(("k", "k2"))
            left = Var([(v, None)]) if rnd.random() < 0.5 else Id(v)
            return self.maybe_label(lambda lc: ForOf(left, Arr([self.val(1), self.val(1)]), self.body(d - 1, lc)), loopctx, [])
        if r < 0.86:
            swctx = dict(ctx, switch=True)
            cases = []
            seen_default = False
            for i in range(rnd.choice((1, 2, 3))):
                body = self.stmts(rnd.choice((0, 1, 2)), d - 1, swctx)
                if rnd.random() < 0.6:
                    body.append(Break())
                if not seen_default and rnd.random() < 0.3:
                    cases.append((None, body))
                    seen_default = True
                else:
                    cases.append((Num(i), body))
            return Switch(Bin("%", self.val(1), Num(3)), cases)
        if r < 0.92:
            blk = self.block(d - 1, ctx)
            h = self.block(d - 1, ctx, 0, 2) if rnd.random() < 0.8 else None
            f = self.block(d - 1, ctx, 0, 2) if (h is None or rnd.random() < 0.4) else None
            return Try(blk, "e" if h is not None else None, h, f)
        if r < 0.96:
            if rnd.random() < 0.5:
                # bare sibling blocks inside one block: { {..} {..} {} }
                return Block([self.block(d - 1, ctx, 0, 2) for _ in range(rnd.choice((2, 3)))])
            return self.block(d - 1, ctx)
        lab = self.newlabel()
        lc = dict(ctx, labels=ctx["labels"] + [(lab, False)])
        inner = Block(self.stmts(rnd.choice((1, 2)), d - 1, lc) + [If(self.val(1), Break(lab), None)])
        return Labeled(lab, inner)

    def maybe_label(self, mk, loopctx, fuels):
        if self.rnd.random() < 0.25:
            lab = self.newlabel()
            lc = dict(loopctx, labels=loopctx["labels"] + [(lab, True)])
            return Labeled(lab, mk(lc))
        return mk(loopctx)

    def newfuel(self):
        self.fuel += 1
        return "n%d" % self.fuel

    def newlabel(self):
        self.labels += 1
        return "L%d" % self.labels

    def program(self):
        rnd = self.rnd
        body = []
        nfn = rnd.choice((0, 1, 1, 2))
        fn_stmts = []
        for i in range(nfn):
            name = "f%d" % i
            arity = rnd.choice((0, 1, 2))
            params = ["x", "y"][:arity]
            save = self.VARS
            self.VARS = save + params
            ctx = dict(loop=False, switch=False, fn=True, labels=[])
            b = self.stmts(rnd.choice((1, 2, 3)), 2, ctx) + [Return(self.val(2))]
            self.VARS = save
            if rnd.random() < 0.6:
                fn_stmts.append(FnDecl(name, params, Block(b)))
            else:
                fn_stmts.append(Var([(name, Fn(None, params, Block(b)))]))
            self.fns.append((name, arity))
        ctx = dict(loop=False, switch=False, fn=False, labels=[])
        main = self.stmts(max(1, self.size - 2 * nfn), 3, ctx)
        decl = Var([("a", Num(1)), ("b", Num(2)), ("c", Str("s")), ("d", Num(0.5)), ("k", None), ("k2", None),
                    ("o", Obj([Prop(Id("p"), Num(4)), Prop(Id("q"), Num(5))])),
                    ("arr", Arr([Num(7), Num(8), Num(9)])), ("log", Arr([]))]
                   + [("n%d" % i, Num(0)) for i in range(1, self.fuel + 1)])
        final = ExprStmt(Arr([Id("a"), Id("b"), Id("c"), Id("d"), Mem(Id("o"), "p"), Mem(Id("o"), "q"),
                              Call(Mem(Id("arr"), "join"), []), Call(Mem(Id("log"), "join"), [])]))
        return Prog([decl] + fn_stmts + main + [final])


def _dangling_if(s):
    """True when statement s, printed bare, would capture a following `else`."""
    t = s["type"]
    if t == "IfStatement":
        return s["alternate"] is None or _dangling_if(s["alternate"])
    if t in ("WhileStatement", "ForStatement", "ForInStatement", "ForOfStatement", "LabeledStatement"):
        return _dangling_if(s["body"])
    return False
