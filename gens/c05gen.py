"""Generators of C05 programs over the IR of gens/progs.py.

  skeletons()        exhaustive: inner construct x exit x enclosing construct x
                     expression context of the enclosing call x pending siblings
  switch_product()   default first/middle/last/absent x fall-through x discriminant x context
  closure_matrix()   capture source x creation site x closure kind x mutation side
  completion_cases() ES completion value of loops / try / switch / blocks as last statement
  random_programs()  seeded random programs (construction only, no rejection)

Every program is a dict {"body", "tags", "sub", "id"}; it logs through the host
function log(tag, value) at statement granularity and terminates by
construction (literal loop bounds, fuel counters, decreasing recursion).
"""
import random

from .progs import (  # noqa: F401
    EMPTY, NULL, THIS, UNDEF, arr, arrow, assign, b_, bin_, block, brk, call, cond, cont, dot, dowhile, expr, fdecl, fn,
    for_, forin, forof, id_, idx, if_, init, label, log, logic, mcall, new, num, obj, ret, s_, seq, switch, tags_of,
    throw, try_, un, upd, var, while_,
)

KINDS = ["while", "dowhile", "for", "forin", "forof", "switch", "lblock"]
EXITS = ["fall", "break", "continue", "breakL", "continueL", "return", "throw"]
ENCL = ["none", "if", "while", "dowhile", "for", "forin", "forof", "switch", "try", "trycatch", "catch", "finally", "finallyx", "lblock", "bblocks"]
CTXS = ["stmt", "plus-left", "plus-right", "arr", "obj", "arg", "arg-after", "cond", "map"]
LOOPS = ("while", "dowhile", "for", "forin", "forof")


def prog(sub, pid, body, tags):
    return {"sub": sub, "id": pid, "body": body, "tags": sorted(set(tags))}


# =========================================================================== skeletons
def _exit_stmts(X, K, E):
    """Statements performing exit X from inside K (itself inside E), or None
    when the combination is not a valid program."""
    if X == "fall":
        return [log("nx", num(0))], False, False
    if X == "break":
        if K == "lblock":
            return [brk("K0")], True, False
        return [brk()], False, False
    if X == "continue":
        if K in LOOPS or E in LOOPS:
            return [cont()], False, False
        return None
    if X == "breakL":
        if E != "none":
            return [brk("L0")], False, True
        if K != "lblock":
            return [brk("K0")], True, False
        return None
    if X == "continueL":
        if E in LOOPS:
            return [cont("L0")], False, True
        if E == "none" and K in LOOPS:
            return [cont("K0")], True, False
        return None
    if X == "return":
        return [ret(num(42))], False, False
    if X == "throw":
        return [throw(s_("T"))], False, False
    raise KeyError(X)


def _build_inner(K, xs, klabel):
    """Inner construct K running three steps; the exit fires in the second."""
    def hit(c):
        return if_(c, block(log("x", num(1)), *xs))

    i = id_("i")
    if K == "while":
        st = while_(bin_("<", i, num(3)), block(expr(upd("++", i)), log("kt", i), hit(bin_("===", i, num(2))), log("kb", i)))
        pre = [var(("i", num(0)))]
    elif K == "dowhile":
        st = dowhile(block(expr(upd("++", i)), log("kt", i), hit(bin_("===", i, num(2))), log("kb", i)), bin_("<", i, num(3)))
        pre = [var(("i", num(0)))]
    elif K == "for":
        st = for_(var(("i", num(0))), bin_("<", i, num(3)), upd("++", i), block(log("kt", i), hit(bin_("===", i, num(1))), log("kb", i)))
        pre = []
    elif K == "forin":
        st = forin(("vardecl", "i"), obj(init("p", num(1)), init("q", num(2)), init("r", num(3))),
                   block(log("kt", i), hit(bin_("===", i, s_("q"))), log("kb", i)))
        pre = []
    elif K == "forof":
        st = forof(("vardecl", "i"), arr(num(10), num(20), num(30)), block(log("kt", i), hit(bin_("===", i, num(20))), log("kb", i)))
        pre = []
    elif K == "switch":
        st = switch(id_("a"), [
            (num(0), [log("s0", num(0))]),
            (num(1), [log("s1", num(1)), hit(bin_("===", id_("a"), num(1))), log("s1b", num(1))]),
            (num(2), [log("s2", num(2)), brk()]),
            (None, [log("sd", num(9))]),
        ])
        pre = [var(("i", num(-1)))]
    elif K == "lblock":
        st = block(log("kt", num(0)), hit(bin_("===", id_("a"), num(1))), log("kb", num(0)))
        pre = [var(("i", num(-2)))]
        klabel = True
    else:
        raise KeyError(K)
    if klabel:
        st = label("K0", st)
    return pre + [st, log("ak", i)]


def _wrap_encl(E, B, llabel, sfx="", lname="L0"):
    def L(st):
        return label(lname, st) if llabel else st

    jn, exn = "j" + sfx, "ex" + sfx
    et, eb, ef = "et" + sfx, "eb" + sfx, "ef" + sfx
    j = id_(jn)
    if E == "none":
        return B
    if E == "if":
        return [L(if_(bin_(">", id_("a"), num(0)), block(log(et, num(0)), *B, log(eb, num(0))), block(log("ee" + sfx, num(0)))))]
    if E == "while":
        return [var((jn, num(0))), L(while_(bin_("<", j, num(2)), block(expr(upd("++", j)), log(et, j), *B, log(eb, j))))]
    if E == "dowhile":
        return [var((jn, num(0))), L(dowhile(block(expr(upd("++", j)), log(et, j), *B, log(eb, j)), bin_("<", j, num(2))))]
    if E == "for":
        return [L(for_(var((jn, num(0))), bin_("<", j, num(2)), upd("++", j), block(log(et, j), *B, log(eb, j))))]
    if E == "forin":
        return [L(forin(("vardecl", jn), obj(init("m", num(1)), init("n", num(2))), block(log(et, j), *B, log(eb, j))))]
    if E == "forof":
        return [L(forof(("vardecl", jn), arr(num(7), num(8)), block(log(et, j), *B, log(eb, j))))]
    if E == "switch":
        return [L(switch(id_("a"), [(num(1), [log(et, num(0))] + B + [log(eb, num(0)), brk()]), (None, [log("ed" + sfx, num(0))])]))]
    if E == "try":
        return [L(try_([log(et, num(0))] + B + [log(eb, num(0))], None, [log(ef, num(0))]))]
    if E == "trycatch":
        return [L(try_([log(et, num(0))] + B + [log(eb, num(0))], (exn, [log("ec" + sfx, id_(exn))]), [log(ef, num(0))]))]
    if E == "catch":
        return [L(try_([throw(s_("c"))], (exn, [log(et, id_(exn))] + B + [log(eb, num(0))]), None))]
    if E == "finally":
        return [L(try_([log(et, num(0))], None, [log(ef, num(0))] + B + [log(eb, num(0))]))]
    if E == "finallyx":
        # the finally block is entered by an exception; an exit from it discards the exception
        return [L(try_([log(et, num(0)), throw(s_("fx" + sfx))], None, [log(ef, num(0))] + B + [log(eb, num(0))]))]
    if E == "lblock":
        return [L(block(log(et, num(0)), *B, log(eb, num(0))))]
    if E == "bblocks":
        # bare sibling blocks inside one block: { {..} {B} {..} }
        return [L(block(block(log(et, num(0))), block(*B), block(log(eb, num(0)), block(), block(log(ef, num(1))))))]
    raise KeyError(E)


def _context(C, P, style):
    """Expression holding the call f(k) in context C with P pending siblings."""
    c = call(id_("f"), id_("k"))
    numeric = True
    if C == "stmt":
        return None
    if C == "plus-left":
        e = bin_("+", c, num(100))
    elif C == "plus-right":
        e = bin_("+", num(100), c)
    elif C == "cond":
        e = cond(c, num(11), num(22))
    elif C == "arg":
        e = call(id_("g"), num(5), c, num(6))
    elif C == "arg-after":
        e = call(id_("g"), call(id_("s"), num(5)), c, call(id_("s"), num(6)))
    elif C == "arr":
        e = arr(num(5), c, num(6))
        numeric = False
    elif C == "obj":
        e = obj(init("a", num(5)), init("b", c), init("c", num(6)))
        numeric = False
    elif C == "map":
        e = mcall(arr(id_("k"), id_("k")), "map", fn(None, ["x"], [ret(call(id_("f"), id_("x")))]))
        numeric = False
    else:
        raise KeyError(C)
    pend = [call(id_("s"), num(1000)), call(id_("s"), num(2000))][:P]
    if not pend:
        return e
    if numeric and style == 0:
        for p in reversed(pend):
            e = bin_("+", p, e)
        return e
    return arr(*(pend + [e]))


def skeleton(K, X, E, C, P):
    ex = _exit_stmts(X, K, E)
    if ex is None:
        return None
    if C == "stmt" and P:
        return None
    xs, klabel, llabel = ex
    B = _build_inner(K, xs, klabel)
    fbody = [log("f", id_("a"))] + _wrap_encl(E, B, llabel) + [log("fe", id_("a")), ret(num(7))]
    style = (KINDS.index(K) + ENCL.index(E)) % 2
    e = _context(C, P, style)
    inner = [expr(call(id_("f"), id_("k")))] if e is None else [expr(assign(id_("r"), e))]
    body = [
        fdecl("s", ["x"], [log("s", id_("x")), ret(id_("x"))]),
        fdecl("g", ["x", "y", "z"], [log("gx", id_("x")), log("gy", id_("y")), log("gz", id_("z")),
                                     ret(bin_("+", bin_("+", id_("x"), id_("y")), id_("z")))]),
        fdecl("f", ["a"], fbody),
        fdecl("caller", ["k"], [
            var("r"),
            try_(inner, ("e", [log("caught", id_("e")), expr(assign(id_("r"), num(-1)))]), None),
            log("r", id_("r")),
            ret(id_("r")),
        ]),
        log("c1", call(id_("caller"), num(1))),
        log("c2", call(id_("caller"), num(1))),
        expr(call(id_("caller"), num(1))),
    ]
    tags = ["K:" + K, "X:" + X, "E:" + E, "C:" + C, "P:%d" % P, "%s-x-%s" % (X, K), "%s-in-%s" % (K, E)]
    if X != "fall":
        tags.append("abrupt")
    return prog("skel", "skel|%s|%s|%s|%s|%d" % (K, X, E, C, P), body, tags)


def skeletons():
    for K in KINDS:
        for X in EXITS:
            for E in ENCL:
                for C in CTXS:
                    for P in (0, 1, 2):
                        p = skeleton(K, X, E, C, P)
                        if p is not None:
                            yield p


def skeleton2(K, X, E1, E2):
    """Exit crossing two enclosing constructs: K in E1 in E2 (label L0 on E2)."""
    if X == "breakL":
        xs = [brk("L0")]
    elif X == "continueL":
        if E2 not in LOOPS:
            return None
        xs = [cont("L0")]
    elif X == "return":
        xs = [ret(num(42))]
    elif X == "throw":
        xs = [throw(s_("T"))]
    elif X == "break1":
        # leaves E1 only (label L1 on E1): the outer construct goes on
        xs = [brk("L1")]
    else:
        raise KeyError(X)
    B = _build_inner(K, xs, False)
    inner = _wrap_encl(E1, B, X == "break1", "", "L1")
    outer = _wrap_encl(E2, inner, X in ("breakL", "continueL"), "2", "L0")
    fbody = [log("f", id_("a"))] + outer + [log("fe", id_("a")), ret(num(7))]
    body = [
        fdecl("f", ["a"], fbody),
        fdecl("caller", ["k"], [
            var("r"),
            try_([expr(assign(id_("r"), arr(num(5), call(id_("f"), id_("k")), num(6))))], ("e", [log("caught", id_("e")), expr(assign(id_("r"), num(-1)))]), None),
            log("r", id_("r")),
            ret(id_("r")),
        ]),
        log("c1", call(id_("caller"), num(1))),
        expr(call(id_("caller"), num(1))),
    ]
    tags = ["K:" + K, "X:" + X, "E:" + E1, "E2:" + E2, "abrupt", "%s-x-%s" % (X, K), "%s-in-%s" % (K, E1), "%s-in-%s" % (E1, E2), "cross2"]
    return prog("skel2", "skel2|%s|%s|%s|%s" % (K, X, E1, E2), body, tags)


def skeletons2():
    for K in KINDS:
        for X in ("breakL", "continueL", "return", "throw", "break1"):
            for E1 in ENCL[1:]:
                for E2 in ENCL[1:]:
                    p = skeleton2(K, X, E1, E2)
                    if p is not None:
                        yield p


def skeleton_head(K, X, E, fkind):
    """The construct is the very first code of its function body (bytecode offset 0):
    no leading log, and the leading `var` counters become parameters."""
    ex = _exit_stmts(X, K, E)
    if ex is None:
        return None
    xs, klabel, llabel = ex
    B = _build_inner(K, xs, klabel)
    stmts = _wrap_encl(E, B, llabel)
    params, args = ["a"], [id_("a")]
    while stmts and stmts[0][0] == "var" and all(d[1] is not None and d[1][0] == "num" for d in stmts[0][1]):
        for name, e in stmts[0][1]:
            params.append(name)
            args.append(e)
        stmts = stmts[1:]
    fbody = stmts + [log("fe", id_("a")), ret(num(7))]
    if fkind == "fdecl":
        f0 = fdecl("f0", params, fbody)
    elif fkind == "arrow":
        f0 = var(("f0", arrow(params, fbody)))
    elif fkind == "fexpr":
        f0 = var(("f0", fn(None, params, fbody)))
    else:
        raise KeyError(fkind)
    body = [
        f0,
        fdecl("f", ["a"], [ret(call(id_("f0"), *args))]),
        fdecl("caller", ["k"], [
            var("r"),
            try_([expr(assign(id_("r"), arr(num(5), call(id_("f"), id_("k")), num(6))))], ("e", [log("caught", id_("e")), expr(assign(id_("r"), num(-1)))]), None),
            log("r", id_("r")),
            ret(id_("r")),
        ]),
        log("c1", call(id_("caller"), num(1))),
        expr(call(id_("caller"), num(1))),
    ]
    tags = ["K:" + K, "X:" + X, "E:" + E, "head", "head-" + fkind, "%s-x-%s" % (X, K), "%s-in-%s" % (K, E)]
    if X != "fall":
        tags.append("abrupt")
    return prog("skelhead", "skelhead|%s|%s|%s|%s" % (K, X, E, fkind), body, tags)


def skeletons_head():
    for K in KINDS:
        for X in EXITS:
            for E in ENCL:
                for fkind in ("fdecl", "arrow", "fexpr"):
                    p = skeleton_head(K, X, E, fkind)
                    if p is not None:
                        yield p


# ====================================================================== switch product
def switch_product():
    ds = [("1", num(1)), ("2", num(2)), ("3", num(3)), ("9", num(9)), ("s1", s_("1"))]
    for dpos in ("first", "middle", "last", "absent"):
        nclause = 3 if dpos == "absent" else 4
        for bits in range(1 << nclause):
            for dname, dval in ds:
                for ctx in ("top", "fn", "loop", "tests"):
                    yield _switch_case(dpos, bits, dname, dval, ctx)


def _switch_case(dpos, bits, dname, dval, ctx):
    clauses = [("c1", num(1)), ("c2", num(2)), ("c3", num(3))]
    if dpos == "first":
        clauses.insert(0, ("d", None))
    elif dpos == "middle":
        clauses.insert(1, ("d", None))
    elif dpos == "last":
        clauses.append(("d", None))
    cases = []
    for i, (tag, test) in enumerate(clauses):
        body = [log(tag, num(i))]
        if bits >> i & 1:
            if ctx == "fn":
                body.append(ret(num(10 + i)))
            elif ctx == "loop":
                body.append(cont() if i % 2 else brk())
            else:
                body.append(brk())
        if ctx == "tests" and test is not None:
            test = call(id_("s"), test)
        cases.append((test, body))
    sw = switch(id_("d"), cases)
    if ctx in ("top", "tests"):
        body = [fdecl("s", ["x"], [log("s", id_("x")), ret(id_("x"))]), var(("d", dval)), sw, log("after", id_("d")), expr(id_("d"))]
    elif ctx == "fn":
        body = [fdecl("sw", ["d"], [sw, log("end", id_("d")), ret(num(0))]), log("r", call(id_("sw"), dval)), expr(call(id_("sw"), dval))]
    else:
        body = [var(("d", dval)), for_(var(("t", num(0))), bin_("<", id_("t"), num(2)), upd("++", id_("t")), block(sw, log("lb", id_("t")))),
                expr(id_("t"))]
    tags = ["switch", "default-" + dpos, "ctx-" + ctx, "d-" + dname]
    if bits != (1 << len(clauses)) - 1:
        tags.append("fall-through")
    if dpos in ("first", "middle"):
        tags.append("switch-default-not-last")
    return prog("switch", "switch|%s|%d|%s|%s" % (dpos, bits, dname, ctx), body, tags)


# ====================================================================== closure matrix
def _closure_pair(kind, get_body_expr, inc_stmts, inc_ret):
    """(GET, INC) function values of the requested kind, or declarations."""
    if kind == "arrow":
        return arrow([], get_body_expr), arrow([], list(inc_stmts) + [ret(inc_ret)])
    return fn(None, [], [ret(get_body_expr)]), fn(None, [], list(inc_stmts) + [ret(inc_ret)])


def _site(T, kind, get_e, inc_ss, inc_r):
    """Statements creating the closures at site T and pushing them on fs."""
    if kind == "fdecl":
        decls = [fdecl("get", [], [ret(get_e)]), fdecl("inc", [], list(inc_ss) + [ret(inc_r)])]
        push = [expr(mcall(id_("fs"), "push", id_("get"))), expr(mcall(id_("fs"), "push", id_("inc")))]
        if T == "straight":
            return push + decls  # declarations after their use: hoisted
        if T == "nested":
            return [var(("inner", fn(None, [], decls + push))), expr(call(id_("inner")))]
        return None
    G, I = _closure_pair(kind, get_e, inc_ss, inc_r)
    push = [expr(mcall(id_("fs"), "push", G)), expr(mcall(id_("fs"), "push", I))]
    if T == "straight":
        return push
    if T == "loop":
        return [for_(var(("t", num(0))), bin_("<", id_("t"), num(2)), upd("++", id_("t")), block(*push))]
    if T == "callback":
        return [expr(mcall(arr(num(0), num(1)), "forEach", fn(None, ["t"], push)))]
    if T == "nested":
        return [var(("inner", fn(None, [], push))), expr(call(id_("inner")))]
    raise KeyError(T)


_G = idx(id_("fs"), num(0))
_I = idx(id_("fs"), bin_("-", dot(id_("fs"), "length"), num(1)))


def _inside_mutations(M, v_expr, mut_stmt):
    out = []
    if M in ("creator", "both"):
        out += [mut_stmt, log("mk-v", v_expr)]
    if M in ("closure", "both"):
        out += [log("mk-inc", call(_I)), log("mk-get", call(_G))]
    if M in ("creator", "both"):
        out += [log("mk-v2", v_expr)]
    return out


def _consumers():
    a0 = idx(id_("a"), num(0))
    a1 = idx(id_("a"), bin_("-", dot(id_("a"), "length"), num(1)))
    b0 = idx(id_("b"), num(0))
    b1 = idx(id_("b"), bin_("-", dot(id_("b"), "length"), num(1)))
    return [
        var(("a", call(id_("mk"), num(1)))), var(("b", call(id_("mk"), num(100)))),
        log("a-get", call(a0)), log("a-inc", call(a1)), log("a-get2", call(a0)),
        log("b-get", call(b0)), log("b-inc", call(b1)), log("a-get3", call(a0)),
        log("same", bin_("===", a0, b0)),
        expr(bin_("+", call(a0), call(b0))),
    ]


def closure_matrix():
    for S in ("param", "local", "catchparam", "args-alias", "args-arrow", "outer2", "hoistedfn", "global"):
        for T in ("straight", "loop", "callback", "nested"):
            for kind in ("fnexpr", "arrow", "fdecl"):
                for M in ("none", "creator", "closure", "both"):
                    p = _closure_case(S, T, kind, M)
                    if p is not None:
                        yield p
    for S in ("forvar", "forinvar", "forofvar"):
        for kind in ("fnexpr", "arrow"):
            for M in ("none", "closure"):
                yield _loopvar_case(S, kind, M)
    for T in ("straight", "loop", "callback", "nested"):
        for kind in ("fnexpr", "arrow"):
            yield _nfe_case(T, kind)


def _closure_case(S, T, kind, M):
    if S == "args-arrow" and kind != "arrow":
        return None
    if S == "catchparam" and kind == "fdecl" and T == "straight":
        return None  # would be a block-level function declaration
    v = id_("v")
    get_e = v
    inc_ss = [expr(assign(v, bin_("+", v, num(1))))]
    inc_r = v
    mut = expr(assign(v, bin_("+", v, num(10))))
    v_log = v
    pre, post_wrap = [], None
    params = ["p"]
    if S == "param":
        v = id_("p")
        get_e, inc_ss, inc_r, mut, v_log = v, [expr(assign(v, bin_("+", v, num(1))))], v, expr(assign(v, bin_("+", v, num(10)))), v
    elif S == "local":
        pre = [var(("v", id_("p")))]
    elif S == "catchparam":
        pass
    elif S == "args-alias":
        pre = [var(("v", id_("arguments")))]
        e0 = idx(v, num(0))
        get_e, inc_ss, inc_r, mut, v_log = e0, [expr(assign(e0, bin_("+", e0, num(1))))], e0, expr(assign(e0, bin_("+", e0, num(10)))), e0
    elif S == "args-arrow":
        e0 = idx(id_("arguments"), num(0))
        get_e, inc_ss, inc_r, mut, v_log = e0, [expr(assign(e0, bin_("+", e0, num(1))))], e0, expr(assign(e0, bin_("+", e0, num(10)))), e0
    elif S == "outer2":
        pre = [var(("v", id_("p")))]
    elif S == "hoistedfn":
        get_e = call(v)
        inc_ss = [expr(assign(v, fn(None, [], [ret(un("-", id_("p")))])))]
        inc_r = call(v)
        mut = expr(assign(v, fn(None, [], [ret(bin_("+", id_("p"), num(10)))])))
        v_log = call(v)
    site = _site(T, kind, get_e, inc_ss, inc_r)
    if site is None:
        return None
    tags = ["closure", "src-" + S, "site-" + T, "kind-" + kind, "mut-" + M]
    if S == "args-arrow":
        tags.append("arrow-arguments")
    muts = _inside_mutations(M, v_log, mut)
    pid = "closure|%s|%s|%s|%s" % (S, T, kind, M)
    if S == "global":
        a0 = _G
        body = [var(("v", num(1))), var(("fs", arr()))] + site + muts + [
            log("get", call(a0)), log("inc", call(_I)), log("get2", call(a0)), expr(assign(v, num(50))), log("get3", call(a0)), expr(call(a0))]
        return prog("closure", pid, body, tags)
    if S == "catchparam":
        mk = [var(("fs", arr())), try_([throw(id_("p"))], ("v", site + muts), None), ret(id_("fs"))]
    elif S == "outer2":
        mid = fdecl("mid", ["q"], [var(("fs", arr()))] + site + [ret(id_("fs"))]) if kind == "fdecl" else \
            var(("mid", fn(None, ["q"], [var(("fs", arr()))] + site + [ret(id_("fs"))])))
        mk = pre + [mid, var(("fs", call(id_("mid"), num(0))))] + muts + [ret(id_("fs"))]
    elif S == "hoistedfn":
        mk = [var(("fs", arr()))] + site + muts + [ret(id_("fs")), fdecl("v", [], [ret(id_("p"))])]
    else:
        mk = pre + [var(("fs", arr()))] + site + muts + [ret(id_("fs"))]
    body = [fdecl("mk", params, mk)] + _consumers()
    return prog("closure", pid, body, tags)


def _loopvar_case(S, kind, M):
    v = id_("v")
    G, I = _closure_pair(kind, v, [expr(assign(v, bin_("+", v, num(1))))], v)
    push = [expr(mcall(id_("fs"), "push", G))]
    if M == "closure":
        push.append(expr(mcall(id_("fs"), "push", I)))
    inner = block(*(push + [log("it", v)]))
    if S == "forvar":
        loop = for_(var(("v", id_("p"))), bin_("<", v, bin_("+", id_("p"), num(3))), upd("++", v), inner)
    elif S == "forinvar":
        loop = forin(("vardecl", "v"), obj(init("k1", num(1)), init("k2", num(2))), inner)
    else:
        loop = forof(("vardecl", "v"), arr(id_("p"), bin_("+", id_("p"), num(5))), inner)
    mk = [var(("fs", arr())), loop, log("after", v), ret(id_("fs"))]
    body = [fdecl("mk", ["p"], mk)] + _consumers()
    return prog("closure", "closure|%s|loop|%s|%s" % (S, kind, M), body,
                ["closure", "src-" + S, "site-loop", "kind-" + kind, "mut-" + M, "closure-in-loop"])


def _nfe_case(T, kind):
    get_e = bin_("+", bin_("+", un("typeof", id_("me")), s_(":")), bin_("+", bin_("===", id_("me"), id_("me0")), bin_("+", s_(":"), id_("n"))))
    site = _site(T, kind, get_e, [], bin_("===", id_("me"), id_("me0")))
    mk = [var(("me0", fn("me", ["n"], [var(("fs", arr()))] + site + [ret(id_("fs"))]))), log("mk", un("typeof", id_("me0"))),
          ret(call(id_("me0"), id_("p")))]
    body = [fdecl("mk", ["p"], mk)] + _consumers() + [expr(un("typeof", id_("me")))]
    return prog("closure", "closure|nfe|%s|%s" % (T, kind), body, ["closure", "src-nfe", "site-" + T, "kind-" + kind, "nfe"])


def closure_expr_sites():
    """A closure created inside an expression that sits in the head of a
    statement (if/while/for/switch/return/...): the capture analysis has to
    look there too.  The creator changes the variable afterwards; the closure
    must see the change (shared cell, not a copy)."""
    v = id_("v")

    def mkf(kind):
        return arrow([], v) if kind == "arrow" else fn(None, [], [ret(v)])

    def keep(f):  # keep(f) stores the closure in `got` and returns true
        return call(id_("keep"), f)

    sites = {
        "if-test": lambda f: [if_(keep(f), block(log("in", num(1))))],
        "while-test": lambda f: [var(("n", num(0))), while_(logic("&&", bin_("<", id_("n"), num(1)), keep(f)), block(expr(upd("++", id_("n")))))],
        "dowhile-test": lambda f: [var(("n", num(0))), dowhile(block(expr(upd("++", id_("n")))), logic("&&", keep(f), bin_("<", id_("n"), num(1))))],
        "for-init": lambda f: [for_(var(("n", num(0)), ("h", f)), bin_("<", id_("n"), num(1)), upd("++", id_("n")), block(expr(keep(id_("h")))))],
        "for-init-expr": lambda f: [var("n"), for_(assign(id_("n"), cond(keep(f), num(0), num(5))), bin_("<", id_("n"), num(1)), upd("++", id_("n")), block(log("b", id_("n"))))],
        "for-test": lambda f: [for_(var(("n", num(0))), logic("&&", bin_("<", id_("n"), num(1)), keep(f)), upd("++", id_("n")), block(log("b", id_("n"))))],
        "for-update": lambda f: [for_(var(("n", num(0))), bin_("<", id_("n"), num(1)), seq(keep(f), upd("++", id_("n"))), block(log("b", id_("n"))))],
        "forin-object": lambda f: [forin(("vardecl", "n"), obj(init("k", f)), block(log("b", id_("n")))), expr(keep(f))],
        "forof-array": lambda f: [forof(("vardecl", "n"), arr(f), block(expr(keep(id_("n")))))],
        "switch-disc": lambda f: [switch(keep(f), [(b_(True), [log("c", num(1))])])],
        "switch-case": lambda f: [switch(b_(True), [(keep(f), [log("c", num(1))])])],
        "return-arg": lambda f: [expr(keep(call(fn(None, [], [ret(f)]))))],
        "throw-arg": lambda f: [try_([throw(f)], ("e", [expr(keep(id_("e")))]), None)],
        "cond-test": lambda f: [log("c", cond(keep(f), num(1), num(2)))],
        "logic-rhs": lambda f: [log("c", logic("&&", b_(True), keep(f)))],
        "call-arg": lambda f: [expr(keep(f))],
        "array-elem": lambda f: [expr(keep(idx(arr(num(0), f), num(1))))],
        "object-value": lambda f: [expr(keep(dot(obj(init("m", f)), "m")))],
        "var-init": lambda f: [var(("h", f)), expr(keep(id_("h")))],
        "assign-rhs": lambda f: [var("h"), expr(assign(id_("h"), f)), expr(keep(id_("h")))],
        "label-if": lambda f: [label("Q", if_(keep(f), block(brk("Q"))))],
        "try-block-if": lambda f: [try_([if_(keep(f), block(log("in", num(1))))], None, [log("fin", num(1))])],
    }
    for name, site in sites.items():
        for kind in ("fnexpr", "arrow"):
            for where in ("function", "program"):
                core_ = [var(("v", num(1))), var("got"), var(("keep", fn(None, ["f"], [expr(assign(id_("got"), id_("f"))), ret(b_(True))])))]
                core_ += site(mkf(kind))
                core_ += [log("before", call(id_("got"))), expr(assign(v, bin_("+", v, num(10)))), log("after", call(id_("got")))]
                if where == "function":
                    body = [fdecl("mk", ["p"], core_ + [ret(id_("got"))]), var(("g", call(id_("mk"), num(0)))), log("late", call(id_("g"))), expr(call(id_("g")))]
                else:
                    body = core_ + [expr(call(id_("got")))]
                yield prog("closure", "closure|site2|%s|%s|%s" % (name, kind, where), body,
                           ["closure", "site2-" + name, "kind-" + kind, "closure-in-expression", "where-" + where])


def scoping_cases():
    """Shadowing, redeclaration and visibility rules around functions and catch."""
    x = id_("x")
    cases = {
        "catch-shadows-var": [var(("x", num(5))), try_([throw(num(1))], ("x", [log("in", x), expr(assign(x, num(2))), log("in2", x)]), None), log("out", x), expr(x)],
        "catch-shadows-param": [fdecl("f", ["x"], [try_([throw(num(1))], ("x", [log("in", x)]), None), log("out", x), ret(x)]), expr(call(id_("f"), num(9)))],
        "catch-shadow-closure": [fdecl("f", ["x"], [var("g"), try_([throw(num(1))], ("x", [expr(assign(id_("g"), fn(None, [], [ret(x)])))]), None),
                                                      expr(assign(x, num(7))), ret(arr(call(id_("g")), x))]), expr(call(id_("f"), num(9)))],
        "var-in-catch-hoists": [fdecl("f", [], [try_([throw(num(1))], ("e", [var(("y", bin_("+", id_("e"), num(1))))]), None), ret(id_("y"))]), expr(call(id_("f")))],
        "two-catches-same-name": [fdecl("f", [], [var(("r", arr())), try_([throw(num(1))], ("e", [expr(mcall(id_("r"), "push", id_("e")))]), None),
                                                    try_([throw(num(2))], ("e", [expr(mcall(id_("r"), "push", id_("e")))]), None), ret(id_("r"))]), expr(call(id_("f")))],
        "nested-catch-same-name": [try_([throw(num(1))], ("e", [try_([throw(num(2))], ("e", [log("inner", id_("e"))]), None), log("outer", id_("e"))]), None), expr(num(0))],
        "param-shadows-outer": [var(("x", num(1))), fdecl("f", ["x"], [expr(assign(x, bin_("+", x, num(1)))), ret(x)]), log("r", call(id_("f"), num(10))), expr(x)],
        "var-shadows-outer": [var(("x", num(1))), fdecl("f", [], [log("pre", x), var(("x", num(2))), ret(x)]), log("r", call(id_("f"))), expr(x)],
        "var-shadows-outer-closure": [var(("x", num(1))), fdecl("f", [], [var(("g", fn(None, [], [ret(x)]))), var(("x", num(2))), ret(call(id_("g")))]), expr(call(id_("f")))],
        "inner-fn-shadows-outer-fn": [fdecl("h", [], [ret(num(1))]), fdecl("f", [], [ret(call(id_("h"))), fdecl("h", [], [ret(num(2))])]), expr(arr(call(id_("f")), call(id_("h"))))],
        "nfe-name-not-outside": [var(("f", fn("me", [], [ret(un("typeof", id_("me")))]))), log("in", call(id_("f"))), expr(un("typeof", id_("me")))],
        "nfe-shadowed-by-param": [var(("f", fn("me", ["me"], [ret(id_("me"))]))), expr(call(id_("f"), num(3)))],
        "nfe-shadowed-by-var": [var(("f", fn("me", [], [var(("me", num(4))), ret(id_("me"))]))), expr(call(id_("f")))],
        "nfe-var-read-before-assign": [var(("f", fn("me", [], [var(("t", un("typeof", id_("me")))), var(("me", num(4))), ret(arr(id_("t"), id_("me")))]))), expr(call(id_("f")))],
        "nfe-param-own-name-missing": [var(("f", fn("me", ["me"], [ret(un("typeof", id_("me")))]))), expr(call(id_("f")))],
        "nfe-inner-fdecl-own-name": [var(("f", fn("me", [], [fdecl("me", [], [ret(num(1))]), ret(arr(un("typeof", id_("me")), call(id_("me"))))]))), expr(call(id_("f")))],
        "fdecl-var-own-name": [fdecl("f", [], [var(("t", un("typeof", id_("f")))), var("f"), ret(id_("t"))]), expr(call(id_("f")))],
        "fdecl-var-own-name-with-others": [fdecl("f", [], [var(("a1", num(1))), var(("t", un("typeof", id_("f")))), var("f"), var(("z9", num(2))), ret(arr(id_("t"), bin_("+", id_("a1"), id_("z9"))))]), expr(call(id_("f")))],
        "fdecl-own-name-in-closure": [fdecl("f", ["n"], [var(("g", fn(None, [], [ret(un("typeof", id_("f")))]))), ret(call(id_("g")))]), expr(call(id_("f"), num(1)))],
        "nfe-recursion-after-rebind": [var(("f", fn("me", ["n"], [ret(cond(bin_("<=", id_("n"), num(0)), num(0), bin_("+", num(1), call(id_("me"), bin_("-", id_("n"), num(1))))))]))),
                                       var(("g", id_("f"))), expr(assign(id_("f"), NULL)), expr(call(id_("g"), num(3)))],
        "param-default-undefined": [fdecl("f", ["a", "b"], [ret(arr(un("typeof", id_("a")), un("typeof", id_("b")), dot(id_("arguments"), "length")))]), expr(call(id_("f"), num(1)))],
        "extra-args": [fdecl("f", ["a"], [ret(arr(id_("a"), dot(id_("arguments"), "length"), idx(id_("arguments"), num(2))))]), expr(call(id_("f"), num(1), num(2), num(3)))],
        "arguments-not-aliased": [fdecl("f", ["a"], [expr(assign(id_("a"), num(9))), ret(arr(id_("a"), idx(id_("arguments"), num(0))))]), expr(call(id_("f"), num(1)))],
        "var-redecl-keeps-param": [fdecl("f", ["a"], [var("a"), ret(id_("a"))]), expr(call(id_("f"), num(3)))],
        "var-redecl-in-loop": [fdecl("f", [], [var(("r", arr())), for_(var(("i", num(0))), bin_("<", id_("i"), num(3)), upd("++", id_("i")),
                                                                   block(var("t"), expr(mcall(id_("r"), "push", un("typeof", id_("t")))), expr(assign(id_("t"), id_("i"))))), ret(id_("r"))]),
                               expr(call(id_("f")))],
        "var-redecl-global": [var(("g0", b_(True))), var("g0"), expr(id_("g0"))],
        "conditional-var": [fdecl("f", ["c"], [if_(id_("c"), block(var(("y", num(1))))), ret(un("typeof", id_("y")))]), expr(arr(call(id_("f"), b_(True)), call(id_("f"), b_(False))))],
        "global-read-before-decl": [fdecl("f", [], [ret(un("typeof", id_("late")))]), var(("r", call(id_("f")))), var(("late", num(1))), expr(arr(id_("r"), call(id_("f"))))],
        "global-assign-in-function": [var(("x", num(1))), fdecl("f", [], [expr(assign(x, bin_("+", x, num(1)))), ret(x)]), expr(arr(call(id_("f")), call(id_("f")), x))],
        "undeclared-assign-throws": [fdecl("f", [], [expr(assign(id_("nope"), num(1)))]), try_([expr(call(id_("f")))], ("e", [log("n", dot(id_("e"), "name"))]), None), expr(un("typeof", id_("nope")))],
        "closure-per-call": [fdecl("mk", [], [var(("c", num(0))), ret(fn(None, [], [ret(upd("++", id_("c"), True))]))]), var(("a", call(id_("mk")))), var(("b", call(id_("mk")))),
                             expr(arr(call(id_("a")), call(id_("a")), call(id_("b"))))],
        "recursion-own-locals": [fdecl("f", ["n"], [var(("loc", id_("n"))), if_(bin_(">", id_("n"), num(0)), block(expr(call(id_("f"), bin_("-", id_("n"), num(1)))))), ret(id_("loc"))]),
                                 expr(call(id_("f"), num(3)))],
        "recursive-closures": [fdecl("f", ["n", "acc"], [expr(mcall(id_("acc"), "push", fn(None, [], [ret(id_("n"))]))), if_(bin_(">", id_("n"), num(0)), block(expr(call(id_("f"), bin_("-", id_("n"), num(1)), id_("acc"))))),
                                                          ret(id_("acc"))]),
                               expr(mcall(call(id_("f"), num(2), arr()), "map", fn(None, ["g"], [ret(call(id_("g")))])))],
    }
    for name, body in cases.items():
        yield prog("scope", "scope|" + name, [log("start", num(0))] + body, ["scope", "scope-" + name])


# =================================================================== completion values
def completion_cases():
    i = id_("i")
    T, F = b_(True), b_(False)
    lits = {
        "if-else-t": [if_(T, expr(num(1)), expr(num(2)))],
        "if-else-f": [if_(F, expr(num(1)), expr(num(2)))],
        "if-no-else-f": [expr(num(5)), if_(F, expr(num(1)))],
        "if-empty-branch": [expr(num(5)), if_(T, EMPTY)],
        "block": [block(expr(num(1)), expr(num(2)))],
        "block-empty": [expr(num(5)), block()],
        "block-var-last": [block(expr(num(3)), var(("x", num(1))))],
        "empty-stmt": [expr(num(5)), EMPTY],
        "var-last": [expr(num(5)), var(("x", num(1)))],
        "fdecl-last": [expr(num(5)), fdecl("h", [], [])],
        "while": [var(("i", num(0))), while_(bin_("<", i, num(3)), block(expr(upd("++", i))))],
        "while-zero-iter": [expr(num(5)), while_(F, expr(num(1)))],
        "while-break": [var(("i", num(0))), while_(T, block(expr(upd("++", i)), if_(bin_("===", i, num(2)), brk())))],
        "while-break-val": [while_(T, block(expr(num(7)), brk()))],
        "dowhile": [var(("i", num(0))), dowhile(block(expr(upd("++", i, True))), bin_("<", i, num(3)))],
        "dowhile-continue": [var(("i", num(0))), dowhile(block(expr(upd("++", i, True)), cont()), bin_("<", i, num(3)))],
        "for": [for_(var(("i", num(0))), bin_("<", i, num(3)), upd("++", i), expr(bin_("+", i, num(10))))],
        "for-empty-body": [expr(num(5)), for_(var(("i", num(0))), bin_("<", i, num(3)), upd("++", i), EMPTY)],
        "forin": [forin(("vardecl", "k"), obj(init("a", num(1)), init("b", num(2))), expr(id_("k")))],
        "forof": [forof(("vardecl", "k"), arr(num(4), num(6)), expr(id_("k")))],
        "forof-break": [forof(("vardecl", "k"), arr(num(4), num(6)), block(expr(id_("k")), brk()))],
        "switch": [switch(num(1), [(num(1), [expr(num(10)), brk()]), (None, [expr(num(20))])])],
        "switch-fall": [switch(num(1), [(num(1), [expr(num(10))]), (None, [expr(num(20))])])],
        "switch-nomatch": [expr(num(5)), switch(num(3), [(num(1), [expr(num(10))])])],
        "switch-empty-case": [switch(num(1), [(num(1), []), (num(2), [expr(num(2)), brk()])])],
        "try-finally": [try_([expr(num(1))], None, [expr(num(2))])],
        "try-catch": [try_([throw(num(1))], ("e", [expr(bin_("+", id_("e"), num(1)))]), None)],
        "try-catch-nothrow": [try_([expr(num(3))], ("e", []), None)],
        "try-empty": [expr(num(5)), try_([], ("e", []), None)],
        "try-catch-finally": [try_([throw(num(1))], ("e", [expr(num(8))]), [expr(num(9))])],
        "label-block-break": [label("L", block(expr(num(1)), brk("L"), expr(num(2))))],
        "label-block-break-empty": [expr(num(5)), label("L", block(brk("L")))],
        "label-while-break": [label("L", while_(T, block(expr(num(7)), brk("L"))))],
        "nested-loop-continue-outer": [label("L", for_(var(("i", num(0))), bin_("<", i, num(2)), upd("++", i),
                                                    block(expr(i), while_(T, block(expr(num(9)), cont("L"))))))],
        "if-break-in-dowhile": [dowhile(block(expr(num(1)), if_(T, block(brk()))), F)],
        "expr-last": [var(("x", num(2))), expr(bin_("+", id_("x"), num(1)))],
        "assign-last": [var("x"), expr(assign(id_("x"), num(4)))],
        "nested-block-if": [block(block(if_(T, block(expr(s_("deep"))))))],
        "throw-in-loop": [while_(T, block(expr(num(1)), throw(s_("out"))))],
        # the values of a loop's init / test / update expressions and of its target never become the completion value
        "for-exprinit-empty-body": [var("i"), expr(num(5)), for_(assign(i, num(7)), bin_("<", i, num(9)), upd("++", i), EMPTY)],
        "for-exprinit-zero-iter": [var("i"), expr(num(5)), for_(assign(i, num(7)), F, upd("++", i), EMPTY)],
        "for-exprinit-novalue-body": [var("i"), expr(num(5)), for_(assign(i, num(7)), bin_("<", i, num(9)), upd("++", i), block(var(("w", num(1)))))],
        "for-exprinit-body-value": [var("i"), for_(assign(i, num(0)), bin_("<", i, num(2)), upd("++", i), expr(bin_("+", i, num(10))))],
        "for-seq-init": [var("i"), expr(num(5)), for_(seq(assign(i, num(1)), num(99)), bin_("<", i, num(2)), upd("++", i), EMPTY)],
        "for-update-assign": [var(("i", num(0))), expr(num(5)), for_(None, bin_("<", i, num(2)), assign(i, bin_("+", i, num(1))), EMPTY)],
        "for-exprinit-first": [var("i"), for_(assign(i, num(7)), bin_("<", i, num(8)), upd("++", i), EMPTY)],
        "while-test-value": [var(("i", num(0))), expr(num(5)), while_(bin_("<", upd("++", i, True), num(2)), EMPTY)],
        "forin-target-id": [var("k"), expr(num(5)), forin(id_("k"), obj(init("a", num(1))), EMPTY)],
        "forof-target-id": [var("k"), expr(num(5)), forof(id_("k"), arr(num(4), num(6)), EMPTY)],
        "forof-target-id-value": [var("k"), forof(id_("k"), arr(num(4), num(6)), expr(id_("k")))],
        "sibling-blocks": [block(block(expr(num(1))), block(expr(num(2))), block())],
        "sibling-blocks-in-loop": [var(("i", num(0))), while_(bin_("<", i, num(2)), block(block(expr(upd("++", i))), block(expr(bin_("+", i, num(100))))))],
    }
    # a value produced in an *earlier* iteration / another branch must not survive a later execution that
    # produces none (and vice versa): loop kind x inner producer x which iteration yields
    k = id_("k")

    def producers(j):
        hit = bin_("===", k, num(j))
        return {
            "if": if_(hit, expr(num(7))),
            "if-else-empty": if_(hit, expr(num(7)), EMPTY),
            "if-block": if_(hit, block(expr(num(7)))),
            "switch": switch(k, [(num(j), [expr(num(7)), brk()])]),
            "switch-default-empty": switch(k, [(num(j), [expr(num(7)), brk()]), (None, [])]),
            "inner-while": block(var(("w", num(0))), while_(bin_("&&", hit, bin_("<", id_("w"), num(1))), block(expr(upd("++", id_("w"))), expr(num(7))))),
            "try": try_([if_(hit, expr(num(7)))], ("e", []), None),
            "label": label("B", block(if_(bin_("!==", k, num(j)), brk("B")), expr(num(7)))),
        }

    for j in (0, 1, 2):
        for pname, pr in producers(j).items():
            loops = {
                "forof": [forof(("vardecl", "k"), arr(num(0), num(1), num(2)), pr)],
                "for": [for_(var(("k", num(0))), bin_("<", k, num(3)), upd("++", k), pr)],
                "while": [var(("k", num(-1))), while_(bin_("<", k, num(2)), block(expr(upd("++", k)), pr))],
                "dowhile": [var(("k", num(-1))), dowhile(block(expr(upd("++", k)), pr), bin_("<", k, num(2)))],
                "forin": [forin(("vardecl", "q"), obj(init("a", num(0)), init("b", num(1)), init("c", num(2))),
                                block(var(("k", bin_("-", bin_("*", num(1), bin_("+", num(0), num(0))), num(0)))), EMPTY))],
            }
            del loops["forin"]  # (keys are strings: no numeric k without conversions outside the safe core)
            for lname, body in loops.items():
                lits["iter-%s-%s-yield%d" % (lname, pname, j)] = [expr(num(5))] + body
    # if/else joins inside a loop that runs the valueless arm last
    lits["loop-ifelse-join"] = [forof(("vardecl", "k"), arr(num(0), num(1)), if_(bin_("===", k, num(0)), expr(num(7)), block()))]
    lits["loop-then-plain-if"] = [forof(("vardecl", "k"), arr(num(0), num(1)), expr(num(3))), if_(F, expr(num(1)))]
    for name, body in lits.items():
        claimed = name.split("-")[0] in ("if", "block", "expr", "assign", "nested") and name not in ("if-empty-branch", "block-empty", "block-var-last", "if-no-else-f", "if-break-in-dowhile")
        tags = ["completion", "completion-claimed" if claimed else "completion-es"]
        yield prog("completion", "completion|" + name, [log("start", num(0))] + body, tags)


def all_campaigns(seed, n_random, thorough=True):
    out = [("skel", skeletons()), ("skel2", skeletons2()), ("skelhead", skeletons_head()), ("switch", switch_product()), ("closure", closure_matrix()), ("closure", closure_expr_sites()),
           ("scope", scoping_cases()), ("completion", completion_cases())]
    if n_random and "random_programs" in globals():
        out.append(("random", random_programs(seed, n_random)))
    return out


# ====================================================================== random programs
_NAMES = ["a", "b", "c", "d", "x", "y", "z", "u", "w", "m"]


class _Fn:
    def __init__(self, name, nparams, rec, late):
        self.name = name
        self.nparams = nparams
        self.rec = rec      # first parameter n decreases on self-calls
        self.late = late    # declared after its uses (hoisting)
        self.cost = 5
        self.built = False


class _Scope:
    def __init__(self, parent, fn_spec=None, is_fn=False):
        self.parent = parent
        self.is_fn = is_fn
        self.spec = fn_spec
        self.nums = []       # assignable number variables declared in this scope (by now)
        self.pending = []    # var names that will be declared later in this scope (hoisted reads)
        self.reserved = set()  # names that may not be declared with var here (params, functions)
        self.closures = []   # names of 0-argument closures defined so far (this scope only)
        self.objs = []       # (name, kind, fields): object / array variables defined so far (this scope only)
        self.labels = []     # [(name, is_loop)] enclosing statements of this function
        self.loops = 0       # enclosing loops (continue / break targets) in this function
        self.switches = 0
        self.callable = []   # _Fn callable from here (own inner functions)

    def visible_nums(self):
        out, s, seen = [], self, set()
        while s is not None:
            for n in s.nums:
                if n not in seen:
                    out.append(n)
                    seen.add(n)
            seen.update(s.reserved)
            s = s.parent
        return out

    def fns(self):
        out, s = [], self
        while s is not None:
            out.extend(s.callable)
            s = s.parent
        return out


class RandomBuilder:
    """Seeded construction of one terminating program (no rejection)."""

    def __init__(self, rnd, max_stmts=40, max_depth=4, budget=2500):
        self.r = rnd
        self.left = max_stmts
        self.max_depth = max_depth
        self.budget = budget  # static estimate of statement executions
        self.tagn = 0
        self.uid = 0
        self.extra_tags = set()

    # ------------------------------------------------------------- utilities
    def tag(self):
        self.tagn += 1
        return "t%d" % self.tagn

    def fresh(self, prefix):
        self.uid += 1
        return "%s%d" % (prefix, self.uid)

    def chance(self, p):
        return self.r.random() < p

    # ------------------------------------------------------------ expressions
    def lit(self):
        return num(self.r.randint(0, 9))

    def num_expr(self, sc, depth=0, calls=True, mult=1):
        r = self.r
        vs = sc.visible_nums()
        k = r.random()
        if depth >= 2 or k < 0.25:
            if vs and r.random() < 0.7:
                return id_(r.choice(vs))
            return self.lit()
        if k < 0.5 and vs:
            return bin_(r.choice(["+", "-", "+"]), id_(r.choice(vs)), self.num_expr(sc, depth + 1, calls, mult))
        if k < 0.6:
            return bin_(r.choice(["+", "-", "*"]), self.num_expr(sc, depth + 1, calls, mult), self.lit())
        if k < 0.68:
            return cond(self.bool_expr(sc, depth + 1, mult), self.num_expr(sc, depth + 1, calls, mult), self.num_expr(sc, depth + 1, calls, mult))
        if k < 0.8 and calls:
            c = self.call_expr(sc, depth, mult)
            if c is not None:
                return c
        if k < 0.86 and sc.closures:
            return call(id_(r.choice(sc.closures)))
        if k < 0.93 and sc.objs and r.random() < 0.7:
            return self.member_expr(sc, depth, mult)
        if k < 0.9 and vs:
            v = id_(r.choice(vs))
            return r.choice([upd("++", v), upd("--", v, True), assign(v, self.lit(), "+="), seq(assign(v, bin_("+", v, num(1))), v)])
        if k < 0.94 and sc.is_fn and sc.spec is not None:
            self.extra_tags.add("arguments")
            return r.choice([dot(id_("arguments"), "length"), bin_("+", dot(id_("arguments"), "length"), self.lit())])
        if vs:
            return bin_("+", id_(r.choice(vs)), self.lit())
        return self.lit()

    def member_ref(self, sc):
        name, kind, fields = self.r.choice(sc.objs)
        if kind == "arr":
            i = self.r.randrange(fields)
            return idx(id_(name), num(i))
        f = self.r.choice(fields)
        return dot(id_(name), f) if self.chance(0.7) else idx(id_(name), s_(f))

    def member_expr(self, sc, depth, mult):
        """Number-valued read / update / compound assignment of a property."""
        r = self.r
        name, kind, fields = r.choice(sc.objs)
        k = r.random()
        if kind == "obj" and "g" in fields and k < 0.25:
            self.extra_tags.add("getter")
            return dot(id_(name), "g")
        if kind == "arr" and k < 0.15:
            return dot(id_(name), "length")
        m = self.member_ref(sc)
        while m[0] == "dot" and m[2] == "g" or (m[0] == "idx" and m[2] == ("str", "g")):
            m = self.member_ref(sc)
        if k < 0.5:
            return m
        self.extra_tags.add("member-update")
        if k < 0.7:
            return upd(r.choice(["++", "--"]), m, self.chance(0.5))
        return assign(m, self.lit() if self.chance(0.6) else self.num_expr(sc, depth + 1, False, mult), r.choice(["+=", "-=", "=", "*="]))

    def s_object(self, sc, depth, mult):
        r = self.r
        name = self.fresh("o")
        sc.reserved.add(name)
        if self.chance(0.4):
            n = r.randint(2, 4)
            st = var((name, arr(*[self.num_expr(sc, 1, False, mult) for _ in range(n)])))
            sc.objs.append((name, "arr", n))
            out = [st, log(self.tag(), idx(id_(name), num(r.randrange(n))))]
            if sc.loops == 0 and mult == 1 and self.chance(0.4):
                out += [expr(mcall(id_(name), "push", self.lit())), log(self.tag(), dot(id_(name), "length"))]
            return out
        fields = ["p", "q"]
        props = [init("p", self.num_expr(sc, 1, False, mult)), init("q", self.lit())]
        if self.chance(0.4):
            vs = sc.visible_nums()
            extra = id_(r.choice(vs)) if vs else num(1)
            props.append(("get", ("id", "g"), [log(self.tag(), dot(THIS, "p")), ret(bin_("+", dot(THIS, "p"), extra))]))
            fields = fields + ["g"]
            self.extra_tags.add("getter")
        st = var((name, obj(*props)))
        sc.objs.append((name, "obj", fields))
        return [st, log(self.tag(), dot(id_(name), "p"))]

    def bool_expr(self, sc, depth=0, mult=1):
        r = self.r
        k = r.random()
        a = self.num_expr(sc, depth + 1, calls=False, mult=mult)
        b = self.num_expr(sc, depth + 1, calls=False, mult=mult)
        if k < 0.5:
            return bin_(r.choice(["<", "<=", "===", "!==", ">"]), a, b)
        if k < 0.7:
            return logic(r.choice(["&&", "||"]), bin_("<", a, b), bin_("!==", self.num_expr(sc, depth + 1, False, mult), self.lit()))
        if k < 0.8:
            return un("!", bin_("<", a, b))
        return bin_("<", a, self.lit())

    def call_expr(self, sc, depth, mult):
        """Call of a declared function whose estimated cost fits the budget."""
        cands = [f for f in sc.fns() if f.built or f.late or f is sc.spec]
        self.r.shuffle(cands)
        for f in cands:
            if f is sc.spec or not f.built:
                if f is sc.spec and f.rec and not getattr(sc, "in_loop_any", False) and sc.self_calls < 2 and mult == 1:
                    sc.self_calls += 1
                    self.extra_tags.add("recursion")
                    args = [bin_("-", id_("n"), num(1))] + [self.num_expr(sc, depth + 1, False) for _ in range(f.nparams - 1)]
                    return call(id_(f.name), *args)
                if f is sc.spec:
                    continue
                # a late function that is not built yet: estimate generously
                cost = 60 * (15 if f.rec else 1)
            else:
                cost = f.cost * (15 if f.rec else 1)
            if cost * mult > self.budget:
                continue
            self.budget -= cost * mult
            if f.late and not f.built:
                self.extra_tags.add("hoist-call")
            args = []
            for i in range(f.nparams + (1 if self.chance(0.15) else 0) - (1 if f.nparams > 1 and self.chance(0.1) else 0)):
                if i == 0 and f.rec:
                    args.append(num(self.r.randint(0, 3)))
                else:
                    args.append(self.num_expr(sc, depth + 1, False))
            if f.rec and not args:
                args = [num(1)]
            return call(id_(f.name), *args)
        return None

    # ------------------------------------------------------------- statements
    def stmts(self, sc, depth, mult, n=None):
        out = []
        n = n if n is not None else self.r.randint(1, 4)
        nclosures = len(sc.closures)
        nobjs = len(sc.objs)
        for _ in range(n):
            if self.left <= 0:
                break
            out.extend(self.stmt(sc, depth, mult))
        if not out:
            out.append(log(self.tag(), self.num_expr(sc, 1, False, mult)))
        del sc.closures[nclosures:]  # a closure variable is used only where it is surely assigned
        del sc.objs[nobjs:]
        return out

    def new_var_name(self, sc):
        cands = [n for n in _NAMES if n not in sc.reserved]
        return self.r.choice(cands)

    def stmt(self, sc, depth, mult):
        r = self.r
        self.left -= 1
        self.budget -= mult
        deep = depth >= self.max_depth or self.budget < 50 * mult
        k = r.random()
        if k < 0.16:
            return self.s_decl(sc, depth, mult)
        if k < 0.30:
            return self.s_assign(sc, depth, mult)
        if k < 0.345:
            return [log(self.tag(), self.num_expr(sc, 0, True, mult))]
        if k < 0.38:
            if sc.objs and self.chance(0.6):
                m = self.member_expr(sc, 0, mult)
                return [expr(m), log(self.tag(), self.member_ref(sc))]
            return self.s_object(sc, depth, mult)
        if k < 0.48 and not deep:
            c = self.bool_expr(sc, 0, mult)
            then = block(*self.stmts(sc, depth + 1, mult))
            els = block(*self.stmts(sc, depth + 1, mult)) if self.chance(0.5) else None
            if els is None and then[0] == "block" and len(then[1]) == 1 and then[1][0][0] == "expr" and self.chance(0.6):
                then = then[1][0]  # unbraced single statement
            return [if_(c, then, els)]
        if k < 0.62 and not deep:
            return self.s_loop(sc, depth, mult)
        if k < 0.67 and not deep:
            return self.s_switch(sc, depth, mult)
        if k < 0.75:
            return self.s_abrupt(sc, depth, mult)
        if k < 0.81 and not deep:
            return self.s_try(sc, depth, mult)
        if k < 0.89:
            return self.s_closure(sc, depth, mult)
        if k < 0.94 and not deep:
            return self.s_callback(sc, depth, mult)
        if k < 0.97 and not deep and depth <= 1:
            return self.s_inner_fn(sc, depth, mult)
        return self.s_assign(sc, depth, mult)

    def s_decl(self, sc, depth, mult):
        name = self.new_var_name(sc)
        out = []
        redecl = name in sc.nums
        if not redecl and self.chance(0.25):
            # read before the declaration: hoisted, undefined
            self.extra_tags.add("hoist-var-read")
            out.append(log(self.tag(), un("typeof", id_(name))))
        if redecl and self.chance(0.4):
            out.append(var(name))  # redeclaration without initialiser keeps the value
            self.extra_tags.add("var-redecl-noinit")
        else:
            e = self.num_expr(sc, 0, True, mult)
            if self.chance(0.2):
                other = self.new_var_name(sc)
                if other != name:
                    out.append(var((name, e), (other, self.lit())))
                    if other not in sc.nums:
                        sc.nums.append(other)
                else:
                    out.append(var((name, e)))
            else:
                out.append(var((name, e)))
        if name not in sc.nums:
            sc.nums.append(name)
        out.append(log(self.tag(), id_(name)))
        return out

    def s_assign(self, sc, depth, mult):
        vs = sc.visible_nums()
        if not vs:
            return self.s_decl(sc, depth, mult)
        v = id_(self.r.choice(vs))
        k = self.r.random()
        if k < 0.5:
            st = expr(assign(v, self.num_expr(sc, 0, True, mult)))
        elif k < 0.7:
            st = expr(assign(v, self.num_expr(sc, 1, False, mult), self.r.choice(["+=", "-="])))
        elif k < 0.85:
            st = expr(upd(self.r.choice(["++", "--"]), v, self.chance(0.5)))
        else:
            st = expr(assign(v, cond(self.bool_expr(sc, 1, mult), self.lit(), v)))
        return [st, log(self.tag(), v)]

    def body_block(self, sc, depth, mult, head=()):
        return block(*(list(head) + self.stmts(sc, depth + 1, mult)))

    def s_loop(self, sc, depth, mult):
        r = self.r
        kind = r.choice(["while", "dowhile", "for", "for", "forin", "forof"])
        bound = r.randint(1, 4)
        if mult * bound * 4 > self.budget:
            bound = 1
        q = self.fresh("q")
        lbl = self.fresh("L") if self.chance(0.35) else None
        if lbl:
            sc.labels.append((lbl, True))
        sc.loops += 1
        sc.reserved.add(q)
        qi = id_(q)
        m2 = mult * bound
        pre = []
        if kind == "while":
            test = bin_("<", qi, num(bound))
            if self.chance(0.3):
                test = logic("&&", test, self.bool_expr(sc, 1, m2))
            st = while_(test, self.body_block(sc, depth, m2, [expr(upd("++", qi)), log(self.tag(), qi)]))
            pre = [var((q, num(0)))]
        elif kind == "dowhile":
            st = dowhile(self.body_block(sc, depth, m2, [expr(upd("++", qi)), log(self.tag(), qi)]), bin_("<", qi, num(bound)))
            pre = [var((q, num(0)))]
        elif kind == "for":
            st = for_(var((q, num(0))), bin_("<", qi, num(bound)), upd("++", qi, self.chance(0.5)), self.body_block(sc, depth, m2, [log(self.tag(), qi)]))
        elif kind == "forin":
            keys = ["k%d" % i for i in range(bound)]
            st = forin(("vardecl", q), obj(*[init(kk, self.lit()) for kk in keys]), self.body_block(sc, depth, m2, [log(self.tag(), qi)]))
        else:
            elems = [self.num_expr(sc, 1, False, mult) for _ in range(bound)]
            st = forof(("vardecl", q), arr(*elems), self.body_block(sc, depth, m2, [log(self.tag(), qi)]))
            sc.nums.append(q)  # the element is a number: usable afterwards
        sc.loops -= 1
        if lbl:
            sc.labels.pop()
            st = label(lbl, st)
        return pre + [st, log(self.tag(), un("typeof", qi) if kind == "forin" else qi)]

    def s_switch(self, sc, depth, mult):
        r = self.r
        n = r.randint(2, 4)
        vals = r.sample(range(0, 6), n)
        dpos = r.randint(0, n) if self.chance(0.7) else None
        sc.switches += 1
        cases = []
        for i, v in enumerate(vals):
            if dpos == i:
                cases.append((None, self._case_body(sc, depth, mult)))
            cases.append((num(v), self._case_body(sc, depth, mult)))
        if dpos == n:
            cases.append((None, self._case_body(sc, depth, mult)))
        sc.switches -= 1
        d = self.num_expr(sc, 1, False, mult) if self.chance(0.6) else num(r.choice(vals + [7]))
        return [switch(d, cases), log(self.tag(), self.lit())]

    def _case_body(self, sc, depth, mult):
        if self.chance(0.1):
            return []
        body = self.stmts(sc, depth + 1, mult, self.r.randint(1, 2))
        if self.chance(0.6):
            body.append(brk())
        return body

    def s_abrupt(self, sc, depth, mult):
        """A guarded break / continue / return that is valid here."""
        r = self.r
        opts = []
        if sc.loops or sc.switches:
            opts.append(brk())
        if sc.loops:
            opts += [cont(), cont()]
        for name, is_loop in sc.labels:
            opts.append(brk(name))
            if is_loop:
                opts += [cont(name), cont(name)]
        if sc.is_fn:
            opts.append(ret(self.num_expr(sc, 1, False, mult)))
            opts.append(ret(self.num_expr(sc, 1, False, mult)) if self.chance(0.8) else ret())
        if not opts:
            # a labelled block with a break out of it
            lbl = self.fresh("B")
            sc.labels.append((lbl, False))
            inner = self.stmts(sc, depth + 1, mult, 2)
            sc.labels.pop()
            return [label(lbl, block(log(self.tag(), self.lit()), if_(self.bool_expr(sc, 1, mult), brk(lbl)), *inner)), log(self.tag(), self.lit())]
        st = r.choice(opts)
        return [if_(self.bool_expr(sc, 0, mult), block(log(self.tag(), self.lit()), st))]

    def s_try(self, sc, depth, mult):
        r = self.r
        shape = r.choice(["tc", "tf", "tcf", "tf"])
        blk = self.stmts(sc, depth + 1, mult)
        if self.chance(0.5):
            blk.insert(r.randint(0, len(blk)), if_(self.bool_expr(sc, 1, mult), throw(r.choice([self.lit(), s_("E"), new(id_("Error"), s_("boom"))]))))
            if shape == "tf" and not self.chance(0.15):
                shape = "tcf"
        catch = None
        if "c" in shape:
            e = self.fresh("e")
            catch = (e, [log(self.tag(), un("typeof", id_(e)))] + self.stmts(sc, depth + 1, mult, r.randint(0, 2)))
        fin = None
        if "f" in shape:
            fin = [log(self.tag(), self.lit())] + (self.s_assign(sc, depth, mult) if self.chance(0.5) else [])
        return [try_(blk, catch, fin), log(self.tag(), self.lit())]

    def s_closure(self, sc, depth, mult):
        """A closure over visible variables: created, called, shared."""
        r = self.r
        vs = sc.visible_nums()
        if not vs:
            return self.s_decl(sc, depth, mult)
        self.left -= 1
        v = id_(r.choice(vs))
        name = self.fresh("h")
        sc.reserved.add(name)
        k = r.random()
        if k < 0.35:
            f = fn(None, [], [expr(assign(v, bin_("+", v, self.lit()))), ret(v)])
        elif k < 0.55:
            f = arrow([], bin_("+", v, self.lit()))
        elif k < 0.7:
            f = arrow([], [log(self.tag(), v), ret(upd("++", v))])
        elif k < 0.85:
            p = self.fresh("p")
            f = fn(self.fresh("nf") if self.chance(0.5) else None, [p], [ret(bin_("+", v, cond(id_(p), id_(p), num(1))))])
            out = [var((name, f)), log(self.tag(), call(id_(name), self.lit())), log(self.tag(), call(id_(name)))]
            return out
        else:
            # counter factory: closure outlives its activation, fresh per call
            mk = self.fresh("mk")
            sc.reserved.add(mk)
            c = self.fresh("c")
            out = [var((mk, fn(None, [c], [ret(fn(None, [], [expr(assign(id_(c), bin_("+", id_(c), v))), ret(id_(c))]))]))),
                   var((name, call(id_(mk), self.lit()))), var((name + "b", call(id_(mk), num(100)))),
                   log(self.tag(), call(id_(name))), log(self.tag(), call(id_(name + "b"))), log(self.tag(), call(id_(name)))]
            sc.reserved.add(name + "b")
            sc.closures.append(name)
            self.extra_tags.add("closure-outlives")
            return out
        sc.closures.append(name)
        return [var((name, f)), log(self.tag(), call(id_(name))), expr(assign(v, bin_("+", v, num(1)))), log(self.tag(), call(id_(name)))]

    def s_callback(self, sc, depth, mult):
        r = self.r
        vs = sc.visible_nums()
        n = r.randint(1, 3)
        if mult * n * 4 > self.budget:
            n = 1
        elems = arr(*[self.lit() for _ in range(n)])
        e = self.fresh("e")
        m = r.choice(["forEach", "map", "filter", "reduce", "some", "every", "loopfns"])
        inner = _Scope(sc, None, True)
        inner.reserved.add(e)
        inner.nums.append(e)
        if m == "loopfns":
            # closures created in a loop, called after it
            fs = self.fresh("fs")
            q = self.fresh("q")
            sc.reserved.update([fs, q])
            v = id_(r.choice(vs)) if vs else num(1)
            body = [expr(mcall(id_(fs), "push", fn(None, [], [ret(bin_("+", id_(q), v))])))]
            if vs:
                body.append(expr(assign(v, bin_("+", v, num(1)))))
            self.extra_tags.add("closure-in-loop")
            return [var((fs, arr())), for_(var((q, num(0))), bin_("<", id_(q), num(n)), upd("++", id_(q)), block(*body)),
                    log(self.tag(), mcall(mcall(id_(fs), "map", fn(None, ["g"], [ret(call(id_("g")))])), "join", s_(",")))]
        self.left -= 1
        if m == "reduce":
            acc = self.fresh("s")
            inner.reserved.add(acc)
            inner.nums.append(acc)
            body = self.stmts(inner, depth + 2, mult * n, 1) + [ret(bin_("+", id_(acc), id_(e)))]
            return [log(self.tag(), mcall(elems, "reduce", fn(None, [acc, e], body), self.lit()))]
        body = self.stmts(inner, depth + 2, mult * n, r.randint(1, 2))
        if m == "forEach":
            return [expr(mcall(elems, m, fn(None, [e], body))), log(self.tag(), self.lit())]
        if m == "map":
            body.append(ret(self.num_expr(inner, 1, False, mult * n)))
            return [log(self.tag(), mcall(mcall(elems, m, fn(None, [e], body) if self.chance(0.7) else arrow([e], body)), "join", s_("|")))]
        body.append(ret(self.bool_expr(inner, 1, mult * n)))
        if m == "filter":
            return [log(self.tag(), dot(mcall(elems, m, fn(None, [e], body)), "length"))]
        return [log(self.tag(), mcall(elems, m, fn(None, [e], body)))]

    # --------------------------------------------------------------- functions
    def build_function(self, spec, parent, depth):
        """Body of a declared function; sets spec.cost."""
        sc = _Scope(parent, spec, True)
        sc.self_calls = 0
        params = (["n"] if spec.rec else []) + [p for p in self.r.sample(_NAMES, spec.nparams - (1 if spec.rec else 0))]
        params = params[: spec.nparams]
        sc.reserved.update(params)
        sc.reserved.add(spec.name)
        sc.nums.extend(p for p in params if p != "n")
        if spec.rec:
            sc.nums.append("n")
        before = self.budget
        self.budget = min(self.budget, 150)
        start = self.budget
        # one function in four starts straight with its first generated statement (code at offset 0)
        body = [] if (not spec.rec and self.chance(0.25)) else [log(self.tag(), id_(params[0]) if params else self.lit())]
        if spec.rec:
            body.append(if_(bin_("<=", id_("n"), num(0)), block(log(self.tag(), self.lit()), ret(self.num_expr(sc, 1, False)))))
            sc.nums.remove("n")  # never assigned: the recursion must decrease
            sc.reserved.add("n")
        saved_left = self.left
        self.left = min(self.left, self.r.randint(3, 9))
        took = self.left
        body += self.stmts(sc, depth + 1, 1, self.r.randint(2, 5))
        if spec.rec and sc.self_calls == 0:
            sc.self_calls = 1
            self.extra_tags.add("recursion")
            body.append(log(self.tag(), call(id_(spec.name), bin_("-", id_("n"), num(1)), *[self.lit() for _ in range(spec.nparams - 1)])))
        self.left = saved_left - (took - self.left)
        inner = getattr(sc, "inner_decls", [])
        if inner and self.chance(0.5):
            body = body[:1] + inner + body[1:]
            inner = []
        if self.chance(0.85):
            body.append(ret(self.num_expr(sc, 0, False)))
        body += inner  # declarations after their uses (even after the return): hoisted
        spec.cost = max(5, start - self.budget) + 5
        self.budget = before - spec.cost
        spec.built = True
        spec.params = params
        return body

    def s_inner_fn(self, sc, depth, mult):
        """A nested function declaration (hoisted inside its function), called."""
        if not sc.is_fn or sc.spec is None or mult > 1:
            return self.s_closure(sc, depth, mult)
        name = self.fresh("g")
        spec = _Fn(name, self.r.randint(0, 2), False, False)
        sc.reserved.add(name)
        body = self.build_function(spec, sc, depth + 1)
        sc.callable.append(spec)
        self.extra_tags.add("fdecl-inner")
        sc.inner_decls = getattr(sc, "inner_decls", [])
        sc.inner_decls.append(fdecl(name, spec.params, body))
        return [log(self.tag(), call(id_(name), *[self.lit() for _ in range(spec.nparams)]))]

    # ----------------------------------------------------------------- program
    def program(self):
        r = self.r
        top = _Scope(None, None, False)
        nf = r.randint(1, 4)
        specs = []
        for i in range(nf):
            rec = self.chance(0.35)
            specs.append(_Fn("f%d" % i, r.randint(1, 3) if rec else r.randint(0, 3), rec, self.chance(0.5)))
        for s in specs:
            top.reserved.add(s.name)
        top.callable = list(specs)
        early, late = [], []
        # functions may call functions of higher index (no cycles): build from the last
        for i in range(nf - 1, -1, -1):
            s = specs[i]
            top.callable = specs[i + 1:]  # what this one may call (plus itself when recursive)
            body = self.build_function(s, top, 0)
            sc_decls = []
            d = fdecl(s.name, s.params, body)
            (late if s.late else early).insert(0, d)
        top.callable = list(specs)
        for s in specs:
            s.built = not s.late  # late ones count as hoisted uses at the top level
        main = []
        n_main = max(3, self.left)
        self.left = n_main
        while self.left > 0 and len(main) < 60:
            main.extend(self.stmt(top, 0, 1))
        # every function is called at least once
        used = set()

        def see(n):
            if n[0] == "call" and n[1][0] == "id":
                used.add(n[1][1])

        from .progs import walk

        for st in main:
            walk(st, see)
        for s in specs:
            if s.name not in used:
                if s.late:
                    self.extra_tags.add("hoist-call")
                args = [num(r.randint(0, 3))] if s.rec else []
                args += [self.lit() for _ in range(s.nparams - len(args))]
                main.insert(r.randint(0, len(main)), log(self.tag(), call(id_(s.name), *args)))
        vs = top.visible_nums()
        final = expr(arr(*[id_(v) for v in vs[:4]])) if vs and self.chance(0.5) else expr(self.num_expr(top, 0, False))
        body = early + main + late + [final]
        return body


def _attach_inner_decls(body):
    return body


def random_program(seed_int, max_stmts=None):
    rnd = random.Random(seed_int)
    b = RandomBuilder(rnd, max_stmts=max_stmts or rnd.choice([12, 20, 30, 40]), max_depth=rnd.choice([2, 3, 4]))
    body = b.program()
    tags = set(tags_of(body)) | b.extra_tags | {"random"}
    return prog("random", "random|%d" % seed_int, body, tags)


def random_programs(seed, n, start=0):
    from vf.core import shard_seed

    for i in range(start, start + n):
        yield random_program(shard_seed(seed, "C05", "random", i) & 0xFFFFFFFFFFFF)


# ============================================================== descriptors (replay)
def describe(p):
    """Compact, JSON-able recipe from which from_desc() rebuilds the program."""
    parts = p["id"].split("|")
    if parts[0] == "skel":
        return ["skel", parts[1], parts[2], parts[3], parts[4], int(parts[5])]
    if parts[0] == "skel2":
        return ["skel2", parts[1], parts[2], parts[3], parts[4]]
    if parts[0] == "skelhead":
        return ["skelhead", parts[1], parts[2], parts[3], parts[4]]
    if parts[0] == "random":
        return ["random", int(parts[1])]
    return [parts[0], p["id"]]


_BY_ID = {}


def from_desc(d):
    k = d[0]
    if k == "skel":
        return skeleton(d[1], d[2], d[3], d[4], d[5])
    if k == "skel2":
        return skeleton2(d[1], d[2], d[3], d[4])
    if k == "skelhead":
        return skeleton_head(d[1], d[2], d[3], d[4])
    if k == "random":
        return random_program(d[1])
    if k == "switch":
        _, dpos, bits, dname, ctx = d[1].split("|")
        dval = {"1": num(1), "2": num(2), "3": num(3), "9": num(9), "s1": s_("1")}[dname]
        return _switch_case(dpos, int(bits), dname, dval, ctx)
    if not _BY_ID:
        for g in (closure_matrix(), closure_expr_sites(), scoping_cases(), completion_cases()):
            for p in g:
                _BY_ID[p["id"]] = p
    return _BY_ID[d[1]]
