"""Case language shared by the C17 campaigns: JSON-able specs of values,
their JavaScript spelling, their model (oracles.arrref) counterpart, the
callback pool, and the JS-side encoder that makes results comparable
(typed, with object identities).

spec (JSON list)            JavaScript                    model
  ["u"] ["l"] ["b",0|1]     undefined null true/false     prims values
  ["n",numkey] ["s",str]    number / string literal
  ["n9"]                    the array [9] shared by a case Arr (one identity)
  ["rec",k,id]              {k: k, id: id}                Obj(rec=(k,id))
  ["arr",[spec...]]         fresh array literal           Arr
  ["obj"]                   {}                            Obj()
  ["vo",prim] ["ts",prim]   {valueOf/toString: function(){return prim}}
  ["fn"]                    function(){}  (never called)  Fn(None)
  ["self"] ["T"]            the receiver / the this-object
  ["cb",name]               callback of the pool
"""
import math

from oracles import arrref as R
from oracles import prims as P

UNDEF = P.UNDEF


# ----------------------------------------------------------------- primitives
def pspec(v):
    if v is UNDEF:
        return ["u"]
    if v is None:
        return ["l"]
    if isinstance(v, bool):
        return ["b", 1 if v else 0]
    if isinstance(v, (int, float)):
        return ["n", P.numkey(float(v))]
    if isinstance(v, str):
        return ["s", v]
    raise TypeError(v)


def numkey_to_float(k):
    if k == "NaN":
        return math.nan
    if k == "Infinity":
        return math.inf
    if k == "-Infinity":
        return -math.inf
    if k == "-0":
        return -0.0
    return float(k)


def is_pspec(s):
    return s[0] in ("u", "l", "b", "n", "s")


def pvalue(s):
    t = s[0]
    if t == "u":
        return UNDEF
    if t == "l":
        return None
    if t == "b":
        return bool(s[1])
    if t == "n":
        return numkey_to_float(s[1])
    if t == "s":
        return s[1]
    raise KeyError(t)


def spec_key(s):
    t = s[0]
    if t in ("u", "l", "n9", "obj", "fn", "self", "T"):
        return t
    if t == "b":
        return "true" if s[1] else "false"
    if t == "n":
        return s[1]
    if t == "s":
        return P.js_string_literal(s[1])
    if t == "rec":
        return "r%s.%s" % (s[1], s[2])
    if t == "arr":
        return "[" + ",".join(spec_key(x) for x in s[1]) + "]"
    if t in ("vo", "ts"):
        return "%s(%s)" % (t, spec_key(s[1]))
    if t == "cb":
        return "cb:" + s[1]
    raise KeyError(t)


def case_key(case):
    return "%s|%s|%s" % (
        case["m"],
        ",".join(spec_key(x) for x in case["recv"]),
        ",".join(spec_key(x) for x in case["args"]),
    )


# ------------------------------------------------------------- JS-side prelude
PRELUDE = r"""
var OUT = [];
function idof(reg, v) { for (var i = 0; i < reg.length; i++) { if (reg[i] === v) return i; } return -1; }
function enc(reg, v, d) {
  var t = typeof v;
  if (t === 'function') return ['fn', idof(reg, v)];
  if (t === 'object' && v !== null) {
    if (Array.isArray(v)) {
      if (d > 4) return ['deep'];
      var items = [];
      for (var i = 0; i < v.length; i++) items.push(enc(reg, v[i], d + 1));
      return ['arr', idof(reg, v), items];
    }
    if (typeof v.id === 'number' && typeof v.k === 'number') return ['rec', v.k, v.id];
    return ['obj', idof(reg, v)];
  }
  return [t, v];
}
function encErr(reg, e) {
  if (typeof e === 'object' && e !== null && !Array.isArray(e) && idof(reg, e) < 0 && typeof e.name === 'string') return ['err', e.name];
  return enc(reg, e, 0);
}
function key(x) {
  var t = typeof x;
  if (t === 'number') return x !== x ? 1000 : x;
  if (x === null) return -5;
  if (t === 'string') return 50 + x.length;
  if (t === 'object') return typeof x.k === 'number' ? x.k : 60;
  return 70;
}
function keysOf(o) { var r = []; for (var k in o) r.push(k); return r; }
"""


def model_key(x):
    """Python twin of the JS function key()."""
    if isinstance(x, bool):
        return 70.0
    if isinstance(x, float):
        return 1000.0 if x != x else x
    if x is None:
        return -5.0
    if isinstance(x, str):
        return 50.0 + len(P._code_units(x))
    if isinstance(x, R.Obj):
        return float(x.rec[0]) if x.rec is not None else 60.0
    if isinstance(x, (R.Arr, R.ErrObj)):
        return 60.0
    return 70.0


# ------------------------------------------------- canonical ("cv") encoding
def _num_cv(v):
    if isinstance(v, bool) or not isinstance(v, (int, float)):
        return ["?", repr(v)[:60]]
    if isinstance(v, int):
        try:
            f = float(v)
        except OverflowError:
            return ["bigint", str(v)]
        if int(f) != v:
            return ["bigint", str(v)]
        return ["n", P.numkey(f)]
    return ["n", P.numkey(v)]


def cv_from_raw(x):
    """What the JS enc() produced, as eval() returned it -> canonical form."""
    if not isinstance(x, list) or not x or not isinstance(x[0], str):
        return ["?", repr(x)[:80]]
    t = x[0]
    try:
        if t == "arr":
            if len(x) == 2:  # an array named by its variable (histories)
                return ["arr", int(x[1])]
            return ["arr", int(x[1]), [cv_from_raw(e) for e in x[2]]]
        if t in ("obj", "fn"):
            return [t, int(x[1])]
        if t == "rec":
            return ["rec", _num_cv(x[1]), _num_cv(x[2])]
        if t == "err":
            return ["err", x[1]]
        if t == "deep":
            return ["deep"]
        v = x[1] if len(x) > 1 else None
        if t == "undefined":
            return ["u"] if v is None else ["?", repr(x)[:80]]
        if t == "object":
            return ["l"] if v is None else ["?", repr(x)[:80]]
        if t == "boolean":
            return ["b", 1 if v is True else 0] if isinstance(v, bool) else ["?", repr(x)[:80]]
        if t == "number":
            return _num_cv(v)
        if t == "string":
            return ["s", v] if isinstance(v, str) else ["?", repr(x)[:80]]
    except Exception:
        pass
    return ["?", repr(x)[:80]]


def cv_from_model(v, reg, d=0):
    if R.is_prim(v):
        return pspec(v)
    if isinstance(v, R.ErrObj):
        return ["err", v.name]
    rid = -1
    for i, o in enumerate(reg):
        if o is v:
            rid = i
            break
    if isinstance(v, R.Arr):
        if d > 4:
            return ["deep"]
        return ["arr", rid, [cv_from_model(e, reg, d + 1) for e in v.items]]
    if isinstance(v, R.Fn):
        return ["fn", rid]
    if isinstance(v, R.Obj):
        if v.rec is not None:
            return ["rec", ["n", P.numkey(float(v.rec[0]))], ["n", P.numkey(float(v.rec[1]))]]
        return ["obj", rid]
    raise TypeError(v)


def model_from_cv(cv, reg, recs=None):
    """Resolve an engine-side canonical value to model objects (fresh objects
    for unregistered identities)."""
    t = cv[0]
    if is_pspec(cv):
        return pvalue(cv)
    if t == "arr":
        if cv[1] >= 0 and cv[1] < len(reg):
            return reg[cv[1]]
        return R.Arr([model_from_cv(e, reg, recs) for e in cv[2]])
    if t in ("obj", "fn"):
        if 0 <= cv[1] < len(reg):
            return reg[cv[1]]
        return R.Obj()
    if t == "rec":
        for o in recs if recs is not None else reg:
            if isinstance(o, R.Obj) and o.rec is not None and cv[1] == ["n", P.numkey(float(o.rec[0]))] and cv[2] == ["n", P.numkey(float(o.rec[1]))]:
                return o
        return R.Obj()
    return R.Obj()


# -------------------------------------------------------------- callback pool
# name -> (kind, JS body, mutating?, throwing?)     kind: iter | red | cmp
CALLBACKS = {
    "ident": ("iter", "return v;", False, False),
    "gt1": ("iter", "return typeof v === 'number' && v > 1;", False, False),
    "odd": ("iter", "return i % 2 ? 'yes' : 0;", False, False),
    "objy": ("iter", "return i === 0 ? null : T;", False, False),
    "noret": ("iter", "", False, False),
    "pusher": ("iter", "if (arr.length < 7) arr.push('p'); return v;", True, False),
    "popper": ("iter", "arr.pop(); return i < 1;", True, False),
    "setnext": ("iter", "if (i + 1 < arr.length) arr[i + 1] = 'z'; return v;", True, False),
    "splicer": ("iter", "if (i === 0) arr.splice(0, 1); return v;", True, False),
    "trunc": ("iter", "arr.length = 1; return true;", True, False),
    "trunc0": ("iter", "arr.length = 0; return false;", True, False),
    "shifter": ("iter", "if (arr.length > 1) arr.shift(); return i > 1;", True, False),
    "throw1": ("iter", "if (i === 1) throw new RangeError('boom'); return v;", False, True),
    "throwp": ("iter", "throw 7;", False, True),
    "rsum": ("red", "return (typeof acc === 'number' ? acc : 0) * 10 + i + (typeof v === 'number' && v === v ? v : 0.5);", False, False),
    "racc": ("red", "return acc;", False, False),
    "rundef": ("red", "", False, False),
    "rpop": ("red", "arr.pop(); return v;", True, False),
    "rpush": ("red", "if (arr.length < 7) arr.push(i); return i;", True, False),
    "rthrow": ("red", "if (i === 1) throw new TypeError('t'); return acc;", False, True),
    # the callback removes elements that are still to come (upward) / leaves only lower ones (downward)
    "rtrunc": ("red", "arr.length = 1; return i;", True, False),
    "rsplice": ("red", "if (arr.length > 2) arr.splice(1, 2); return i;", True, False),
    "rshift": ("red", "if (arr.length > 1) arr.shift(); return (typeof acc === 'number' ? acc : 0) + i;", True, False),
    "cnum": ("cmp", "var p = key(x), q = key(y); return p < q ? -1 : (p > q ? 1 : 0);", False, False),
    "cdesc": ("cmp", "var p = key(x), q = key(y); return p < q ? 1 : (p > q ? -1 : 0);", False, False),
    "cfrac": ("cmp", "return (key(x) - key(y)) / 4;", False, False),
    "csub": ("cmp", "return x - y;", False, False),
    "czero": ("cmp", "return 0;", False, False),
    "cneg": ("cmp", "return -1;", False, False),
    "cbool": ("cmp", "return key(x) > key(y);", False, False),
    "cstr": ("cmp", "var p = key(x), q = key(y); return p < q ? '-1' : (p > q ? '1' : '0');", False, False),
    "cnan": ("cmp", "return NaN;", False, False),
    "cundef": ("cmp", "", False, False),
    "cinf": ("cmp", "var p = key(x), q = key(y); return p < q ? -Infinity : (p > q ? Infinity : 0);", False, False),
    "ctable": ("cmp", "return ((key(x) * 7 + key(y) * 3) % 5) - 2;", False, False),
    "cthrow": ("cmp", "throw new TypeError('c');", False, True),
    "cpush": ("cmp", "if (log.length === 1) a.push('q'); var p = key(x), q = key(y); return p < q ? -1 : (p > q ? 1 : 0);", True, False),
}

ITER_LOG = "log.push([enc(reg, v, 0), enc(reg, i, 0), arr === a, enc(reg, this, 0)]);"
RED_LOG = "log.push([enc(reg, acc, 0), enc(reg, v, 0), enc(reg, i, 0), arr === a, enc(reg, this, 0)]);"
CMP_LOG = "log.push([enc(reg, x, 0), enc(reg, y, 0), false, enc(reg, this, 0)]);"


def callback_js(name):
    kind, body, _, _ = CALLBACKS[name]
    if kind == "iter":
        return "function(v, i, arr) { %s %s }" % (ITER_LOG, body)
    if kind == "red":
        return "function(acc, v, i, arr) { %s %s }" % (RED_LOG, body)
    return "function(x, y) { %s %s }" % (CMP_LOG, body)


def _p3(args, n):
    return (list(args) + [UNDEF] * n)[:n]


def callback_model(name, ctx, logging=True):
    """Model twin of the pool callback `name`; ctx: CaseCtx."""
    kind = CALLBACKS[name][0]

    def enc(v):
        return cv_from_model(v, ctx.reg)

    def is_num(v):
        return isinstance(v, float)

    def py_iter(env, this, args):
        v, i, arr = _p3(args, 3)
        if logging:
            ctx.log.append([enc(v), enc(i), arr is ctx.a, enc(this)])
        if name == "ident":
            return v
        if name == "gt1":
            return is_num(v) and v > 1
        if name == "odd":
            return "yes" if P.js_mod(i, 2.0) else 0.0
        if name == "objy":
            return None if i == 0 else ctx.T
        if name == "noret":
            return UNDEF
        if name == "pusher":
            if len(arr.items) < 7:
                arr.items.append("p")
            return v
        if name == "popper":
            if arr.items:
                arr.items.pop()
            return i < 1
        if name == "setnext":
            if i + 1 < len(arr.items):
                arr.items[int(i) + 1] = "z"
            return v
        if name == "splicer":
            if i == 0:
                del arr.items[0:1]
            return v
        if name == "trunc":
            R.length_write(arr, 1.0)
            return True
        if name == "trunc0":
            R.length_write(arr, 0.0)
            return False
        if name == "shifter":
            if len(arr.items) > 1:
                del arr.items[0:1]
            return i > 1
        if name == "throw1":
            if i == 1:
                raise R.Throw(R.ErrObj("RangeError"))
            return v
        if name == "throwp":
            raise R.Throw(7.0)
        raise KeyError(name)

    def py_red(env, this, args):
        acc, v, i, arr = _p3(args, 4)
        if logging:
            ctx.log.append([enc(acc), enc(v), enc(i), arr is ctx.a, enc(this)])
        if name == "rsum":
            return (acc if is_num(acc) else 0.0) * 10.0 + i + (v if (is_num(v) and v == v) else 0.5)
        if name == "racc":
            return acc
        if name == "rundef":
            return UNDEF
        if name == "rpop":
            if arr.items:
                arr.items.pop()
            return v
        if name == "rpush":
            if len(arr.items) < 7:
                arr.items.append(i)
            return i
        if name == "rthrow":
            if i == 1:
                raise R.Throw(R.ErrObj("TypeError"))
            return acc
        if name == "rtrunc":
            R.length_write(arr, 1.0)
            return i
        if name == "rsplice":
            if len(arr.items) > 2:
                del arr.items[1:3]
            return i
        if name == "rshift":
            if len(arr.items) > 1:
                del arr.items[0:1]
            return (acc if is_num(acc) else 0.0) + i
        raise KeyError(name)

    calls = [0]

    def py_cmp(env, this, args):
        x, y = _p3(args, 2)
        calls[0] += 1
        if logging:
            ctx.log.append([enc(x), enc(y), False, enc(this)])
        p, q = model_key(x), model_key(y)
        if name == "cpush":
            if calls[0] == 1:
                ctx.a.items.append("q")
            return -1.0 if p < q else (1.0 if p > q else 0.0)
        if name == "cnum":
            return -1.0 if p < q else (1.0 if p > q else 0.0)
        if name == "cdesc":
            return 1.0 if p < q else (-1.0 if p > q else 0.0)
        if name == "cfrac":
            return (p - q) / 4.0
        if name == "csub":
            return R.to_number(x) - R.to_number(y)
        if name == "czero":
            return 0.0
        if name == "cneg":
            return -1.0
        if name == "cbool":
            return p > q
        if name == "cstr":
            return "-1" if p < q else ("1" if p > q else "0")
        if name == "cnan":
            return math.nan
        if name == "cundef":
            return UNDEF
        if name == "cinf":
            return -math.inf if p < q else (math.inf if p > q else 0.0)
        if name == "ctable":
            return P.js_mod(p * 7.0 + q * 3.0, 5.0) - 2.0
        if name == "cthrow":
            raise R.Throw(R.ErrObj("TypeError"))
        raise KeyError(name)

    return R.Fn({"iter": py_iter, "red": py_red, "cmp": py_cmp}[kind], name)


# --------------------------------------------------- building a case (a-form)
class CaseCtx:
    """Model objects of one case, in registry order: a, n9, T, then the other
    objects in order of declaration."""

    def __init__(self):
        self.n9 = R.Arr([9.0])
        self.a = R.Arr()
        self.T = R.Obj()
        self.reg = [self.a, self.n9, self.T]
        self.log = []
        self.decls = []  # JS declarations of registered objects


def _js_prim(s):
    return P.js_literal(pvalue(s))


def build_value(s, ctx, js=True, logging=True):
    """Returns (JS expression, model value) of spec s, registering objects."""
    t = s[0]
    if is_pspec(s):
        return _js_prim(s), pvalue(s)
    if t == "n9":
        return "n9", ctx.n9
    if t == "self":
        return "a", ctx.a
    if t == "T":
        return "T", ctx.T
    if t == "cb":
        return "cb", callback_model(s[1], ctx, logging)
    if t == "arr":
        parts = [build_value(x, ctx, js, logging) for x in s[1]]
        m = R.Arr([p[1] for p in parts])
        src = "[" + ", ".join(p[0] for p in parts) + "]"
    elif t == "rec":
        m = R.Obj(rec=(s[1], s[2]))
        src = "{k: %s, id: %s}" % (P.js_literal(float(s[1])), P.js_literal(float(s[2])))
    elif t == "obj":
        m = R.Obj()
        src = "{}"
    elif t == "vo":
        m = R.Obj(value_of=pvalue(s[1]))
        src = "{valueOf: function() { return %s; }}" % _js_prim(s[1])
    elif t == "ts":
        m = R.Obj(to_str=pvalue(s[1]))
        src = "{toString: function() { return %s; }}" % _js_prim(s[1])
    elif t == "fn":
        m = R.Fn(None, "opaque")
        src = "function() {}"
    else:
        raise KeyError(t)
    name = "g%d" % len(ctx.reg)
    ctx.reg.append(m)
    ctx.decls.append("var %s = %s;" % (name, src))
    return name, m


def build_case(case, logging=True):
    """-> (JS source of the case, ctx, model args)."""
    ctx = CaseCtx()
    relems = [build_value(s, ctx, logging=logging) for s in case["recv"]]
    ctx.a.items = [p[1] for p in relems]
    recv_decls, ctx.decls = ctx.decls, []
    args = [build_value(s, ctx, logging=logging) for s in case["args"]]
    cbname = None
    for s in case["args"]:
        if s[0] == "cb":
            cbname = s[1]
    src = [
        "(function() { var n9 = [9];",
        " ".join(recv_decls),
        "var a = [%s]; var T = {t: 1};" % ", ".join(p[0] for p in relems),
        " ".join(ctx.decls),
        "var reg = [a, n9, T%s]; var log = [];" % "".join(", g%d" % i for i in range(3, len(ctx.reg))),
    ]
    if cbname:
        src.append("var cb = %s;" % callback_js(cbname))
    src.append(
        "var res; try { res = ['ok', enc(reg, a.%s(%s), 0)]; } catch (e) { res = ['throw', encErr(reg, e)]; }"
        % (case["m"], ", ".join(p[0] for p in args))
    )
    src.append("OUT.push([res, enc(reg, a, 0), log]); })();")
    return "\n".join(x for x in src if x), ctx, [p[1] for p in args]


def expected_case(case):
    """Model outcome of a case: [res, receiver, log] in canonical form, plus
    the context (for the sort predicate)."""
    _, ctx, margs = build_case(case)
    before = list(ctx.a.items)
    env = R.Env()
    try:
        r = R.call_method(env, case["m"], ctx.a, margs)
        res = ["ok", cv_from_model(r, ctx.reg)]
    except R.Throw as t:
        res = ["throw", cv_from_model(t.value, ctx.reg)]
    return [res, cv_from_model(ctx.a, ctx.reg), ctx.log], ctx, before


def actual_from_raw(entry):
    """One OUT entry as returned by eval -> canonical [res, receiver, log]."""
    try:
        res, recv, log = entry
        out_log = []
        for e in log:
            out_log.append([x if isinstance(x, bool) else cv_from_raw(x) for x in e])
        return [[res[0], cv_from_raw(res[1])], cv_from_raw(recv), out_log]
    except Exception:
        return ["?", repr(entry)[:200]]
