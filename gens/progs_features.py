"""Hand-written feature programs over the IR: exceptions, objects, prototypes,
accessors, `this` by call form, new, call/apply/bind, array callbacks.

They are not a campaign of C05; tools/c05_nodeval.py runs them under node to
validate the parts of oracles/refjs.py that C07 / C08 are going to rely on.
Programs tagged "node-differs" exercise a documented restriction (for-in own
keys only, array write past the end) and are skipped in the node comparison.
"""
from .progs import (
    NULL, THIS, UNDEF, arr, arrow, assign, b_, bin_, block, brk, call, cond, cont, dot, expr, fdecl, fn, for_, forin,
    forof, id_, idx, if_, init, label, log, logic, mcall, new, num, obj, ret, s_, throw, try_, un, upd, var, while_,
)


def _p(name, body, tags=()):
    return {"sub": "features", "id": "features|" + name, "body": body, "tags": sorted(set(("features",) + tuple(tags)))}


def _errinfo(e):
    """[name, typeof message, instanceof Error] of a caught value e (identifier name)."""
    return arr(dot(id_(e), "name"), un("typeof", dot(id_(e), "message")), bin_("instanceof", id_(e), id_("Error")))


def feature_cases():
    e, o, x = id_("e"), id_("o"), id_("x")
    # ---- runtime errors: class of the error object, catchable, order of effects
    sites = {
        "null-prop": dot(NULL, "x"),
        "undef-prop": dot(UNDEF, "x"),
        "null-prop-set": assign(dot(NULL, "x"), num(1)),
        "call-non-function": call(num(5)),
        "call-undefined-method": mcall(obj(), "nope"),
        "new-non-constructor": new(num(5)),
        "new-arrow": new(arrow([], num(1))),
        "unknown-identifier": id_("nope"),
        "instanceof-non-callable": bin_("instanceof", obj(), num(5)),
        "in-non-object": bin_("in", s_("a"), num(5)),
        "reduce-empty": mcall(arr(), "reduce", fn(None, ["a", "b"], [ret(id_("a"))])),
        "callback-not-callable": mcall(arr(num(1)), "map", num(3)),
        "assign-undeclared": assign(id_("nope2"), num(1)),
        "to-primitive-fails": bin_("+", obj(init("valueOf", fn(None, [], [ret(obj())])), init("toString", fn(None, [], [ret(obj())]))), num(1)),
    }
    ctors = ["TypeError", "ReferenceError", "RangeError", "SyntaxError", "Error"]
    for name, site in sites.items():
        body = [
            fdecl("s", ["v"], [log("s", id_("v")), ret(id_("v"))]),
            var("r"),
            try_([expr(assign(id_("r"), arr(call(id_("s"), num(1)), site, call(id_("s"), num(2)))))],
                 ("e", [log("info", _errinfo("e"))] + [log(c, bin_("instanceof", e, id_(c))) for c in ctors]
                  + [log("ctor", bin_("===", dot(e, "constructor"), id_("TypeError")))]), [log("fin", num(0))]),
            expr(un("typeof", id_("r"))),
        ]
        yield _p("rterr-" + name, body, ["runtime-error"])
    # ---- uncaught outcomes
    for name, v in {"num": num(5), "str": s_("boom"), "null": NULL, "undef": UNDEF, "bool": b_(False), "obj": obj(init("a", num(1))),
                    "error": new(id_("Error"), s_("m1")), "typeerror": new(id_("TypeError"), s_("m2")), "rangeerror-call": call(id_("RangeError"), s_("m3")),
                    "error-nomsg": new(id_("Error"))}.items():
        yield _p("uncaught-" + name, [log("a", num(1)), throw(v), log("b", num(2))], ["uncaught"])
    yield _p("uncaught-runtime", [log("a", num(1)), expr(dot(NULL, "x"))], ["uncaught"])
    yield _p("uncaught-from-callback", [expr(mcall(arr(num(1), num(2)), "forEach", fn(None, ["v"], [log("v", id_("v")), if_(bin_("===", id_("v"), num(2)), throw(new(id_("Error"), s_("cb"))))])))], ["uncaught"])
    # ---- finally semantics
    yield _p("finally-return-override", [fdecl("f", [], [try_([ret(num(1))], None, [log("fin", num(0)), ret(num(2))])]), expr(call(id_("f")))])
    yield _p("finally-after-return", [fdecl("f", [], [var(("i", num(0))), try_([ret(id_("i"))], None, [expr(upd("++", id_("i"))), log("fin", id_("i"))])]), expr(call(id_("f")))])
    yield _p("finally-swallows-throw", [fdecl("f", [], [label("L", try_([throw(num(1))], None, [log("fin", num(0)), brk("L")])), ret(num(9))]), expr(call(id_("f")))])
    yield _p("catch-throws-finally-runs", [try_([try_([throw(num(1))], ("e", [log("c", e), throw(num(2))]), [log("fin", num(0))])], ("e", [log("outer", e)]), None), expr(num(0))])
    yield _p("finally-throws-replaces", [try_([try_([throw(num(1))], None, [throw(num(3))])], ("e", [log("outer", e)]), None), expr(num(0))])
    yield _p("nested-finally-order", [fdecl("f", [], [try_([try_([ret(num(1))], None, [log("f1", num(1))])], None, [log("f2", num(2))])]), expr(call(id_("f")))])
    yield _p("throw-through-map-caught", [var("r"), try_([expr(assign(id_("r"), mcall(arr(num(1), num(2), num(3)), "map", fn(None, ["v"], [log("v", id_("v")), if_(bin_("===", id_("v"), num(2)), throw(s_("T"))), ret(id_("v"))]))))],
                                                      ("e", [log("caught", e)]), None), expr(un("typeof", id_("r")))])
    yield _p("throw-in-getter", [var(("o", obj(("get", ("id", "g"), [throw(new(id_("TypeError"), s_("gt")))])))), try_([log("v", dot(o, "g"))], ("e", [log("n", dot(e, "name")), log("m", dot(e, "message"))]), None), expr(num(0))])
    yield _p("throw-in-valueof", [var(("o", obj(init("valueOf", fn(None, [], [log("vo", num(0)), throw(s_("V"))]))))), try_([log("v", bin_("+", num(1), o))], ("e", [log("caught", e)]), None), expr(num(0))])
    yield _p("rethrow", [try_([try_([throw(new(id_("Error"), s_("x")))], ("e", [log("c1", dot(e, "message")), throw(e)]), None)], ("e2", [log("c2", dot(id_("e2"), "message"))]), None), expr(num(0))])
    yield _p("handler-in-returned-function-does-not-catch", [fdecl("mk", [], [try_([ret(fn(None, [], [throw(s_("late"))]))], ("e", [log("wrong", e)]), None)]),
                                                              try_([expr(call(call(id_("mk"))))], ("e", [log("right", e)]), None), expr(num(0))])
    # ---- objects, prototypes, accessors
    proto = obj(init("p", num(1)), ("get", ("id", "g"), [ret(bin_("+", dot(THIS, "own"), num(100)))]), ("set", ("id", "s"), "v", [expr(assign(dot(THIS, "stored"), id_("v")))]),
                ("method", ("id", "m"), ["a"], [ret(bin_("+", dot(THIS, "own"), id_("a")))]))
    base = [var(("proto", proto)), var(("o", call(dot(id_("Object"), "create"), id_("proto")))), expr(assign(dot(o, "own"), num(5)))]
    yield _p("proto-lookup", base + [log("p", dot(o, "p")), log("g", dot(o, "g")), log("m", mcall(o, "m", num(2))), expr(assign(dot(o, "s"), num(7))), log("stored", dot(o, "stored")),
                                     log("own-stored", mcall(o, "hasOwnProperty", s_("stored"))), log("proto-stored", mcall(id_("proto"), "hasOwnProperty", s_("stored"))),
                                     log("in", arr(bin_("in", s_("p"), o), bin_("in", s_("own"), o), bin_("in", s_("zz"), o), bin_("in", s_("g"), o))),
                                     log("hop", arr(mcall(o, "hasOwnProperty", s_("p")), mcall(o, "hasOwnProperty", s_("own")))),
                                     log("keys", mcall(id_("Object"), "keys", o)), log("gpo", bin_("===", mcall(id_("Object"), "getPrototypeOf", o), id_("proto"))),
                                     log("ipo", mcall(id_("proto"), "isPrototypeOf", o)), expr(num(0))], ["prototype", "accessor"])
    yield _p("shadowing-and-delete", base + [expr(assign(dot(o, "p"), num(2))), log("o.p", dot(o, "p")), log("proto.p", dot(id_("proto"), "p")), log("del", ("delete", dot(o, "p"))), log("o.p2", dot(o, "p")),
                                             log("del2", ("delete", dot(o, "p"))), log("o.p3", dot(o, "p")), log("del-missing", ("delete", dot(o, "zz"))), expr(num(0))], ["prototype", "delete"])
    yield _p("forin-own-only", base + [var(("ks", arr())), forin(("vardecl", "k"), o, block(expr(mcall(id_("ks"), "push", id_("k"))))), log("ks", id_("ks")), expr(num(0))], ["node-differs"])
    yield _p("literal-proto", [var(("p", obj(init("a", num(1))))), var(("o", obj(init("__proto__", id_("p")), init("b", num(2))))), log("a", dot(o, "a")), log("keys", mcall(id_("Object"), "keys", o)),
                               log("gpo", bin_("===", mcall(id_("Object"), "getPrototypeOf", o), id_("p"))), var(("n", obj(init("__proto__", NULL)))), log("np", un("typeof", dot(id_("n"), "toString"))), expr(num(0))], ["prototype"])
    yield _p("key-order", [var(("o", obj(init("b", num(1)), init(("num", 2.0), num(2)), init("a", num(3)), init(("num", 1.0), num(4)), init(("str", "x y"), num(5)), init(("computed", bin_("+", s_("k"), num(1))), num(6))))),
                           log("keys", mcall(id_("Object"), "keys", o)), log("vals", mcall(id_("Object"), "values", o)), log("ents", mcall(id_("Object"), "entries", o)),
                           var(("ks", arr())), forin(("vardecl", "k"), o, block(expr(mcall(id_("ks"), "push", id_("k"))))), log("forin", id_("ks")), expr(num(0))], ["key-order"])
    yield _p("define-property", [var(("o", obj(init("a", num(1))))), expr(mcall(id_("Object"), "defineProperty", o, s_("g"), obj(init("get", fn(None, [], [ret(bin_("+", dot(THIS, "a"), num(1)))])), init("enumerable", b_(True))))),
                                 expr(mcall(id_("Object"), "defineProperty", o, s_("h"), obj(init("value", num(9)), init("enumerable", b_(True)), init("writable", b_(True)), init("configurable", b_(True))))),
                                 log("g", dot(o, "g")), log("h", dot(o, "h")), log("keys", mcall(id_("Object"), "keys", o)), expr(num(0))], ["accessor"])
    yield _p("setproto", [var(("a", obj(init("x", num(1))))), var(("b", obj(init("y", num(2))))), log("r", bin_("===", mcall(id_("Object"), "setPrototypeOf", id_("b"), id_("a")), id_("b"))), log("bx", dot(id_("b"), "x")),
                          expr(assign(dot(id_("a"), "x"), num(5))), log("bx2", dot(id_("b"), "x")), try_([expr(mcall(id_("Object"), "setPrototypeOf", id_("a"), id_("b")))], ("e", [log("cyc", dot(e, "name"))]), None), expr(num(0))], ["prototype"])
    yield _p("getter-receiver", [var(("p", obj(("get", ("id", "who"), [ret(dot(THIS, "name"))])))), var(("c", call(dot(id_("Object"), "create"), id_("p")))), expr(assign(dot(id_("c"), "name"), s_("child"))),
                                 expr(assign(dot(id_("p"), "name"), s_("parent"))), log("c", dot(id_("c"), "who")), log("p", dot(id_("p"), "who")), expr(num(0))], ["accessor"])
    yield _p("getter-only-assign-throws", [var(("o", obj(("get", ("id", "g"), [ret(num(1))])))), try_([expr(assign(dot(o, "g"), num(2))), log("no", num(0))], ("e", [log("n", dot(e, "name"))]), None), log("g", dot(o, "g")), expr(num(0))], ["accessor"])
    # ---- this by call form, new, call/apply/bind
    who = fn(None, [], [ret(cond(bin_("===", THIS, UNDEF), s_("undef"), cond(bin_("===", THIS, NULL), s_("null"), cond(bin_("===", un("typeof", THIS), s_("object")), dot(THIS, "tag"), bin_("+", un("typeof", THIS), THIS)))))])
    setup = [var(("who", who)), var(("o", obj(init("tag", s_("O")), init("who", id_("who")), init("arrow", arrow([], un("typeof", THIS)))))), var(("t", obj(init("tag", s_("T")))))]
    yield _p("this-forms", setup + [
        log("plain", call(id_("who"))), log("method", mcall(o, "who")), log("index", call(idx(o, s_("who")))), log("comma", call(("seq", [num(0), dot(o, "who")]))),
        log("call", mcall(id_("who"), "call", id_("t"))), log("call-prim", mcall(id_("who"), "call", num(5))), log("call-str", mcall(id_("who"), "call", s_("s"))), log("call-null", mcall(id_("who"), "call", NULL)),
        log("call-undef", mcall(id_("who"), "call")), log("apply", mcall(id_("who"), "apply", id_("t"), arr())), log("bind", call(mcall(id_("who"), "bind", id_("t")))),
        log("bind-method", mcall(obj(init("tag", s_("X")), init("f", mcall(id_("who"), "bind", id_("t")))), "f")), log("bind-bind", call(mcall(mcall(id_("who"), "bind", id_("t")), "bind", o))),
        log("extracted", call(("seq", [num(0), dot(o, "who")]))), log("cb", mcall(arr(num(1)), "map", id_("who"))), log("cb-thisarg", mcall(arr(num(1)), "map", id_("who"), id_("t"))), expr(num(0))], ["this"])
    yield _p("arrow-this", [fdecl("F", [], [expr(assign(dot(THIS, "tag"), s_("inst"))), expr(assign(dot(THIS, "get"), arrow([], dot(THIS, "tag")))), expr(assign(dot(THIS, "getf"), fn(None, [], [ret(un("typeof", THIS))])))]),
                            var(("i", new(id_("F")))), var(("g", dot(id_("i"), "get"))), var(("gf", dot(id_("i"), "getf"))), log("arrow", call(id_("g"))), log("arrow-call", mcall(id_("g"), "call", obj(init("tag", s_("other"))))),
                            log("fn", call(id_("gf"))), expr(num(0))], ["this", "arrow"])
    yield _p("args-passing", [fdecl("f", ["a", "b"], [ret(arr(id_("a"), id_("b"), dot(id_("arguments"), "length")))]), log("call", mcall(id_("f"), "call", NULL, num(1), num(2), num(3))), log("apply", mcall(id_("f"), "apply", NULL, arr(num(4), num(5)))),
                              log("apply-none", mcall(id_("f"), "apply", NULL)), log("bind", call(mcall(id_("f"), "bind", NULL, num(7)), num(8), num(9))), log("len", arr(dot(id_("f"), "length"), dot(mcall(id_("f"), "bind", NULL, num(1)), "length"))),
                              log("name", arr(dot(id_("f"), "name"), dot(mcall(id_("f"), "bind", NULL), "name"))), expr(num(0))], ["call-apply-bind"])
    yield _p("new-forms", [fdecl("P", ["v"], [expr(assign(dot(THIS, "v"), id_("v")))]), expr(assign(dot(dot(id_("P"), "prototype"), "get"), fn(None, [], [ret(dot(THIS, "v"))]))),
                           fdecl("RO", [], [expr(assign(dot(THIS, "a"), num(1))), ret(obj(init("b", num(2))))]), fdecl("RP", [], [expr(assign(dot(THIS, "a"), num(1))), ret(num(5))]),
                           var(("p", new(id_("P"), num(3)))), log("get", mcall(id_("p"), "get")), log("inst", arr(bin_("instanceof", id_("p"), id_("P")), bin_("instanceof", id_("p"), id_("Object")), bin_("instanceof", obj(), id_("P")))),
                           log("ctor", bin_("===", dot(id_("p"), "constructor"), id_("P"))), log("ro", mcall(id_("Object"), "keys", new(id_("RO")))), log("rp", mcall(id_("Object"), "keys", new(id_("RP")))),
                           log("ro-inst", bin_("instanceof", new(id_("RO")), id_("RO"))), log("plain-call", un("typeof", mcall(id_("P"), "call", obj(), num(1)))), log("bound-new", dot(new(mcall(id_("P"), "bind", obj(init("x", num(1))), num(8))), "v")),
                           log("keys", mcall(id_("Object"), "keys", id_("p"))), expr(num(0))], ["new"])
    yield _p("proto-reassign", [fdecl("A", [], []), expr(assign(dot(id_("A"), "prototype"), obj(init("hi", fn(None, [], [ret(s_("hi"))]))))), var(("a", new(id_("A")))), log("hi", mcall(id_("a"), "hi")),
                                log("inst", bin_("instanceof", id_("a"), id_("A"))), fdecl("B", [], []), expr(assign(dot(id_("B"), "prototype"), call(dot(id_("Object"), "create"), dot(id_("A"), "prototype")))),
                                log("chain", arr(bin_("instanceof", new(id_("B")), id_("A")), mcall(new(id_("B")), "hi"))), expr(num(0))], ["prototype", "new"])
    yield _p("function-props", [fdecl("f", [], []), expr(assign(dot(id_("f"), "count"), num(1))), expr(upd("++", dot(id_("f"), "count"))), log("count", dot(id_("f"), "count")), log("typeof", un("typeof", id_("f"))),
                                var(("g", fn(None, ["a", "b"], []))), log("names", arr(dot(id_("f"), "name"), dot(id_("g"), "name"), dot(fn("nm", [], []), "name"), dot(arrow([], num(1)), "name"))),
                                log("len", arr(dot(id_("f"), "length"), dot(id_("g"), "length"))), expr(num(0))], ["function-object"])
    # ---- array callbacks
    a123 = arr(num(1), num(2), num(3))
    yield _p("callbacks", [var(("a", a123)), log("map", mcall(id_("a"), "map", fn(None, ["v", "i", "arr_"], [ret(arr(id_("v"), id_("i"), bin_("===", id_("arr_"), id_("a"))))]))),
                           log("filter", mcall(id_("a"), "filter", fn(None, ["v"], [ret(bin_(">", id_("v"), num(1)))]))), log("reduce", mcall(id_("a"), "reduce", fn(None, ["s", "v", "i"], [log("rv", arr(id_("s"), id_("v"), id_("i"))), ret(bin_("+", id_("s"), id_("v")))]))),
                           log("reduceRight", mcall(id_("a"), "reduceRight", fn(None, ["s", "v"], [ret(bin_("+", bin_("*", id_("s"), num(10)), id_("v")))]), num(0))), log("some", mcall(id_("a"), "some", fn(None, ["v"], [log("sv", id_("v")), ret(bin_("===", id_("v"), num(2)))]))),
                           log("every", mcall(id_("a"), "every", fn(None, ["v"], [log("ev", id_("v")), ret(bin_("<", id_("v"), num(2)))]))), log("find", mcall(id_("a"), "find", fn(None, ["v"], [ret(bin_(">", id_("v"), num(1)))]))),
                           log("findIndex", mcall(id_("a"), "findIndex", fn(None, ["v"], [ret(bin_(">", id_("v"), num(5)))]))), log("sort", mcall(arr(num(3), num(1), num(2)), "sort", fn(None, ["p", "q"], [ret(bin_("-", id_("q"), id_("p")))]))),
                           log("sort-default", mcall(arr(num(10), num(9), num(1)), "sort")), log("forEach", mcall(id_("a"), "forEach", fn(None, ["v"], [log("fe", id_("v"))]))), expr(num(0))], ["callbacks"])
    yield _p("array-methods", [var(("a", arr(num(1), num(2)))), log("push", mcall(id_("a"), "push", num(3), num(4))), log("pop", mcall(id_("a"), "pop")), log("shift", mcall(id_("a"), "shift")), log("unshift", mcall(id_("a"), "unshift", num(9))), log("a", id_("a")),
                               log("slice", mcall(id_("a"), "slice", num(1))), log("slice-neg", mcall(id_("a"), "slice", num(-2), num(-1))), log("splice", mcall(id_("a"), "splice", num(1), num(1), s_("x"), s_("y"))), log("a2", id_("a")),
                               log("concat", mcall(id_("a"), "concat", arr(num(7)), num(8))), log("join", mcall(id_("a"), "join", s_("-"))), log("indexOf", arr(mcall(id_("a"), "indexOf", s_("y")), mcall(id_("a"), "indexOf", num(100)))),
                               log("len", dot(id_("a"), "length")), log("isArray", arr(mcall(id_("Array"), "isArray", id_("a")), mcall(id_("Array"), "isArray", obj()))), log("str", bin_("+", s_(""), arr(num(1), arr(num(2), num(3))))), log("json", mcall(id_("JSON"), "stringify", obj(init("a", arr(num(1), s_("s"), NULL, b_(True))), init("b", obj(init("c", num(1.5))))))),
                               expr(num(0))], ["array"])
    yield _p("array-write-past-end", [var(("a", arr(num(1)))), try_([expr(assign(idx(id_("a"), num(5)), num(1))), log("no", num(0))], ("e", [log("threw", un("typeof", dot(e, "message")))]), None), log("len", dot(id_("a"), "length")), expr(num(0))], ["node-differs"])
    yield _p("array-append-and-length", [var(("a", arr(num(1)))), expr(assign(idx(id_("a"), num(1)), num(2))), expr(assign(idx(id_("a"), dot(id_("a"), "length")), num(3))), log("a", id_("a")), expr(assign(dot(id_("a"), "length"), num(1))), log("a2", id_("a")), expr(num(0))], ["array"])
    # ---- conversions through valueOf / toString
    yield _p("to-primitive", [var(("o", obj(init("valueOf", fn(None, [], [log("vo", num(0)), ret(num(7))])), init("toString", fn(None, [], [log("ts", num(0)), ret(s_("S"))]))))), log("plus", bin_("+", o, num(1))), log("str", bin_("+", s_(""), o)), log("String", call(id_("String"), o)),
                              log("lt", bin_("<", o, num(8))), log("eq", bin_("==", o, num(7))), log("seq", bin_("===", o, num(7))), log("neg", un("-", o)), log("key", idx(obj(init("S", num(1))), o)), log("tpl", bin_("+", arr(num(1), num(2)), obj())), expr(num(0))], ["conversion"])
    # ---- typeof / in / instanceof / delete results
    yield _p("typeof-table", [log("t", arr(un("typeof", UNDEF), un("typeof", NULL), un("typeof", num(1)), un("typeof", s_("s")), un("typeof", b_(True)), un("typeof", obj()), un("typeof", arr()), un("typeof", fn(None, [], [])), un("typeof", arrow([], num(1))),
                                           un("typeof", id_("undeclared")), un("typeof", id_("Object")), un("typeof", dot(id_("Math"), "floor")), un("typeof", new(id_("Error"))))), expr(num(0))], ["typeof"])
