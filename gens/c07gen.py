"""Generators of C07 programs (exceptions, unwinding, finally) over the IR of gens/progs.py.

A program is built from a JSON-able recipe (`build(desc)`), three orthogonal choices:

  site       where the exception originates (SITES: throw statement with every kind of
             value, runtime errors of the VM, raising built-ins, callbacks run by built-ins,
             accessors, valueOf/toString in every conversion context, call/apply/bind/new,
             nested eval / Function)
  placement  where the nearest handler is relative to the site (PLACEMENTS: same function,
             caller, caller's caller, across one / two native frames, native + script frames,
             a function that already returned; `outer` = "catch" | "none" (uncaught))
  shape      the try statement(s) of the handler function H: kind C / F / CF nested up to 3
             deep, the throwing statement in the try / catch / finally block of the innermost
             one, exit of every catch and finally block in EXITS; the throwing expression sits
             in expression context `x` with `p` pending operands

Campaigns (all deterministic enumerations, `random_descs` is the seeded beyond):
  sites_product()     every site x every placement x 3 basic shapes
  shapes_product()    every depth-1 shape x every placement x 4 representative sites
  shapes2_product()   depth-2 shapes: inner 71 shapes x outer variants x inner position
  uncaught_cases()    every thrown value / runtime error x placements, no handler at all
  errobj_cases()      every runtime-error site, handler logs the class facts of the error object
  location_cases()    throw statements / runtime errors whose position is asserted (engine only)
  random_descs()      random site x placement x shape (depth <= 3) x context

Sites the reference interpreter does not model natively (built-ins outside oracles/refjs_builtins.py,
eval) are written in the IR as calls of `$x_<name>()` / `$cb_<name>(f)`: oracles/refjs_c07.py gives these
names a native that raises what TEXT_SITES records (validated against node), and `to_source()` replaces
the call by the JavaScript text before the program is handed to the engine.
"""
import random

from .progs import (  # noqa: F401
    NULL, THIS, UNDEF, arr, assign, b_, bin_, block, brk, call, cond, cont, dot, dowhile, expr, fdecl, fn, for_,
    forin, forof, id_, idx, if_, init, label, log, logic, mcall, new, num, obj, ret, s_, seq, switch, throw, to_js,
    try_, un, upd, var, while_, Layout,
)

# ===================================================================== text sites
# name -> (JavaScript text, what it does in the reference)
#   ("error", Ctor)        raises a fresh error object of that constructor (message implementation-defined)
#   ("prim", ir-literal)   throws that primitive
#   ("callglobal", name)   calls the global function `name` with no arguments (which throws)
#   ("callglobal-logged", name, tag)   the same; when it throws, log(tag, 0) happens before the throw goes on
# The constructors were recorded from node v20 (golden/c07_raisers.json, tools/c07_nodeval.py).
TEXT_SITES = {
    "repeat_neg": ('"a".repeat(-1)', ("error", "RangeError")),
    "repeat_inf": ('"a".repeat(Infinity)', ("error", "RangeError")),
    "tofixed_101": ("(1).toFixed(101)", ("error", "RangeError")),
    "tofixed_neg": ("(1).toFixed(-1)", ("error", "RangeError")),
    "toprecision_0": ("(1).toPrecision(0)", ("error", "RangeError")),
    "toprecision_101": ("(1).toPrecision(101)", ("error", "RangeError")),
    "toexponential_101": ("(1).toExponential(101)", ("error", "RangeError")),
    "tostring_radix_1": ("(1).toString(1)", ("error", "RangeError")),
    "tostring_radix_37": ("(255).toString(37)", ("error", "RangeError")),
    "regexp_paren": ('new RegExp("(")', ("error", "SyntaxError")),
    "regexp_bracket": ('new RegExp("[")', ("error", "SyntaxError")),
    "regexp_star": ('RegExp("*")', ("error", "SyntaxError")),
    "regexp_flags": ('new RegExp("a", "zz")', ("error", "SyntaxError")),
    "json_parse_brace": ('JSON.parse("{")', ("error", "SyntaxError")),
    "json_parse_empty": ('JSON.parse("")', ("error", "SyntaxError")),
    "json_parse_trailing": ('JSON.parse("[1,]")', ("error", "SyntaxError")),
    "json_parse_undefined": ("JSON.parse()", ("error", "SyntaxError")),
    "array_neg": ("new Array(-1)", ("error", "RangeError")),
    "array_frac": ("Array(1.5)", ("error", "RangeError")),
    "arraybuffer_neg": ("new ArrayBuffer(-1)", ("error", "RangeError")),
    "int32array_neg": ("new Int32Array(-1)", ("error", "RangeError")),
    "int32array_misaligned": ("new Int32Array(new ArrayBuffer(3))", ("error", "RangeError")),
    "typed_set_offset": ("new Uint8Array(2).set([1, 2, 3])", ("error", "RangeError")),
    "replaceall_nonglobal": ('"aba".replaceAll(/b/, "x")', ("error", "TypeError")),
    "decodeuri": ('decodeURIComponent("%")', ("error", "URIError")),
    "object_create_prim": ("Object.create(5)", ("error", "TypeError")),
    "object_setproto_prim": ("Object.setPrototypeOf({}, 5)", ("error", "TypeError")),
    "object_keys_null": ("Object.keys(null)", ("error", "TypeError")),
    "defprop_getter_num": ('Object.defineProperty({}, "x", {get: 5})', ("error", "TypeError")),
    "defprop_nonobject": ('Object.defineProperty(5, "x", {value: 1})', ("error", "TypeError")),
    "json_stringify_cycle": ("(function () { var c = {}; c.c = c; return JSON.stringify(c); })()", ("error", "TypeError")),
    "new_arrow": ("new (() => 1)()", ("error", "TypeError")),
    "forof_number": ("(function () { for (var q of 5) { } })()", ("error", "TypeError")),
    "date_invalid_iso": ("new Date(NaN).toISOString()", ("error", "RangeError")),
    "fromcodepoint_neg": ("String.fromCodePoint(-1)", ("error", "RangeError")),
    "normalize_bad": ('"a".normalize("bad")', ("error", "RangeError")),
    "string_method_on_null": ("String.prototype.trim.call(null)", ("error", "TypeError")),
    "array_method_on_undefined": ("Array.prototype.push.call(undefined, 1)", ("error", "TypeError")),
    "number_method_on_string": ('Number.prototype.toFixed.call("x")', ("error", "TypeError")),
    # nested evaluation
    "eval_throw_num": ('eval("throw 5")', ("prim", ("num", 5.0))),
    "eval_throw_str": ("eval(\"throw 'ev'\")", ("prim", ("str", "ev"))),
    "eval_null_prop": ('eval("null.x")', ("error", "TypeError")),
    "eval_unknown": ('eval("nope7")', ("error", "ReferenceError")),
    "eval_syntax": ('eval("(")', ("error", "SyntaxError")),
    "eval_call_th": ('eval("th()")', ("callglobal", "th")),
    "eval_expr_call_th": ('eval("1 + th()")', ("callglobal", "th")),
    "eval_eval_call_th": ("eval(\"eval('th()')\")", ("callglobal", "th")),
    "eval_try_finally_th": ('eval("try { th() } finally { }")', ("callglobal", "th")),
    "eval_catch_rethrow": ("eval(\"try { th() } catch (e) { log('ev', 0); throw e; }\")", ("callglobal-logged", "th", "ev")),
    "eval_tojson_catch": ("eval(\"try { JSON.stringify({toJSON: th}) } catch (e) { log('ev', 0); throw e; }\")", ("callglobal-logged", "th", "ev")),
    "eval_sort_catch": ("eval(\"try { [2, 1].sort(th) } catch (e) { log('ev', 0); throw e; }\")", ("callglobal-logged", "th", "ev")),
    "eval_valueof_catch": ("eval(\"try { 1 + {valueOf: th} } catch (e) { log('ev', 0); throw e; }\")", ("callglobal-logged", "th", "ev")),
    "eval_foreach_finally": ("eval(\"try { [1].forEach(th) } finally { log('ev', 0); }\")", ("callglobal-logged", "th", "ev")),
    "function_call_th": ('new Function("return th()")()', ("callglobal", "th")),
    "function_throw_num": ('Function("throw 5")()', ("prim", ("num", 5.0))),
    "function_syntax": ('new Function("(")', ("error", "SyntaxError")),
}

# callback-taking built-ins outside the reference's built-ins: name -> (prefix, suffix); the IR call
# `$cb_<name>(f)` prints as prefix + f + suffix; the reference calls f once without arguments
TEXT_CALLBACKS = {
    "replace_regex": ('"abc".replace(/b/, ', ")"),
    "replace_string": ('"abc".replace("b", ', ")"),
    "replaceall_string": ('"abcb".replaceAll("b", ', ")"),
    "replace_global": ('"abcb".replace(/b/g, ', ")"),
    "stringify_replacer": ("JSON.stringify({a: 1}, ", ")"),
    "stringify_tojson": ("JSON.stringify({toJSON: ", "})"),
    "stringify_nested_tojson": ("JSON.stringify([1, {k: {toJSON: ", "}}])"),
    "parse_reviver": ('JSON.parse("[1]", ', ")"),
    "array_from_map": ("Array.from([1, 2], ", ")"),
    "flatmap": ("[1, 2].flatMap(", ")"),
    "findlast": ("[1, 2].findLast(", ")"),
    "typed_foreach": ("new Int32Array(2).forEach(", ")"),
    "typed_map": ("new Uint8Array(2).map(", ")"),
    "defprop_getter_read": ('Object.defineProperty({}, "g", {get: ', "}).g"),
    "object_create_getter": ("Object.create({}, {g: {get: ", "}}).g"),
}


# built-ins that may be absent altogether: name -> expression that is "function" when present
TEXT_SITE_EXISTS = {
    "decodeuri": "typeof decodeURIComponent",
    "normalize_bad": 'typeof "a".normalize',
    "fromcodepoint_neg": "typeof String.fromCodePoint",
    "date_invalid_iso": "typeof new Date(0).toISOString",
    "typed_set_offset": "typeof new Uint8Array(2).set",
    "replaceall_nonglobal": 'typeof "a".replaceAll',
    "toprecision_0": "typeof (1).toPrecision",
    "toprecision_101": "typeof (1).toPrecision",
    "toexponential_101": "typeof (1).toExponential",
    "arraybuffer_neg": "typeof ArrayBuffer",
    "int32array_neg": "typeof Int32Array",
    "int32array_misaligned": "typeof Int32Array",
}


def text_site_name(ident):
    """'$x_foo' -> ('x', 'foo'); None for other identifiers."""
    if ident.startswith("$x_"):
        return ("x", ident[3:])
    if ident.startswith("$cb_"):
        return ("cb", ident[4:])
    return None


def _skip_string(src, i):
    q = src[i]
    i += 1
    while i < len(src) and src[i] != q:
        i += 2 if src[i] == "\\" else 1
    return i + 1


def _match_paren(src, i):
    """src[i] == '(' -> index of the matching ')' (string literals skipped)."""
    depth = 0
    n = len(src)
    while i < n:
        ch = src[i]
        if ch in "\"'":
            i = _skip_string(src, i)
            continue
        if ch == "(":
            depth += 1
        elif ch == ")":
            depth -= 1
            if depth == 0:
                return i
        i += 1
    raise ValueError("unbalanced parenthesis")


def substitute(src, dyn=None):
    """Replace `$x_name()` / `$cb_name(f)` by their JavaScript text (dyn: text of `$x_dyn()`)."""
    out = []
    i = 0
    n = len(src)
    while i < n:
        ch = src[i]
        if ch in "\"'":
            j = _skip_string(src, i)
            out.append(src[i:j])
            i = j
            continue
        if ch == "$" and (src.startswith("$x_", i) or src.startswith("$cb_", i)):
            j = i + 1
            while j < n and (src[j].isalnum() or src[j] == "_"):
                j += 1
            kind, name = text_site_name(src[i:j])
            assert src[j] == "(", src[i:j + 5]
            close = _match_paren(src, j)
            if kind == "x":
                assert close == j + 1
                out.append("(" + (dyn if name == "dyn" else TEXT_SITES[name][0]) + ")")
            else:
                pre, suf = TEXT_CALLBACKS[name]
                out.append("(" + pre + substitute(src[j + 1:close], dyn) + suf + ")")
            i = close + 1
            continue
        out.append(ch)
        i += 1
    return "".join(out)


def to_source(prog, layout=None):
    """JavaScript text of a C07 program as the engine (or node) gets it."""
    dyn = prog.get("desc", {}).get("text") if isinstance(prog, dict) else None
    return substitute(to_js(prog, layout), dyn)


# ======================================================================== prelude
ERROR_CTORS = ["TypeError", "ReferenceError", "RangeError", "SyntaxError", "EvalError", "URIError", "Error"]


def _is_objectish(v):
    return logic("||", bin_("===", un("typeof", v), s_("function")),
                 logic("&&", bin_("===", un("typeof", v), s_("object")), bin_("!==", v, NULL)))


def prelude():
    """s(x): logging operand; R(v, isError): register a thrown object; T(v): loggable identity of a
    caught value (primitives themselves; registered objects by index + own keys / name + message; other
    objects, i.e. errors made by the engine, by name and typeof message)."""
    v = id_("v")
    k = id_("k")
    return [
        fdecl("s", ["x"], [log("s", id_("x")), ret(id_("x"))]),
        var(("REG", arr()), ("REGK", arr())),
        fdecl("R", ["v", "iserr"], [expr(mcall(id_("REG"), "push", v)), expr(mcall(id_("REGK"), "push", id_("iserr"))), ret(v)]),
        fdecl("T", ["v"], [
            if_(_is_objectish(v), block(
                var(("k", mcall(id_("REG"), "indexOf", v))),
                if_(bin_("<", k, num(0)),
                    ret(arr(s_("rt"), cond(bin_("===", un("typeof", dot(v, "name")), s_("string")), dot(v, "name"), s_("?")), un("typeof", dot(v, "message"))))),
                if_(idx(id_("REGK"), k), ret(arr(s_("err"), k, dot(v, "name"), dot(v, "message")))),
                if_(mcall(id_("Array"), "isArray", v), ret(arr(s_("arr"), k, dot(v, "length")))),
                if_(bin_("===", un("typeof", v), s_("function")), ret(arr(s_("fun"), k))),
                ret(arr(s_("obj"), k, mcall(mcall(id_("Object"), "keys", v), "join"))),
            )),
            ret(v),
        ]),
    ]


def errinfo_fn():
    """CI(v) -> class facts of an error object (DESIGN C07 oracle for runtime errors caught in script)."""
    v = id_("v")
    i = id_("i")
    cs = arr(*[id_(c) for c in ERROR_CTORS])
    ns = arr(*[s_(c) for c in ERROR_CTORS])
    return fdecl("CI", ["v"], [
        var(("cs", cs), ("ns", ns), ("which", s_("none")), "i"),
        for_(assign(i, num(0)), bin_("<", i, dot(id_("cs"), "length")), upd("++", i), block(
            if_(logic("&&", bin_("instanceof", v, idx(id_("cs"), i)), bin_("===", dot(v, "constructor"), idx(id_("cs"), i))),
                block(expr(assign(id_("which"), idx(id_("ns"), i))), brk())))),
        ret(arr(id_("which"), dot(v, "name"), bin_("instanceof", v, id_("Error")), un("typeof", dot(v, "message")),
                bin_("!==", dot(v, "message"), s_("")),
                bin_("===", mcall(id_("Object"), "getPrototypeOf", v), dot(dot(v, "constructor"), "prototype")))),
    ])


# ========================================================================== values
# thrown values of `throw` statements: name -> (expression, kind)
def _reg(e, iserr):
    return call(id_("R"), e, b_(iserr))


VALUES = {
    "num": (num(5), "prim"),
    "negzero": (num(-0.0), "prim"),
    "nan": (id_("NaN"), "prim"),
    "str": (s_("boom"), "prim"),
    "empty": (s_(""), "prim"),
    "null": (NULL, "prim"),
    "undef": (UNDEF, "prim"),
    "true": (b_(True), "prim"),
    "false": (b_(False), "prim"),
    "obj": (_reg(obj(init("tag", num(1))), False), "object"),
    "arrv": (_reg(arr(num(1), num(2)), False), "object"),
    "objmsg": (_reg(obj(init("name", s_("Custom")), init("message", s_("cm"))), False), "object"),
    "fnv": (_reg(id_("s"), False), "object"),
    "error": (_reg(new(id_("Error"), s_("m1")), True), "error"),
    "typeerror": (_reg(new(id_("TypeError"), s_("m2")), True), "error"),
    "rangeerror_call": (_reg(call(id_("RangeError"), s_("m3")), True), "error"),
    "error_nomsg": (_reg(new(id_("Error")), True), "error"),
    "syntaxerror": (_reg(new(id_("SyntaxError"), s_("m4")), True), "error"),
    "referenceerror": (_reg(new(id_("ReferenceError"), s_("m5")), True), "error"),
    "myerr": (_reg(new(id_("MyErr"), s_("m6")), True), "error"),
    "error_renamed": (_reg(call(id_("renamed"), new(id_("TypeError"), s_("m7"))), True), "error"),
}
_MYERR = [
    fdecl("MyErr", ["m"], [expr(assign(dot(THIS, "message"), id_("m")))]),
    expr(mcall(id_("Object"), "setPrototypeOf", dot(id_("MyErr"), "prototype"), dot(id_("Error"), "prototype"))),
    expr(assign(dot(dot(id_("MyErr"), "prototype"), "name"), s_("MyErr"))),
]
_RENAMED = [fdecl("renamed", ["e"], [expr(assign(dot(id_("e"), "name"), s_("Renamed"))), ret(id_("e"))])]


def _value_setup(vname):
    if vname == "myerr":
        return list(_MYERR)
    if vname == "error_renamed":
        return list(_RENAMED)
    return []


# =========================================================================== sites
# A site is {"setup": [stmts at program level], "e": throwing expression | None, "stmt": throwing
# statement | None, "kind": "throw" | "runtime" | "builtin" | "callback" | "accessor" | "conversion" |
# "callform" | "eval", "ctor": expected constructor for runtime errors, "tags": [...]}
def _thrower(vname, fname="th"):
    v, _ = VALUES[vname]
    return _value_setup(vname) + [fdecl(fname, [], [log(fname, num(0)), throw(v), log("th-after", num(0))])]


def _site(kind, e, setup=(), ctor=None, tags=(), stmt=None, node_differs=False):
    return {"kind": kind, "e": e, "setup": list(setup), "ctor": ctor, "tags": list(tags), "stmt": stmt, "node_differs": node_differs}


CALLBACK_METHODS = ["forEach", "map", "filter", "some", "every", "find", "findIndex", "reduce", "reduce-init", "reduceRight", "sort", "sort2"]


def _callback_fn(method, at, value_e):
    """function run by Array.prototype.<method> that throws at its `at`-th invocation (0-based)."""
    if method in ("sort", "sort2"):
        return fn(None, ["a", "b"], [
            expr(upd("++", id_("ncb"))), log("cmp", id_("ncb")),
            if_(bin_("===", id_("ncb"), num(1 if method == "sort" else 2)), throw(value_e)),
            ret(bin_("-", id_("a"), id_("b"))),
        ])
    params = ["acc", "v", "i"] if method.startswith("reduce") else ["v", "i"]
    keep = {"some": b_(False), "every": b_(True), "find": b_(False), "findIndex": b_(False), "filter": b_(True)}.get(method, id_("v"))
    body = [log("cb", id_("v")), expr(upd("++", id_("ncb"))), if_(bin_("===", id_("ncb"), num(at + 1)), throw(value_e)), ret(keep)]
    return fn(None, params, body)


def _callback_site(method, at, vname="str"):
    v, _ = VALUES[vname]
    f = _callback_fn(method, at, v)
    a = arr(num(3), num(1), num(2))
    if method == "reduce-init":
        e = mcall(a, "reduce", f, num(0))
    elif method in ("sort", "sort2"):
        e = mcall(a, "sort", f)
    else:
        e = mcall(a, method, f)
    # the counter is reset with every evaluation: the site throws each time it is evaluated
    return _site("callback", seq(assign(id_("ncb"), num(0)), e), _value_setup(vname) + [var(("ncb", num(0)))], tags=["cb:" + method])


def _conv_object(flavor, vname="str"):
    """Object whose conversion throws.  flavor: vo = valueOf throws; ts = toString throws (valueOf
    returns an object so that number-hint contexts reach toString); both = whichever is asked first."""
    v, _ = VALUES[vname]
    vo_body = [log("vo", num(0))] + ([throw(v)] if flavor in ("vo", "both") else [ret(obj())])
    ts_body = [log("ts", num(0))] + ([throw(v)] if flavor in ("ts", "both") else [ret(obj())])
    return obj(init("valueOf", fn(None, [], vo_body)), init("toString", fn(None, [], ts_body)))


def _c():
    return id_("cv")


CONVERSION_CONTEXTS = {
    # operators
    "pos": lambda: un("+", _c()), "neg": lambda: un("-", _c()), "bnot": lambda: un("~", _c()),
    "add-l": lambda: bin_("+", _c(), num(1)), "add-r": lambda: bin_("+", num(1), _c()), "add-str": lambda: bin_("+", s_(""), _c()),
    "sub": lambda: bin_("-", _c(), num(1)), "sub-r": lambda: bin_("-", num(1), _c()), "mul": lambda: bin_("*", _c(), num(2)),
    "div": lambda: bin_("/", _c(), num(2)), "mod": lambda: bin_("%", _c(), num(2)), "pow": lambda: bin_("**", _c(), num(2)),
    "bor": lambda: bin_("|", _c(), num(0)), "band": lambda: bin_("&", num(1), _c()), "bxor": lambda: bin_("^", _c(), num(1)),
    "shl": lambda: bin_("<<", _c(), num(1)), "shr": lambda: bin_(">>", _c(), num(1)), "ushr": lambda: bin_(">>>", num(8), _c()),
    "lt": lambda: bin_("<", _c(), num(1)), "lt-r": lambda: bin_("<", num(1), _c()), "le": lambda: bin_("<=", _c(), num(1)),
    "gt": lambda: bin_(">", _c(), num(1)), "ge": lambda: bin_(">=", num(1), _c()),
    "eq": lambda: bin_("==", _c(), num(1)), "eq-r": lambda: bin_("==", s_("x"), _c()), "ne": lambda: bin_("!=", _c(), num(1)),
    "postinc": lambda: upd("++", id_("cw")), "preinc": lambda: upd("++", id_("cw"), True), "postdec": lambda: upd("--", id_("cw")),
    "add-assign": lambda: assign(id_("cs"), _c(), "+="), "sub-assign": lambda: assign(id_("cn"), _c(), "-="),
    "mul-assign": lambda: assign(id_("cn"), _c(), "*="), "member-inc": lambda: upd("++", dot(id_("ch"), "p")),
    # property keys
    "key-get": lambda: idx(id_("ch"), _c()), "key-set": lambda: assign(idx(id_("ch"), _c()), num(1)), "key-in": lambda: bin_("in", _c(), id_("ch")),
    # built-ins of the reference
    "String": lambda: call(id_("String"), _c()), "Number": lambda: call(id_("Number"), _c()), "isNaN": lambda: call(id_("isNaN"), _c()),
    "Math.max": lambda: mcall(id_("Math"), "max", num(1), _c()), "Math.abs": lambda: mcall(id_("Math"), "abs", _c()),
    "Math.floor": lambda: mcall(id_("Math"), "floor", _c()),
    "join": lambda: mcall(arr(num(1), _c()), "join"), "arr-concat": lambda: bin_("+", arr(_c()), s_("")),
    "indexOf-str": lambda: mcall(s_("abc"), "indexOf", _c()), "charAt": lambda: mcall(s_("abc"), "charAt", _c()),
    "str-slice": lambda: mcall(s_("abc"), "slice", _c()), "arr-slice": lambda: mcall(arr(num(1), num(2)), "slice", _c()),
    "arr-indexOf-from": lambda: mcall(arr(num(1), num(2)), "indexOf", num(1), _c()), "str-concat": lambda: mcall(s_("x"), "concat", _c()),
    "splice": lambda: mcall(arr(num(1), num(2), num(3)), "splice", _c(), num(1)), "includes-from": lambda: mcall(arr(num(1), num(2)), "includes", num(1), _c()),
    "length-set": lambda: assign(dot(id_("ca"), "length"), _c()), "charCodeAt": lambda: mcall(s_("abc"), "charCodeAt", _c()),
    "sort-default": lambda: mcall(arr(_c(), num(1)), "sort"), "sort-result": lambda: mcall(arr(num(3), num(1)), "sort", fn(None, ["a", "b"], [ret(_c())])),
    "Error-message": lambda: new(id_("Error"), _c()),
}
# both operands are objects: the left one is converted first, the right one only if the left did not throw
for _op in ["-", "*", "/", "%", "**", "<", ">", "<=", ">=", "&", "|", "<<", ">>>", "+"]:  # not ==: two objects compare by identity
    CONVERSION_CONTEXTS["two:%s:throw-right" % _op] = (lambda op: (lambda: bin_(op, id_("cl"), _c())))(_op)
    CONVERSION_CONTEXTS["two:%s:throw-left" % _op] = (lambda op: (lambda: bin_(op, _c(), id_("cl"))))(_op)
_STRING_HINT = {"key-get", "key-set", "key-in", "String", "join", "arr-concat", "indexOf-str", "str-concat", "sort-default", "Error-message"}


def _conversion_site(ctxname, flavor, vname="str"):
    setup = _value_setup(vname) + [
        var(("cv", _conv_object(flavor, vname))), var(("cw", id_("cv"))), var(("cs", s_("a"))), var(("cn", num(1))),
        var(("ch", obj(init("p", id_("cv"))))), var(("ca", arr(num(1)))),
        var(("cl", obj(init("valueOf", fn(None, [], [log("vo-other", num(0)), ret(num(3))])), init("toString", fn(None, [], [log("ts-other", num(0)), ret(s_("3"))]))))),
    ]
    return _site("conversion", CONVERSION_CONTEXTS[ctxname](), setup, tags=["conv:" + ctxname, "flavor:" + flavor])


def _accessor_sites():
    v = VALUES["str"][0]
    g = ("get", ("id", "g"), [log("get", num(0)), throw(v)])
    st = ("set", ("id", "sx"), "w", [log("set", id_("w")), throw(v)])
    base = [var(("ao", obj(g, st, init("plain", num(1)))))]
    yield "getter", _site("accessor", dot(id_("ao"), "g"), base)
    yield "getter-index", _site("accessor", idx(id_("ao"), s_("g")), base)
    yield "getter-call", _site("accessor", mcall(id_("ao"), "g", call(id_("s"), num(9))), base)
    yield "getter-compound", _site("accessor", assign(dot(id_("ao"), "g"), num(1), "+="), base)
    yield "getter-update", _site("accessor", upd("++", dot(id_("ao"), "g")), base)
    yield "setter", _site("accessor", assign(dot(id_("ao"), "sx"), num(1)), base)
    yield "setter-index", _site("accessor", assign(idx(id_("ao"), s_("sx")), call(id_("s"), num(9))), base)
    yield "getter-proto", _site("accessor", dot(id_("ac"), "g"), base + [var(("ac", mcall(id_("Object"), "create", id_("ao"))))])
    yield "setter-proto", _site("accessor", assign(dot(id_("ac"), "sx"), num(2)), base + [var(("ac", mcall(id_("Object"), "create", id_("ao"))))])
    dp = [var(("ad", obj())), expr(mcall(id_("Object"), "defineProperty", id_("ad"), s_("g"), obj(init("get", fn(None, [], [log("get", num(0)), throw(v)])), init("enumerable", b_(True)))))]
    yield "getter-defineProperty", _site("accessor", dot(id_("ad"), "g"), dp)
    yield "getter-Object.values", _site("accessor", mcall(id_("Object"), "values", id_("ao")), base)
    yield "getter-Object.assign", _site("accessor", mcall(id_("Object"), "assign", obj(), id_("ao")), base)
    yield "getter-JSON.stringify", _site("accessor", mcall(id_("JSON"), "stringify", id_("ao")), base)


def _callform_sites():
    th = id_("th")
    base = _thrower("error")
    yield "call", _site("callform", mcall(th, "call", NULL), base)
    yield "call-args", _site("callform", mcall(th, "call", NULL, call(id_("s"), num(9))), base)
    yield "apply", _site("callform", mcall(th, "apply", NULL, arr()), base)
    yield "apply-noargs", _site("callform", mcall(th, "apply"), base)
    yield "bind", _site("callform", call(mcall(th, "bind", NULL)), base)
    yield "bind-bind", _site("callform", call(mcall(mcall(th, "bind", NULL), "bind", obj())), base)
    yield "call-call", _site("callform", mcall(dot(th, "call"), "call", th), base)
    yield "new", _site("callform", new(th), base)
    yield "new-bound", _site("callform", new(mcall(th, "bind", NULL)), base)
    yield "method", _site("callform", mcall(id_("mo"), "m"), base + [var(("mo", obj(init("m", th))))])
    yield "method-index", _site("callform", call(idx(id_("mo"), s_("m"))), base + [var(("mo", obj(init("m", th))))])
    yield "method-shorthand", _site("callform", mcall(id_("mo"), "m"), [var(("mo", obj(("method", ("id", "m"), [], [log("m", num(0)), throw(VALUES["error"][0])]))))])
    yield "arrow", _site("callform", call(id_("af")), [var(("af", ("arrow", [], [log("af", num(0)), throw(VALUES["error"][0])], False)))])
    yield "arrow-expr", _site("callform", call(id_("af")), base + [var(("af", ("arrow", [], call(th), True)))])
    yield "iife", _site("callform", call(fn(None, [], [log("iife", num(0)), throw(VALUES["obj"][0])])), [])
    yield "nfe-recursive", _site("callform", call(fn("rec", ["n"], [log("rec", id_("n")), if_(bin_("===", id_("n"), num(0)), throw(VALUES["error"][0])), ret(bin_("+", num(1), call(id_("rec"), bin_("-", id_("n"), num(1)))))]), num(3)), [])
    yield "deep-recursion", _site("callform", call(fn("rec", ["n"], [if_(bin_("===", id_("n"), num(0)), block(log("bottom", num(0)), throw(VALUES["error"][0]))), ret(bin_("+", num(1), call(id_("rec"), bin_("-", id_("n"), num(1)))))]), num(40)), [])
    deep = throw(VALUES["obj"][0])
    for _m in ("forEach", "map", "some", "filter", "findIndex", "find"):
        deep = expr(mcall(arr(num(1)), _m, fn(None, ["a", "b"], [log("deep", s_(_m)), deep])))
    yield "deep-native-nesting", _site("callform", deep[1], [])
    yield "callback-bound", _site("callform", mcall(arr(num(1)), "forEach", mcall(th, "bind", NULL)), base)
    yield "callback-direct", _site("callform", mcall(arr(num(1)), "map", th), base)
    yield "apply-arraylike-getter", _site("callform", mcall(id_("s"), "apply", NULL, id_("al")),
                                         [var(("al", obj(init("length", num(1)), ("get", ("num", 0.0), [log("al", num(0)), throw(VALUES["str"][0])]))))])


def _runtime_sites():
    o = id_("ro")
    base = [var(("ro", obj(init("p", num(5)), init("q", NULL)))), var(("nl", NULL)), var("un"), var(("ra", arr(num(1))))]
    T, R, RG = "TypeError", "ReferenceError", "RangeError"
    yield "null-prop", _site("runtime", dot(NULL, "x"), base, T)
    yield "undef-prop", _site("runtime", dot(UNDEF, "x"), base, T)
    yield "nullvar-prop", _site("runtime", dot(id_("nl"), "x"), base, T)
    yield "undefvar-prop", _site("runtime", dot(id_("un"), "x"), base, T)
    yield "missing-prop-prop", _site("runtime", dot(dot(o, "missing"), "x"), base, T)
    yield "nullprop-prop", _site("runtime", dot(dot(o, "q"), "x"), base, T)
    yield "null-index", _site("runtime", idx(NULL, num(0)), base, T)
    yield "null-index-call", _site("runtime", idx(id_("nl"), call(id_("s"), num(9))), base, T)
    yield "null-prop-set", _site("runtime", assign(dot(NULL, "x"), num(1)), base, T)
    yield "undef-prop-set", _site("runtime", assign(dot(id_("un"), "x"), num(1)), base, T)
    yield "null-index-set", _site("runtime", assign(idx(id_("nl"), s_("k")), num(1)), base, T)
    yield "null-prop-compound", _site("runtime", assign(dot(id_("nl"), "x"), num(1), "+="), base, T)
    yield "null-prop-update", _site("runtime", upd("++", dot(id_("nl"), "x")), base, T)
    yield "null-method", _site("runtime", mcall(id_("nl"), "m"), base, T)
    yield "call-number", _site("runtime", call(num(5)), base, T)
    yield "call-undefined", _site("runtime", call(id_("un")), base, T)
    yield "call-null", _site("runtime", call(id_("nl"), call(id_("s"), num(9))), base, T)
    yield "call-string", _site("runtime", call(s_("str")), base, T)
    yield "call-object", _site("runtime", call(o), base, T)
    yield "call-missing-method", _site("runtime", mcall(o, "nope"), base, T)
    yield "call-number-method", _site("runtime", mcall(o, "p", call(id_("s"), num(9))), base, T)
    yield "call-missing-index", _site("runtime", call(idx(o, s_("nope"))), base, T)
    yield "call-missing-string-method", _site("runtime", mcall(s_("abc"), "nope"), base, T)
    yield "call-missing-array-method", _site("runtime", mcall(id_("ra"), "nope"), base, T)
    yield "new-number", _site("runtime", new(num(5)), base, T)
    yield "new-undefined", _site("runtime", new(id_("un")), base, T)
    yield "new-object", _site("runtime", new(o), base, T)
    yield "new-member-number", _site("runtime", new(dot(o, "p"), call(id_("s"), num(9))), base, T)
    yield "new-string", _site("runtime", new(s_("str")), base, T)
    yield "unknown-id", _site("runtime", id_("nope"), base, R)
    yield "unknown-id-call", _site("runtime", call(id_("nope"), num(1)), base, R)
    yield "unknown-id-prop", _site("runtime", dot(id_("nope"), "x"), base, R)
    yield "unknown-id-operand", _site("runtime", bin_("+", call(id_("s"), num(9)), id_("nope")), base, R)
    yield "unknown-id-assign", _site("runtime", assign(id_("nope"), num(1)), base, R)
    yield "unknown-id-compound", _site("runtime", assign(id_("nope"), num(1), "+="), base, R)
    yield "unknown-id-update", _site("runtime", upd("++", id_("nope")), base, R)
    yield "unknown-id-arg", _site("runtime", call(id_("s"), id_("nope")), base, R)
    yield "instanceof-number", _site("runtime", bin_("instanceof", o, num(5)), base, T)
    yield "instanceof-object", _site("runtime", bin_("instanceof", o, o), base, T)
    yield "instanceof-undefined", _site("runtime", bin_("instanceof", num(1), id_("un")), base, T)
    yield "in-number", _site("runtime", bin_("in", s_("a"), num(5)), base, T)
    yield "in-string", _site("runtime", bin_("in", s_("length"), s_("str")), base, T)
    yield "in-null", _site("runtime", bin_("in", s_("a"), id_("nl")), base, T)
    yield "array-write-past-end", _site("runtime", assign(idx(id_("ra"), num(5)), num(1)), base, T, node_differs=True)
    yield "array-write-past-end-var", _site("runtime", assign(idx(id_("ra"), bin_("+", dot(id_("ra"), "length"), num(1))), call(id_("s"), num(9))), base, T, node_differs=True)
    yield "array-length-negative", _site("runtime", assign(dot(id_("ra"), "length"), num(-1)), base, RG)
    yield "to-primitive-fails", _site("runtime", bin_("+", obj(init("valueOf", fn(None, [], [ret(obj())])), init("toString", fn(None, [], [ret(obj())]))), num(1)), base, T)
    yield "to-primitive-fails-key", _site("runtime", idx(o, obj(init("toString", fn(None, [], [ret(obj())])), init("valueOf", fn(None, [], [ret(obj())])))), base, T)
    # built-ins the reference models
    f2 = fn(None, ["a", "b"], [ret(id_("a"))])
    yield "reduce-empty", _site("builtin", mcall(arr(), "reduce", f2), base, T)
    yield "reduceRight-empty", _site("builtin", mcall(arr(), "reduceRight", f2), base, T)
    yield "map-not-callable", _site("builtin", mcall(arr(num(1)), "map", num(3)), base, T)
    yield "forEach-undefined", _site("builtin", mcall(arr(num(1)), "forEach"), base, T)
    yield "filter-object", _site("builtin", mcall(arr(), "filter", o), base, T)
    yield "sort-not-callable", _site("builtin", mcall(arr(num(2), num(1)), "sort", num(3)), base, T)
    yield "reduce-not-callable", _site("builtin", mcall(arr(num(1)), "reduce", s_("f")), base, T)
    yield "array-ctor-negative", _site("builtin", new(id_("Array"), num(-1)), base, RG)
    yield "array-ctor-fraction", _site("builtin", call(id_("Array"), num(1.5)), base, RG)
    yield "call-on-non-callable", _site("builtin", mcall(dot(dot(id_("Function"), "prototype"), "call"), "call", num(5)), base, T)
    yield "apply-non-arraylike", _site("builtin", mcall(id_("s"), "apply", NULL, num(5)), base, T)
    yield "bind-non-callable", _site("builtin", mcall(dot(dot(id_("Function"), "prototype"), "bind"), "call", o), base, T)
    yield "setPrototypeOf-cycle", _site("builtin", mcall(id_("Object"), "setPrototypeOf", dot(id_("Object"), "prototype"), o), base, T)
    yield "number-toString-on-string", _site("builtin", mcall(dot(dot(id_("Number"), "prototype"), "toString"), "call", s_("x")), base, T)
    yield "getPrototypeOf-null", _site("builtin", mcall(id_("Object"), "getPrototypeOf", NULL), base, T)
    yield "hasOwnProperty-on-null", _site("builtin", mcall(dot(dot(id_("Object"), "prototype"), "hasOwnProperty"), "call", NULL, s_("x")), base, T)


def _build_sites():
    sites = {}
    for vname in VALUES:
        sites["th:" + vname] = _site("throw", call(id_("th")), _thrower(vname), tags=["value:" + VALUES[vname][1]])
        sites["stmt:" + vname] = _site("throw", None, _value_setup(vname), tags=["value:" + VALUES[vname][1]], stmt=throw(VALUES[vname][0]))
    for name, st in _runtime_sites():
        sites["rt:" + name] = st
    for name, (text, what) in TEXT_SITES.items():
        kind = "eval" if name.startswith(("eval_", "function_")) else "builtin"
        setup = _thrower("error") if what[0].startswith("callglobal") else []
        sites["x:" + name] = _site(kind, call(id_("$x_" + name)), setup, what[1] if what[0] == "error" else None, tags=["text"])
    for m in CALLBACK_METHODS:
        for at in (0, 1):
            if m in ("sort", "sort2") and at == 1:
                continue
            if m == "every" and at == 1:
                pass  # the callback returns true: a second call happens
            sites["cb:%s:%d" % (m, at)] = _callback_site(m, at)
    sites["cb:map:0:error"] = _callback_site("map", 0, "error")
    sites["cb:forEach:1:obj"] = _callback_site("forEach", 1, "obj")
    for name in TEXT_CALLBACKS:
        f = fn(None, [], [log("tcb", num(0)), throw(VALUES["str"][0])])
        sites["tcb:" + name] = _site("callback", call(id_("$cb_" + name), f), [], tags=["text", "cb:" + name])
    for name, st in _accessor_sites():
        sites["acc:" + name] = st
    for name in CONVERSION_CONTEXTS:
        flavors = ["vo", "ts"] if not name.startswith("two:") else ["vo"]
        for fl in flavors:
            sites["conv:%s:%s" % (name, fl)] = _conversion_site(name, fl)
    sites["conv:add-l:both:error"] = _conversion_site("add-l", "both", "error")
    sites["conv:String:both:obj"] = _conversion_site("String", "both", "obj")
    for name, st in _callform_sites():
        sites["cf:" + name] = st
    return sites


SITES = _build_sites()


def get_site(desc):
    """Site of a recipe; "dyn" = a raising call discovered at run time (desc: text, ctor)."""
    if desc["site"] == "dyn":
        return _site("builtin", call(id_("$x_dyn")), [], desc["ctor"], tags=["text", "dyn"])
    return SITES[desc["site"]]
PLACEMENTS = ["same", "caller", "caller2", "native1", "native2", "nativecaller", "returned"]
NATIVE_KINDS = ["forEach", "map", "filter", "reduce", "some", "every", "find", "findIndex", "sort", "reduceRight"]
XCTX = ["stmt", "plus-right", "plus-left", "arg", "arr", "obj", "cond", "mcall", "member-assign", "return", "var", "logic", "nested-call",
        "if", "while", "dowhile-test", "for-update", "for-test", "forof-head", "forin-head", "switch-disc", "switch-case", "throw-arg",
        "in-forof", "in-forin", "in-switch", "in-forof-forin", "callee", "new-callee", "member-of", "index-key", "unary", "typeof"]
CATCH_EXITS = ["n", "b", "c", "bL", "cL", "r", "t", "rt"]
FINALLY_EXITS = ["n", "b", "c", "bL", "cL", "r", "t"]
LOOP_KINDS = ["for", "while", "forof", "forin", "dowhile"]


# ================================================================ expression context
def xctx(e, C, P):
    """Statements evaluating the throwing expression e in context C with P pending operands.
    Returns (stmts, needs_function)."""
    pend = [call(id_("s"), num(1000)), call(id_("s"), num(2000))][:P]
    after = call(id_("s"), num(3000))  # must never be evaluated
    wrap = {
        "stmt": e, "member-assign": e, "return": e, "var": e,
        "if": e, "while": e, "dowhile-test": e, "for-update": e, "for-test": e, "forof-head": e, "forin-head": e, "switch-disc": e, "switch-case": e, "throw-arg": e,
        "in-forof": e, "in-forin": e, "in-switch": e, "in-forof-forin": e, "callee": e, "new-callee": e, "member-of": e, "index-key": e, "unary": e, "typeof": e,
        "plus-right": bin_("+", num(100), e),
        "plus-left": bin_("+", e, after),
        "arg": call(id_("s"), e),
        "nested-call": call(id_("s"), bin_("*", call(id_("s"), num(4000)), e)),
        "arr": arr(num(5), e, after),
        "obj": obj(init("a", num(5)), init("b", e), init("c", after)),
        "cond": cond(e, num(11), num(22)),
        "logic": logic("||", logic("&&", num(1), e), after),
        "mcall": mcall(id_("REG"), "indexOf", e, after),
    }[C]
    no = log("no", num(0))
    stmt_forms = {
        "if": lambda: [if_(e, block(no))],
        "while": lambda: [while_(e, block(no, brk()))],
        "dowhile-test": lambda: [dowhile(block(log("body", num(0))), e)],
        "for-update": lambda: [for_(assign(id_("q"), num(0)), bin_("<", id_("q"), num(2)), e, block(log("body", id_("q"))))],
        "for-test": lambda: [for_(assign(id_("q"), num(0)), e, upd("++", id_("q")), block(no, brk()))],
        "forof-head": lambda: [forof(id_("q"), e, block(no))],
        "forin-head": lambda: [forin(id_("q"), e, block(no))],
        "switch-disc": lambda: [switch(e, [(num(1), [no])])],
        "switch-case": lambda: [switch(call(id_("s"), num(1000)), [(num(7), [no]), (e, [no]), (None, [no])])],
        "throw-arg": lambda: [throw(e)],
        "in-forof": lambda: [forof(id_("q"), arr(num(1), num(2)), block(log("in", id_("q")), expr(assign(id_("q"), bin_("+", call(id_("s"), num(1000)), e))), no))],
        "in-forin": lambda: [forin(id_("q"), obj(init("k1", num(1)), init("k2", num(2))), block(log("in", id_("q")), expr(e), no))],
        "in-switch": lambda: [switch(call(id_("s"), num(1000)), [(num(1000), [log("in", num(0)), expr(arr(call(id_("s"), num(2000)), e)), no])])],
        "in-forof-forin": lambda: [forof(id_("q"), arr(num(1), num(2)), block(forin(id_("qo2"), obj(init("k1", num(1))), block(log("in", id_("q")), expr(e), no))))],
        "callee": lambda: [expr(call(e, after))],
        "new-callee": lambda: [expr(new(e, after))],
        "member-of": lambda: [expr(dot(e, "p"))],
        "index-key": lambda: [expr(idx(id_("qo"), e))],
        "unary": lambda: [expr(un("-", e))],
        "typeof": lambda: [expr(un("typeof", e))],
    }
    if C in stmt_forms:
        return stmt_forms[C](), False
    if C == "member-assign":
        if P == 0:
            return [expr(assign(dot(id_("qo"), "m"), e))], False
        return [expr(assign(idx(id_("qo"), pend[0]), bin_("+", pend[1], e) if P == 2 else e))], False
    if P == 0:
        full = wrap
    elif P == 1:
        full = bin_("+", pend[0], wrap)
    else:
        full = arr(pend[0], pend[1], wrap)
    if C == "stmt" and P == 0:
        return [expr(full)], False
    if C == "return":
        return [ret(full)], True
    if C == "var":
        return [var(("qv", full))], False
    return [expr(assign(id_("q"), full))], False


# =========================================================================== shapes
def shape1(kind, cx="n", fx="n", spos="try", inner=None, ipos="try", tx="n"):
    """Recipe of one try statement.  kind C | F | CF; cx / fx exits of the catch / finally block;
    spos = block of *this* statement holding the throwing statement (when it has no inner);
    inner = nested recipe sitting in block ipos; tx = exit at the end of the try block (reached when
    the inner statement swallowed the exception, or when the throwing statement sits in the finally block)."""
    return {"k": kind, "cx": cx, "fx": fx, "spos": spos, "in": inner, "ipos": ipos, "tx": tx}


def shape_depth(sh):
    return 1 + (shape_depth(sh["in"]) if sh.get("in") else 0)


def shape_valid(sh):
    k = sh["k"]
    if sh.get("in"):
        pos = sh["ipos"]
        if not shape_valid(sh["in"]):
            return False
    else:
        pos = sh["spos"]
    if pos == "catch" and k == "F":
        return False
    if pos == "finally" and k == "C":
        return False
    return True


def shape_uses_loops(sh):
    while sh:
        if (sh["k"] != "F" and sh["cx"] in ("b", "c", "bL", "cL")) or (sh["k"] != "C" and sh["fx"] in ("b", "c", "bL", "cL")) or sh.get("tx", "n") in ("b", "c", "bL", "cL"):
            return True
        sh = sh.get("in")
    return False


def shape_uses_return(sh):
    while sh:
        if (sh["k"] != "F" and sh["cx"] == "r") or (sh["k"] != "C" and sh["fx"] == "r") or sh.get("tx", "n") == "r":
            return True
        sh = sh.get("in")
    return False


def shape_has_finally(sh):
    while sh:
        if sh["k"] != "C":
            return True
        sh = sh.get("in")
    return False


def _exit(x, d, which, evar):
    if x == "n":
        return []
    if x == "b":
        return [brk()]
    if x == "c":
        return [cont()]
    if x == "bL":
        return [brk("L")]
    if x == "cL":
        return [cont("L")]
    if x == "r":
        return [ret(num(100 + 10 * d + {"c": 0, "f": 1, "t": 2}[which]))]
    if x == "t":
        if (d + (which == "f")) % 2:
            return [throw(_reg(obj(init("from", s_(which + str(d)))), False))]
        return [throw(s_("T" + which + str(d)))]
    if x == "rt":
        return [throw(id_(evar))]
    raise KeyError(x)


def build_shape(sh, S, d=1):
    """The try statement of recipe sh with the throwing statements S in its innermost block."""
    k = sh["k"]
    evar = "e%d" % d
    inner_stmts = None
    if sh.get("in"):
        pos = sh["ipos"]
        inner_stmts = [build_shape(sh["in"], S, d + 1), log("post%d" % (d + 1), num(0))]
    else:
        pos = sh["spos"]
        inner_stmts = list(S) + [log("after-S", num(0))]
    t = [log("t%d" % d, num(0))]
    c = [log("c%d" % d, call(id_("T"), id_(evar)))]
    f = [log("f%d" % d, num(0))]
    if pos == "try":
        t += inner_stmts
    else:
        t += [throw(s_("P%d" % d)), log("after-P", num(0))] if pos == "catch" else []
        if pos == "catch":
            c += inner_stmts
        else:
            f += inner_stmts
    if pos != "catch" and sh.get("tx", "n") != "n" and (sh.get("in") or pos == "finally"):
        t += _exit(sh["tx"], d, "t", evar)
    if k != "F":
        c += _exit(sh["cx"], d, "c", evar)
    if k != "C":
        f += _exit(sh["fx"], d, "f", evar)
    return try_(t, (evar, c) if k != "F" else None, f if k != "C" else None)


def all_shapes1(spos="try"):
    for cx in CATCH_EXITS:
        yield shape1("C", cx, "n", spos)
    for fx in FINALLY_EXITS:
        yield shape1("F", "n", fx, spos)
    for cx in CATCH_EXITS:
        for fx in FINALLY_EXITS:
            yield shape1("CF", cx, fx, spos)


# ======================================================================== programs
def _loop(kind, var_, body, lbl=None):
    """Two iterations of body; the label (if any) sits on the loop statement itself."""
    v = id_(var_)
    L = (lambda st: label(lbl, st)) if lbl else (lambda st: st)
    if kind == "for":
        return L(for_(assign(v, num(0)), bin_("<", v, num(2)), upd("++", v), block(*body)))
    if kind == "while":
        return block(expr(assign(v, num(0))), L(while_(bin_("<", upd("++", v), num(2)), block(*body))))
    if kind == "dowhile":
        return block(expr(assign(v, num(0))), L(dowhile(block(*body), bin_("<", upd("++", v, True), num(2)))))
    if kind == "forof":
        return L(forof(v, arr(num(0), num(1)), block(*body)))
    if kind == "forin":
        return L(forin(v, obj(init("a", num(1)), init("b", num(2))), block(*body)))
    raise KeyError(kind)


def _native_call(nk, f):
    a = arr(num(1), num(2))
    if nk == "reduce":
        return mcall(a, "reduce", f, num(0))
    if nk == "reduceRight":
        return mcall(a, "reduceRight", f, num(0))
    if nk == "sort":
        return mcall(a, "sort", f)
    return mcall(a, nk, f)


def _cb(nk, name, body):
    params = {"reduce": ["acc", "v"], "reduceRight": ["acc", "v"], "sort": ["v", "w"]}.get(nk, ["v"])
    return fn(None, params, [log(name, id_("v") if nk != "sort" else num(0))] + body + [log(name + "-end", num(0)), ret(num(0))])


def build(desc):
    """Program of a recipe (dict).  Keys: c campaign; site; pl placement; nk / nk2 native kinds;
    sh shape; x expression context; p pending operands; lk inner loop kind; oc outer context 0..2;
    outer "catch" | "none"; twice 0/1."""
    site = get_site(desc)
    pl = desc.get("pl", "same")
    sh = desc["sh"]
    C = desc.get("x", "stmt")
    P = desc.get("p", 0)
    if site["stmt"] is not None:
        S, needs_fn = [site["stmt"]], False
    else:
        S, needs_fn = xctx(site["e"], C, P)
    if needs_fn and pl in ("same",):
        pl = "caller"
    nk = desc.get("nk", "forEach")
    nk2 = desc.get("nk2", "map")
    decls = []
    q0 = [var("q", "qo2", ("qo", obj()))]
    if pl == "same":
        core_stmts = S
    elif pl == "caller":
        decls.append(fdecl("fa", [], q0 + [log("fa", num(0))] + S + [log("fa-end", num(0)), ret(num(1))]))
        core_stmts = [expr(assign(id_("q"), bin_("+", call(id_("s"), num(31)), call(id_("fa")))))]
    elif pl == "caller2":
        decls.append(fdecl("fa", [], q0 + [log("fa", num(0))] + S + [log("fa-end", num(0)), ret(num(1))]))
        decls.append(fdecl("fb", ["x"], [log("fb", id_("x")), var(("z", arr(call(id_("s"), num(41)), call(id_("fa")), call(id_("s"), num(42))))), log("fb-end", num(0)), ret(id_("z"))]))
        core_stmts = [expr(assign(id_("q"), call(id_("fb"), call(id_("s"), num(32)))))]
    elif pl == "native1":
        core_stmts = [expr(assign(id_("q"), _native_call(nk, _cb(nk, "cb1", q0 + S))))]
    elif pl == "native2":
        inner = _native_call(nk2, _cb(nk2, "cb2", q0 + S))
        core_stmts = [expr(assign(id_("q"), _native_call(nk, _cb(nk, "cb1", [var(("z", bin_("+", call(id_("s"), num(51)), inner)))]))))]
    elif pl == "nativecaller":
        decls.append(fdecl("fc", [], q0 + [log("fc", num(0))] + S + [log("fc-end", num(0)), ret(num(1))]))
        decls.append(fdecl("fa", [], [log("fa", num(0)), ret(_native_call(nk, _cb(nk, "cb1", [var(("z", arr(call(id_("s"), num(61)), call(id_("fc")))))])))]))
        core_stmts = [expr(assign(id_("q"), call(id_("fa"))))]
    elif pl == "returned":
        decls.append(fdecl("mk", [], [
            try_([log("mk", num(0)), ret(fn(None, [], q0 + [log("late", num(0))] + S + [log("late-end", num(0)), ret(num(1))]))],
                 ("em", [log("wrong-handler", call(id_("T"), id_("em")))]), [log("mk-fin", num(0))])]))
        core_stmts = [var(("g", call(id_("mk")))), expr(assign(id_("q"), bin_("+", call(id_("s"), num(71)), call(id_("g")))))]
    else:
        raise KeyError(pl)
    stmt = build_shape(sh, core_stmts)
    hbody = [var("i", "j", "q", "qo2", ("qo", obj())), log("H", num(0))]
    if shape_uses_loops(sh):
        lk = desc.get("lk", "for")
        inner_loop = _loop(lk, "j", [log("it", id_("j")), stmt, log("post1", num(0))])
        part = [_loop("for", "i", [inner_loop, log("post-inner", id_("i"))], "L")]
    else:
        part = [stmt, log("post1", num(0))]
    if desc.get("top") and not shape_uses_return(sh) and not needs_fn:
        # the handler statement sits at program level (global variables, the program's own code)
        main = [log("H", num(0))] + part + [log("H-end", num(0))]
        body = prelude() + site["setup"] + decls + [var("i", "j", "q", "qo2", ("qo", obj()))]
        if desc.get("outer", "catch") == "catch":
            body.append(try_(main, ("eo", [log("outer", call(id_("T"), id_("eo")))]), None))
            body.append(try_([throw(s_("Z"))], ("ez", [log("z", id_("ez"))]), [log("zf", num(0))]))
        else:
            body += main
        body.append(expr(un("typeof", id_("q"))))
        tags = ["site:" + site["kind"], "pl:" + pl, "top", "x:" + C, "p:%d" % P, "depth:%d" % shape_depth(sh), "outer:" + desc.get("outer", "catch")] + site["tags"]
        if site["node_differs"]:
            tags.append("node-differs")
        if pl != "same" or site["kind"] != "runtime" and site["stmt"] is None or shape_has_finally(sh) or P > 0:
            tags.append("nontrivial")
        return {"sub": desc.get("c", "unw"), "id": _desc_id(desc), "body": body, "tags": sorted(set(tags)), "desc": desc}
    hn = desc.get("hn")
    if hn:
        # the handler itself runs inside a callback of a built-in: the built-in goes on iterating
        # after the callback has caught the exception
        part = [expr(assign(id_("q"), _native_call(hn, _cb(hn, "hcb", [var("i", "j", "q", "qo2", ("qo", obj()))] + part))))]
    hbody += part + [log("H-end", num(0)), ret(num(7))]
    decls.append(fdecl("H", [], hbody))
    oc = desc.get("oc", 0)
    hcall = call(id_("H"))
    outer_e = [hcall, arr(call(id_("s"), num(1)), hcall, call(id_("s"), num(2))), bin_("+", call(id_("s"), num(1)), bin_("*", call(id_("s"), num(2)), hcall))][oc]
    main = [expr(assign(id_("r"), outer_e)), log("r", id_("r"))]
    if desc.get("twice", 1):
        main += [log("r2", call(id_("H")))]
    rep = desc.get("rep", 0)
    if rep:
        # the whole handler function again and again in one evaluation: every round must look like the first
        # (anything a throw leaves behind in the context - a counter, a stack entry, a handler record - adds up)
        main += [for_(var(("rr", num(0))), bin_("<", id_("rr"), num(rep)), upd("++", id_("rr")),
                      block(try_([log("rr", call(id_("H")))], ("er", [log("rerr", call(id_("T"), id_("er")))]), None)))]
    body = prelude() + site["setup"] + decls + [var("r")]
    if desc.get("outer", "catch") == "catch":
        body.append(try_(main, ("eo", [log("outer", call(id_("T"), id_("eo")))]), None))
        body.append(try_([throw(s_("Z"))], ("ez", [log("z", id_("ez"))]), [log("zf", num(0))]))
    else:
        body += main
    body.append(expr(un("typeof", id_("r"))))
    tags = ["site:" + site["kind"], "pl:" + pl, "x:" + C, "p:%d" % P, "depth:%d" % shape_depth(sh), "outer:" + desc.get("outer", "catch")] + site["tags"] + (["hn"] if desc.get("hn") else [])
    if site["node_differs"]:
        tags.append("node-differs")
    nontrivial = pl != "same" or site["kind"] not in ("runtime",) and site["stmt"] is None or shape_has_finally(sh) or P > 0
    if nontrivial:
        tags.append("nontrivial")
    return {"sub": desc.get("c", "unw"), "id": _desc_id(desc), "body": body, "tags": sorted(set(tags)), "desc": desc}


def _shape_id(sh):
    s = "%s.%s.%s" % (sh["k"], sh["cx"], sh["fx"]) + ("." + sh["tx"] if sh.get("tx", "n") != "n" else "")
    if sh.get("in"):
        return s + "[" + sh["ipos"][0] + ":" + _shape_id(sh["in"]) + "]"
    return s + "@" + sh["spos"][0]


def _desc_id(d):
    return "|".join(str(x) for x in (d.get("c", "unw"), d["site"], d.get("pl", "same"), d.get("nk", ""), d.get("nk2", ""), _shape_id(d["sh"]) if "sh" in d else "",
                                     d.get("x", "stmt"), d.get("p", 0), d.get("lk", ""), d.get("oc", 0), d.get("outer", "catch"), d.get("twice", 1), d.get("hn", ""), "top" if d.get("top") else "", d.get("v", ""), d.get("text", ""))) + ("|rep%d" % d["rep"] if d.get("rep") else "")


# ----------------------------------------------------------------------- campaigns
BASIC_SHAPES = [shape1("C"), shape1("F"), shape1("CF"), shape1("CF", "rt", "n"), shape1("CF", "n", "n", inner=shape1("F"), ipos="try")]
REPRESENTATIVE_SITES = ["th:error", "rt:nullvar-prop", "cb:map:1", "acc:getter", "x:repeat_neg", "conv:add-l:vo"]


def _rot(seq, i):
    return seq[i % len(seq)]


def sites_product():
    """every site x every placement x basic shapes (rotating contexts / pending / native kinds)."""
    n = 0
    for sname in SITES:
        site = SITES[sname]
        for pi, pl in enumerate(PLACEMENTS):
            for si, sh in enumerate(BASIC_SHAPES[:3] if pi else BASIC_SHAPES):
                n += 1
                d = {"c": "sites", "site": sname, "pl": pl, "sh": sh, "x": _rot(XCTX, n) if site["stmt"] is None else "stmt", "p": n % 3 if site["stmt"] is None else 0,
                     "nk": _rot(NATIVE_KINDS, n), "nk2": _rot(NATIVE_KINDS, n // 3 + 1), "oc": n % 3, "outer": "none" if n % 5 == 0 else "catch", "twice": 1}
                if n % 4 == 1:
                    d["hn"] = _rot(NATIVE_KINDS, n // 4)
                if d["x"] == "stmt":
                    d["p"] = 0 if n % 2 else d["p"]
                yield d
                if si == 0 and pl in ("same", "native1"):
                    yield dict(d, top=1, hn=None, x=d["x"] if d["x"] != "return" else "arg")


def repeat_product(rep=48):
    """every site in a handler function that is run `rep` more times by a loop of the same evaluation."""
    n = 0
    for sname in SITES:
        site = SITES[sname]
        n += 1
        yield {"c": "repeat", "site": sname, "pl": _rot(PLACEMENTS, n), "sh": _rot(BASIC_SHAPES, n), "x": _rot(XCTX, n) if site["stmt"] is None else "stmt",
               "p": n % 3 if site["stmt"] is None else 0, "nk": _rot(NATIVE_KINDS, n), "nk2": _rot(NATIVE_KINDS, n // 3 + 1), "oc": n % 3, "outer": "catch", "twice": 0, "rep": rep}


def shapes_product():
    """every depth-1 shape (throwing statement in the try block, and in the catch / finally block) x
    every placement x representative sites."""
    n = 0
    for spos in ("try", "catch", "finally"):
        for sh in all_shapes1(spos):
            if not shape_valid(sh):
                continue
            for pl in PLACEMENTS:
                for sname in REPRESENTATIVE_SITES[:4] if spos == "try" else REPRESENTATIVE_SITES[:2]:
                    n += 1
                    yield {"c": "shapes", "site": sname, "pl": pl, "sh": sh, "x": _rot(XCTX, n), "p": n % 3, "nk": _rot(NATIVE_KINDS, n), "nk2": _rot(NATIVE_KINDS, n + 4),
                           "lk": _rot(LOOP_KINDS, n), "oc": n % 3, "outer": "none" if n % 7 == 0 else "catch", "twice": 1, "hn": _rot(NATIVE_KINDS, n // 3) if n % 3 == 0 else None,
                           "top": 1 if n % 5 == 2 else 0}


OUTER_VARIANTS = [("C", "n", "n"), ("F", "n", "n"), ("CF", "n", "n"), ("CF", "rt", "n"), ("CF", "t", "n"), ("CF", "n", "r"), ("CF", "n", "b"), ("CF", "c", "n"),
                  ("F", "n", "cL"), ("C", "r", "n"), ("CF", "n", "t"), ("C", "bL", "n")]


def shapes2_product():
    """depth-2 shapes: every depth-1 shape as the inner statement, in the try / catch / finally block of
    the outer variants; two sites, two placements."""
    n = 0
    for ipos in ("try", "catch", "finally"):
        for (ok, ocx, ofx) in OUTER_VARIANTS:
            for inner in all_shapes1("try"):
                sh = shape1(ok, ocx, ofx, inner=inner, ipos=ipos)
                if not shape_valid(sh):
                    continue
                n += 1
                yield {"c": "shapes2", "site": _rot(["th:obj", "rt:call-undefined", "cb:forEach:1", "th:typeerror"], n), "pl": _rot(["same", "native1", "caller", "native2", "returned"], n // 2),
                       "sh": sh, "x": _rot(XCTX, n), "p": n % 3, "nk": _rot(NATIVE_KINDS, n), "nk2": _rot(NATIVE_KINDS, n + 3), "lk": _rot(LOOP_KINDS, n), "oc": n % 3,
                       "outer": "none" if n % 11 == 0 else "catch", "twice": 1, "hn": _rot(NATIVE_KINDS, n // 5) if n % 5 == 0 else None}


TRY_EXITS = ["b", "c", "bL", "cL", "r"]


def shapes3_product():
    """exit of the *try block* by break / continue / labelled / return: after an inner statement that
    swallowed (or not) the exception, and with the throwing statement in the finally block."""
    n = 0
    for ok in ("F", "CF"):
        for tx in TRY_EXITS:
            cands = [shape1(ok, "n", "n", inner=inner, ipos="try", tx=tx) for inner in all_shapes1("try")]
            cands += [shape1(ok, cx, fx, spos="finally", tx=tx) for cx in (["n"] if ok == "F" else ["n", "r"]) for fx in FINALLY_EXITS]
            for sh in cands:
                n += 1
                yield {"c": "shapes3", "site": _rot(["th:error", "rt:null-prop", "cb:some:1", "x:eval_call_th", "acc:setter"], n), "pl": _rot(PLACEMENTS, n // 2),
                       "sh": sh, "x": _rot(XCTX, n), "p": n % 3, "nk": _rot(NATIVE_KINDS, n), "nk2": _rot(NATIVE_KINDS, n + 3), "lk": _rot(LOOP_KINDS, n), "oc": n % 3,
                       "outer": "none" if n % 9 == 0 else "catch", "twice": 1, "hn": _rot(NATIVE_KINDS, n // 4) if n % 4 == 0 else None}


def uncaught_cases():
    """no handler anywhere: the throw surfaces at the Python boundary."""
    n = 0
    names = [s for s in SITES if s.startswith(("th:", "stmt:", "rt:", "x:"))] + ["cb:map:0:error", "cb:forEach:1:obj", "acc:getter", "conv:add-l:both:error", "cf:new", "cf:bind", "tcb:replace_regex"]
    for sname in names:
        for pl in PLACEMENTS:
            if not sname.startswith(("th:", "stmt:", "x:eval", "x:function")) and pl not in ("same", "native1", "caller2"):
                continue
            n += 1
            yield {"c": "uncaught", "site": sname, "pl": pl, "sh": _rot([shape1("F"), shape1("C", "rt"), shape1("F", spos="finally"), shape1("C", spos="catch")], n), "x": _rot(XCTX[:6], n) if SITES[sname]["stmt"] is None else "stmt",
                   "p": n % 3 if SITES[sname]["stmt"] is None else 0, "nk": _rot(NATIVE_KINDS, n), "nk2": _rot(NATIVE_KINDS, n + 1), "oc": n % 3, "outer": "none", "twice": 0}


def errobj_program(desc):
    """Runtime-error site caught by a handler that logs the class facts CI(e)."""
    site = get_site(desc)
    pl = desc.get("pl", "same")
    S, needs_fn = xctx(site["e"], desc.get("x", "stmt"), desc.get("p", 0))
    if needs_fn and pl == "same":
        pl = "caller"
    q0 = [var("q", "qo2", ("qo", obj()))]
    decls = []
    if pl == "same":
        core_stmts = S
    elif pl == "caller":
        decls.append(fdecl("fa", [], q0 + S + [ret(num(1))]))
        core_stmts = [expr(call(id_("fa")))]
    else:
        nk = desc.get("nk", "forEach")
        core_stmts = [expr(_native_call(nk, _cb(nk, "cb1", q0 + S)))]
    body = prelude() + [errinfo_fn()] + site["setup"] + decls + [var("q", "qo2", ("qo", obj()))] + [
        try_(core_stmts + [log("no-throw", num(0))], ("e", [log("info", call(id_("CI"), id_("e")))]), None),
        expr(num(0)),
    ]
    tags = ["site:" + site["kind"], "pl:" + pl, "errobj", "nontrivial"] + site["tags"] + (["node-differs"] if site["node_differs"] else [])
    return {"sub": "errobj", "id": _desc_id(desc), "body": body, "tags": sorted(set(tags)), "desc": desc}


def errobj_cases():
    n = 0
    for sname, site in SITES.items():
        if site["ctor"] is None:
            continue
        for pl in ("same", "caller", "native1"):
            n += 1
            yield {"c": "errobj", "site": sname, "pl": pl, "x": _rot(XCTX, n), "p": n % 3, "nk": _rot(NATIVE_KINDS, n)}


# ------------------------------------------------------------------------ location
LOC_MARK = "LOCQ"


def location_program(desc):
    """Engine-only program: the handler logs [lineNumber, columnNumber] of the caught error.
    Throw statements throw `new <Ctor>("LOCQ")`; runtime sites sit in the statement `LOCQ = ...;`."""
    pl = desc.get("pl", "same")
    kind = desc["kind"]  # "throw" | "runtime"
    pre = []
    if kind == "throw":
        v = {"error": new(id_("Error"), s_(LOC_MARK)), "typeerror": new(id_("TypeError"), s_(LOC_MARK)), "call": call(id_("RangeError"), s_(LOC_MARK)),
             "var": id_("ev"), "myerr": new(id_("MyErr"), s_(LOC_MARK))}[desc["v"]]
        if desc["v"] == "var":
            pre = [var(("ev", new(id_("Error"), s_("earlier"))))]
        if desc["v"] == "myerr":
            pre = list(_MYERR)
        S = [throw(v)]
        setup = []
    else:
        site = get_site(desc)
        setup = site["setup"]
        P = desc.get("p", 0)
        e = site["e"]
        if P:
            e = bin_("+", call(id_("s"), num(1000)), e)
        S = [expr(assign(id_(LOC_MARK), e))]
        if desc.get("form") == "for-update":
            # the body follows the failing expression in the text: its position must not be reported
            S = [for_(assign(id_(LOC_MARK), num(0)), bin_("<", id_(LOC_MARK), num(2)), assign(id_(LOC_MARK), e),
                      block(var(("w2", num(1))), if_(bin_("===", id_("w2"), num(2)), block(log("never", num(0))))))]
    filler = [var(("w", num(1))), if_(bin_("===", id_("w"), num(2)), block(log("never", num(0))))]
    decls = []
    nk = desc.get("nk", "forEach")
    if pl == "same":
        core_stmts = filler + S
    elif pl == "caller":
        decls.append(fdecl("fa", [], filler + S + [ret(num(1))]))
        core_stmts = [expr(bin_("+", num(1), call(id_("fa"))))]
    elif pl == "native1":
        core_stmts = [expr(_native_call(nk, fn(None, ["v"], filler + S + [ret(num(0))])))]
    elif pl == "native2":
        core_stmts = [expr(_native_call(nk, fn(None, ["v"], [expr(_native_call(desc.get("nk2", "map"), fn(None, ["w"], S + [ret(num(0))]))), ret(num(0))])))]
    elif pl == "nativecaller":
        decls.append(fdecl("fc", [], filler + S + [ret(num(1))]))
        core_stmts = [expr(_native_call(nk, fn(None, ["v"], [ret(call(id_("fc")))])))]
    elif pl == "getter":
        decls.append(var(("go", obj(("get", ("id", "g"), filler + S + [ret(num(1))])))))
        core_stmts = [expr(dot(id_("go"), "g"))]
    elif pl == "method":
        decls.append(var(("go", obj(("method", ("id", "m"), [], filler + S + [ret(num(1))])))))
        core_stmts = [expr(mcall(id_("go"), "m"))]
    elif pl == "arrow":
        decls.append(var(("af", ("arrow", [], filler + S, False))))
        core_stmts = [expr(call(id_("af")))]
    elif pl == "valueOf":
        decls.append(var(("go", obj(init("valueOf", fn(None, [], filler + S + [ret(num(1))]))))))
        core_stmts = [expr(bin_("+", num(1), id_("go")))]
    elif pl == "finally":
        core_stmts = [try_([log("t", num(0))], None, filler + S)]
    elif pl == "catch":
        core_stmts = [try_([throw(s_("first"))], ("e0", filler + S), None)]
    elif pl == "loop":
        core_stmts = [for_(assign(id_("w"), num(0)), bin_("<", id_("w"), num(3)), upd("++", id_("w")), block(if_(bin_("===", id_("w"), num(1)), block(*S))))]
        decls.append(var("w"))
    elif pl == "switch":
        core_stmts = [switch(num(2), [(num(1), [log("one", num(0))]), (num(2), S), (None, [log("d", num(0))])])]
    else:
        raise KeyError(pl)
    before = []
    if desc.get("prior"):
        # an earlier throw statement: its position must not stick to later errors
        before = [try_([throw(new(id_("Error"), s_("prior")))], ("ep", []), None)]
    body = [fdecl("s", ["x"], [ret(id_("x"))]), var(LOC_MARK)] + pre + setup + decls + before + [
        try_(core_stmts + [log("no-throw", num(0))], ("e", [log("loc", arr(dot(id_("e"), "lineNumber"), dot(id_("e"), "columnNumber")))]), None),
        expr(num(0)),
    ]
    tags = ["location", "loc:" + kind, "pl:" + pl, "nontrivial"]
    return {"sub": "location-" + kind, "id": _desc_id(dict(desc, c="loc-" + kind, site=desc.get("site", "throw"))), "body": body, "tags": tags, "desc": desc}


LOC_PLACEMENTS = ["same", "caller", "native1", "native2", "nativecaller", "getter", "method", "arrow", "valueOf", "finally", "catch", "loop", "switch"]
LOC_RUNTIME_SITES = ["rt:nullvar-prop", "rt:null-prop", "rt:call-undefined", "rt:call-missing-method", "rt:unknown-id", "rt:unknown-id-call", "rt:new-number", "rt:instanceof-number",
                     "rt:in-number", "rt:array-write-past-end", "rt:null-prop-set", "rt:reduce-empty", "rt:map-not-callable", "x:repeat_neg", "x:tofixed_101", "x:regexp_paren",
                     "x:json_parse_brace", "x:tostring_radix_1", "x:array_neg", "rt:to-primitive-fails", "rt:unknown-id-assign", "rt:array-length-negative"]


def location_cases():
    n = 0
    for pl in LOC_PLACEMENTS:
        for v in ("error", "typeerror", "call", "var", "myerr"):
            for prior in (0, 1):
                n += 1
                yield {"c": "location", "kind": "throw", "v": v, "pl": pl, "prior": prior, "nk": _rot(NATIVE_KINDS[:8], n), "nk2": _rot(NATIVE_KINDS[:8], n + 3), "lay": n % 3}
    for pl in LOC_PLACEMENTS:
        for sname in LOC_RUNTIME_SITES:
            if sname not in SITES:
                continue
            n += 1
            yield {"c": "location", "kind": "runtime", "site": sname, "pl": pl, "prior": n % 2, "p": (n // 2) % 2, "nk": _rot(NATIVE_KINDS[:8], n), "nk2": _rot(NATIVE_KINDS[:8], n + 3), "lay": n % 3}
    for pl in ("same", "caller", "native1", "getter", "catch"):
        for sname in ("rt:nullvar-prop", "rt:unknown-id", "rt:call-undefined", "x:repeat_neg", "rt:instanceof-number"):
            n += 1
            yield {"c": "location", "kind": "runtime", "site": sname, "pl": pl, "prior": n % 2, "p": 0, "nk": _rot(NATIVE_KINDS[:8], n), "lay": n % 3, "form": "for-update"}


# -------------------------------------------------------------------------- random
def random_shape(rnd, depth):
    k = rnd.choice(["C", "F", "CF", "CF"])
    cx = rnd.choice(CATCH_EXITS + ["n", "rt", "t"])
    fx = rnd.choice(FINALLY_EXITS + ["n", "n", "n"])
    for _ in range(20):
        tx = rnd.choice(["n", "n", "n"] + TRY_EXITS)
        if depth > 1:
            sh = shape1(k, cx, fx, inner=random_shape(rnd, depth - 1), ipos=rnd.choice(["try", "try", "catch", "finally"]), tx=tx)
        else:
            sh = shape1(k, cx, fx, spos=rnd.choice(["try", "try", "try", "catch", "finally"]), tx=tx)
        if shape_valid(sh):
            return sh
        k = "CF"
    raise AssertionError


_SITE_NAMES = sorted(SITES)


def random_desc(seed_int, site=None):
    rnd = random.Random(seed_int)
    sname = site or rnd.choice(_SITE_NAMES)
    depth = rnd.choice([1, 2, 2, 3, 3])
    stmt_site = sname != "dyn" and SITES[sname]["stmt"] is not None
    return {"c": "random", "site": sname, "pl": rnd.choice(PLACEMENTS), "sh": random_shape(rnd, depth), "x": "stmt" if stmt_site else rnd.choice(XCTX),
            "p": 0 if stmt_site else rnd.randrange(3), "nk": rnd.choice(NATIVE_KINDS), "nk2": rnd.choice(NATIVE_KINDS), "lk": rnd.choice(LOOP_KINDS), "oc": rnd.randrange(3),
            "outer": rnd.choice(["catch", "catch", "catch", "none"]), "twice": rnd.randrange(2), "hn": rnd.choice([None, None, None] + NATIVE_KINDS), "top": 1 if rnd.randrange(6) == 0 else 0, "v": seed_int}


def from_desc(d):
    c = d.get("c")
    if c == "errobj":
        return errobj_program(d)
    if c == "location":
        return location_program(d)
    return build(d)


def all_model_campaigns():
    """(name, generator of recipes) for every campaign compared with the reference interpreter."""
    return [("sites", sites_product()), ("shapes", shapes_product()), ("shapes2", shapes2_product()), ("shapes3", shapes3_product()), ("uncaught", uncaught_cases()), ("errobj", errobj_cases())]
