"""Check context: evidence, violations, known findings, replay files."""
import collections
import gzip
import hashlib
import json
import os
import sys
import time

ROOT = os.path.dirname(os.path.dirname(os.path.abspath(__file__)))
KNOWN_FILE = os.path.join(ROOT, "known_findings.jsonl")
OUT_REPLAY = os.path.join(ROOT, "out", "replay")
SAVED_REPLAY = os.path.join(ROOT, "replay")
MAX_VIOLATION_LINES = 20


def jdump(o):
    return json.dumps(o, sort_keys=True, ensure_ascii=True, default=repr)


def h16(o):
    return hashlib.sha256(jdump(o).encode()).hexdigest()[:16]


def load_json(path):
    if path.endswith(".gz"):
        with gzip.open(path, "rt", encoding="utf-8") as f:
            return json.load(f)
    with open(path, encoding="utf-8") as f:
        return json.load(f)


def shard_seed(seed, *parts):
    s = hashlib.sha256(("%d|" % seed + "|".join(map(str, parts))).encode()).digest()
    return int.from_bytes(s[:8], "big")


class Check:
    def __init__(self, prop, tier, seed):
        self.prop = prop
        self.tier = tier
        self.seed = seed
        self.t0 = time.time()
        self.evaluations = 0
        self._nontrivial = set()
        self.classes = collections.Counter()
        self.samples = []
        self._sample_classes = collections.Counter()
        self.violations = collections.OrderedDict()  # signature -> record
        self.violation_count = 0
        self.known_hits = collections.Counter()  # finding id -> cases
        self.excluded = collections.Counter()  # finding id / reason -> cases not generated
        self.extra = {}
        self.assumptions = []
        self.rule = ""
        self.truncated = False
        self.exhaustive = None
        self.findings = []  # entries for this property
        self.known_cells = {}  # cell key -> (finding id, recorded actual)
        self.guards = {}  # guard name -> finding entry
        self._load_known()

    # ------------------------------------------------------------------ known
    def _load_known(self):
        files = [KNOWN_FILE]
        extra = os.environ.get("VERIF_KNOWN_EXTRA")  # development aid: proposed entries not merged yet
        if extra:
            files.append(extra)
        for fn in files:
            if os.path.exists(fn):
                self._load_known_file(fn)

    def _load_known_file(self, fn):
        with open(fn, encoding="utf-8") as f:
            for line in f:
                line = line.strip()
                if not line or line.startswith("#"):
                    continue
                e = json.loads(line)
                if e.get("property") != self.prop:
                    continue
                self.findings.append(e)
                if e.get("status") != "known":
                    continue
                kf = e.get("cells_file")
                if kf:
                    cells = load_json(os.path.join(ROOT, kf))
                    for k, actual in cells.items():
                        self.known_cells[k] = (e["id"], actual)
                for k, actual in (e.get("cells") or {}).items():
                    self.known_cells[k] = (e["id"], actual)
                if e.get("guard"):
                    self.guards[e["guard"]] = e

    def known_entry(self, fid):
        for e in self.findings:
            if e["id"] == fid:
                return e
        return None

    def guard_listed(self, name):
        """True when a *known* finding with this guard name is listed."""
        return name in self.guards

    # --------------------------------------------------------------- evidence
    def count(self, n=1):
        self.evaluations += n

    def nontrivial(self, key):
        """Record a distinct non-trivial case (by key)."""
        if not isinstance(key, (str, bytes, int)):
            key = h16(key)
        self._nontrivial.add(key)

    def nontrivial_many(self, keys):
        self._nontrivial.update(keys)

    def classify(self, label, n=1):
        self.classes[label] += n

    def sample(self, case, cls="", per_class=2, total=40):
        if len(self.samples) >= total:
            return
        if self._sample_classes[cls] >= per_class:
            return
        self._sample_classes[cls] += 1
        self.samples.append(case)

    # ------------------------------------------------------------- violations
    def cell(self, key, expected, actual, case, sub="", signature=None):
        """Compare one enumerated cell.  A mismatch that is listed (same key,
        same recorded wrong answer) is a known finding; any other mismatch is
        a violation.  Returns True when the cell agrees with the oracle."""
        if expected == actual:
            return True
        k = self.known_cells.get(key)
        if k is not None and k[1] == actual:
            self.known_hits[k[0]] += 1
            return False
        self.violation(signature or (sub + "|" + key), case, expected, actual, sub=sub)
        return False

    def violation(self, signature, case, expected=None, actual=None, sub="", detail=None):
        self.violation_count += 1
        sig = signature if isinstance(signature, str) else jdump(signature)
        if sig in self.violations:
            self.violations[sig]["count"] += 1
            return
        self.violations[sig] = {
            "property": self.prop,
            "sub": sub,
            "signature": sig,
            "case": case,
            "expected": expected,
            "actual": actual,
            "detail": detail,
            "seed": self.seed,
            "count": 1,
        }

    def known_hit(self, fid, n=1):
        self.known_hits[fid] += n

    # ------------------------------------------------------------------ finish
    def finish(self):
        wall = time.time() - self.t0
        lines = []
        # known findings that were actually seen on this run
        for fid, n in sorted(self.known_hits.items()):
            e = self.known_entry(fid)
            what = e["what"] if e else fid
            lines.append("KNOWN-FINDING: property=%s id=%s cases=%d %s" % (self.prop, fid, n, what))
        os.makedirs(os.path.join(OUT_REPLAY, self.prop), exist_ok=True)
        for fn in os.listdir(os.path.join(OUT_REPLAY, self.prop)):
            if fn.endswith(".json"):
                os.unlink(os.path.join(OUT_REPLAY, self.prop, fn))
        vlines = []
        for i, (sig, rec) in enumerate(self.violations.items()):
            path = os.path.join(OUT_REPLAY, self.prop, "%s.json" % h16(sig))
            with open(path, "w", encoding="utf-8") as f:
                json.dump(rec, f, indent=1, ensure_ascii=True, default=repr)
            if i < MAX_VIOLATION_LINES:
                vlines.append(
                    "VIOLATION property=%s replay=%s  # %s expected=%s actual=%s (x%d)"
                    % (
                        self.prop,
                        path,
                        sig[:120],
                        jdump(rec["expected"])[:100],
                        jdump(rec["actual"])[:100],
                        rec["count"],
                    )
                )
        if len(self.violations) > MAX_VIOLATION_LINES:
            vlines.append(
                "# %d further violation signatures not listed (replays written)"
                % (len(self.violations) - MAX_VIOLATION_LINES)
            )
        cov = {
            "evaluations": int(self.evaluations),
            "distinct_nontrivial": len(self._nontrivial),
            "rule": self.rule,
            "samples": self.samples[:40],
            "classes": dict(self.classes.most_common(80)),
            "known_findings_seen": dict(self.known_hits),
            "excluded_by_finding": dict(self.excluded),
            "violation_signatures": len(self.violations),
            "truncated": self.truncated,
        }
        if self.exhaustive is not None:
            cov["exhaustive"] = bool(self.exhaustive)
        cov.update(self.extra)
        ev = {
            "property_id": self.prop,
            "tier": self.tier,
            "seed": int(self.seed),
            "level": "exploration",
            "coverage": cov,
            "assumptions": self.assumptions,
            "wall_s": round(wall, 3),
            "violations": int(self.violation_count),
        }
        os.makedirs(os.path.join(ROOT, "evidence"), exist_ok=True)
        with open(os.path.join(ROOT, "evidence", "%s.json" % self.prop), "w", encoding="utf-8") as f:
            json.dump(ev, f, indent=1, ensure_ascii=True, default=repr)
        for l in lines:
            print(l)
        for l in vlines:
            print(l)
        print(
            "%s %s seed=%d: %d evaluations, %d distinct non-trivial, %d violations (%d signatures), %d known-finding cases, %.1fs"
            % (
                self.prop,
                self.tier,
                self.seed,
                self.evaluations,
                len(self._nontrivial),
                self.violation_count,
                len(self.violations),
                sum(self.known_hits.values()),
                wall,
            )
        )
        sys.stdout.flush()
        return 1 if self.violations else 0


def saved_replays(prop):
    d = os.path.join(SAVED_REPLAY, prop)
    if not os.path.isdir(d):
        return []
    out = []
    for fn in sorted(os.listdir(d)):
        if fn.endswith(".json"):
            out.append((os.path.join(d, fn), load_json(os.path.join(d, fn))))
    return out
