"""Forked worker pool with a per-task watchdog.

run(fn, tasks) evaluates fn(task) for every task in forked workers and returns
the results in task order.  A task that exceeds `timeout` wall seconds gets
the worker killed and the result HANG; a worker that dies gets CRASH.  An
exception escaping fn is a harness error and is re-raised in the parent.
"""
import contextlib
import multiprocessing as mp
import multiprocessing.connection as mpc
import os
import resource
import signal
import sys
import time
import traceback

NPROC = int(os.environ.get("VERIF_NPROC", "16"))


class HANG:
    def __init__(self, task):
        self.task = task

    def __repr__(self):
        return "HANG"


class CRASH:
    def __init__(self, task, code):
        self.task = task
        self.code = code

    def __repr__(self):
        return "CRASH(%s)" % self.code


class HarnessTimeout(BaseException):
    """Raised inside a worker by the CPU-time alarm (BaseException so that the
    engine's `except Exception` wrappers cannot swallow it)."""


def _alarm_handler(signum, frame):
    raise HarnessTimeout()


@contextlib.contextmanager
def cpu_alarm(seconds):
    """Interrupt pure-Python work of the engine after `seconds` of CPU time."""
    old = signal.signal(signal.SIGVTALRM, _alarm_handler)
    # re-armed every CPU second after the first expiry: an alarm that lands inside a gc
    # callback (Hypothesis registers one) is swallowed as "Exception ignored in ..."
    signal.setitimer(signal.ITIMER_VIRTUAL, seconds, 1.0)
    try:
        yield
    finally:
        signal.setitimer(signal.ITIMER_VIRTUAL, 0)
        signal.signal(signal.SIGVTALRM, old)


def _worker(conn, fn, init, mem_bytes):
    try:
        if mem_bytes:
            try:
                resource.setrlimit(resource.RLIMIT_AS, (mem_bytes, mem_bytes))
            except Exception:
                pass
        sys.setrecursionlimit(max(sys.getrecursionlimit(), 1000))
        if init is not None:
            init()
        while True:
            msg = conn.recv()
            if msg is None:
                break
            idx, task = msg
            try:
                res = ("R", fn(task))
            except BaseException as e:  # harness bug or stray alarm
                res = ("E", "%s\n%s" % (repr(e), traceback.format_exc()[-3000:]))
            conn.send((idx, res))
    except (EOFError, KeyboardInterrupt):
        pass
    finally:
        os._exit(0)


class _W:
    def __init__(self, fn, init, mem_bytes):
        self.parent, child = mp.Pipe()
        self.proc = mp.get_context("fork").Process(
            target=_worker, args=(child, fn, init, mem_bytes), daemon=True
        )
        self.proc.start()
        child.close()
        self.idx = None
        self.t0 = 0.0


def run(fn, tasks, timeout=120.0, nproc=None, init=None, mem_bytes=6 << 30, progress=None):
    """Evaluate fn over tasks; returns list of results (or HANG/CRASH objects)."""
    tasks = list(tasks)
    n = len(tasks)
    results = [None] * n
    if n == 0:
        return results
    nproc = min(nproc or NPROC, n)
    workers = [_W(fn, init, mem_bytes) for _ in range(nproc)]
    nxt = 0
    done = 0
    errors = []

    def feed(w):
        nonlocal nxt
        if nxt < n:
            w.idx = nxt
            w.t0 = time.monotonic()
            w.parent.send((nxt, tasks[nxt]))
            nxt += 1
        else:
            w.idx = None

    for w in workers:
        feed(w)
    try:
        while done < n:
            busy = [w for w in workers if w.idx is not None]
            if not busy:
                break
            ready = mpc.wait([w.parent for w in busy], timeout=0.5)
            now = time.monotonic()
            for w in busy:
                if w.parent in ready:
                    try:
                        idx, res = w.parent.recv()
                    except (EOFError, OSError):
                        w.proc.join(1)
                        results[w.idx] = CRASH(tasks[w.idx], w.proc.exitcode)
                        done += 1
                        workers[workers.index(w)] = nw = _W(fn, init, mem_bytes)
                        feed(nw)
                        continue
                    if res[0] == "E":
                        errors.append(res[1])
                        results[idx] = None
                    else:
                        results[idx] = res[1]
                    done += 1
                    if progress:
                        progress(done, n)
                    feed(w)
                elif now - w.t0 > timeout:
                    try:
                        w.proc.kill()
                    except Exception:
                        pass
                    w.proc.join(1)
                    results[w.idx] = HANG(tasks[w.idx])
                    done += 1
                    workers[workers.index(w)] = nw = _W(fn, init, mem_bytes)
                    feed(nw)
                elif not w.proc.is_alive() and not w.parent.poll():
                    results[w.idx] = CRASH(tasks[w.idx], w.proc.exitcode)
                    done += 1
                    workers[workers.index(w)] = nw = _W(fn, init, mem_bytes)
                    feed(nw)
    finally:
        for w in workers:
            try:
                if w.proc.is_alive():
                    try:
                        w.parent.send(None)
                    except Exception:
                        pass
                    w.proc.join(0.5)
                    if w.proc.is_alive():
                        w.proc.kill()
            except Exception:
                pass
    if errors:
        from .engine import HarnessError

        raise HarnessError("worker raised: " + errors[0])
    return results


def chunks(seq, size):
    seq = list(seq)
    return [seq[i : i + size] for i in range(0, len(seq), size)]
