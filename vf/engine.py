"""Load microjs from the working tree and normalise outcomes.

"Build" for this repository = import.  The sources are taken from
$VERIF_REPO/src (default /repo/src); nothing is written into the repository
(PYTHONDONTWRITEBYTECODE is set by run.py).
"""
import math
import os
import sys

REPO = os.environ.get("VERIF_REPO", "/repo")
SRC = os.path.join(REPO, "src")

_loaded = None


class HarnessError(Exception):
    """Something is wrong with the harness, not with the engine (exit 2)."""


def load():
    """Import microjs from the working tree; returns the module."""
    global _loaded
    if _loaded is not None:
        return _loaded
    if SRC in sys.path:
        sys.path.remove(SRC)
    sys.path.insert(0, SRC)
    for k in [k for k in sys.modules if k == "microjs" or k.startswith("microjs.")]:
        del sys.modules[k]
    import microjs  # noqa

    f = os.path.realpath(microjs.__file__)
    if not f.startswith(os.path.realpath(SRC) + os.sep):
        raise HarnessError("microjs imported from %s, not from %s" % (f, SRC))
    _loaded = microjs
    return microjs


def js_family():
    m = load()
    return m.JSError


# --------------------------------------------------------------------------
# typed normalisation of Python values that eval()/get() hand back


def tv(v, depth=0):
    """Tagged, JSON-able, *typed* rendering of a Python value returned by the
    engine (eval/get).  Numbers are rendered by IEEE value so that int 1 and
    float 1.0 compare equal but -0.0 / NaN / inf are kept apart; an int that
    is not representable as a double is tagged 'bigint' (never equal to a
    double)."""
    if v is None:
        return ["nil"]
    if v is True:
        return ["b", 1]
    if v is False:
        return ["b", 0]
    if isinstance(v, int):
        try:
            f = float(v)
        except OverflowError:
            return ["bigint", str(v)]
        if int(f) != v:
            try:
                return ["bigint", str(v)]
            except ValueError:  # more digits than int -> str conversion allows
                return ["bigint", "~2^%d" % v.bit_length()]
        return ["n", numkey(f)]
    if isinstance(v, float):
        return ["n", numkey(v)]
    if isinstance(v, str):
        return ["s", v]
    if depth > 12:
        return ["deep"]
    if isinstance(v, list):
        return ["a", [tv(x, depth + 1) for x in v]]
    if isinstance(v, dict):
        return ["o", [[str(k), tv(x, depth + 1)] for k, x in v.items()]]
    if callable(v) or type(v).__name__ in ("JSFunction",):
        return ["fn"]
    return ["py", type(v).__module__ + "." + type(v).__name__]


def numkey(f):
    """Canonical string for a double (keeps -0, NaN, inf apart)."""
    if f != f:
        return "NaN"
    if f == 0:
        return "-0" if math.copysign(1.0, f) < 0 else "0"
    if f in (math.inf, -math.inf):
        return "Infinity" if f > 0 else "-Infinity"
    return repr(float(f))


def exc_info(e):
    """Describe an exception raised by eval: (family, class, name, message, frame)."""
    m = load()
    fam = isinstance(e, m.JSError)
    cls = type(e).__name__
    frame = ""
    tb = e.__traceback__
    while tb is not None:
        fn = tb.tb_frame.f_code.co_filename
        if os.sep + "microjs" + os.sep in fn:
            frame = "%s:%s" % (os.path.basename(fn), tb.tb_frame.f_code.co_name)
        tb = tb.tb_next
    return {
        "family": fam,
        "cls": cls,
        "name": getattr(e, "name", None) if fam else None,
        "message": (getattr(e, "message", None) if fam else str(e)[:200]),
        "line": getattr(e, "line", None),
        "column": getattr(e, "column", None),
        "frame": frame,
    }


def run_js(src, time_limit=None, memory_limit=None, ctx=None, setup=None):
    """Evaluate src on a fresh (or given) context.
    Returns ('ok', typed value) or ('err', exc_info)."""
    m = load()
    if ctx is None:
        ctx = m.Context(memory_limit=memory_limit, time_limit=time_limit)
        if setup:
            setup(ctx)
    try:
        r = ctx.eval(src)
    except RecursionError as e:  # keep the traceback small
        return ("err", exc_info(e))
    except Exception as e:
        return ("err", exc_info(e))
    return ("ok", tv(r))
