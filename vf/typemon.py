"""Value-typing monitor for C03: after every VM instruction the value on top of the operand
stack must be a JavaScript value (or one of the VM's own loop-iterator markers).

Installed from the outside (the harness replaces VM._execute_opcode in its own process; nothing
in the repository changes).  If the VM no longer has that method / a `stack` list the monitor
reports itself unavailable and the campaigns that rely on it say so in the evidence.
"""
from . import engine


class Monitor:
    def __init__(self):
        self.bad = []          # [(python type, opcode name)]
        self.checked = 0
        self.types = set()
        self.available = False
        self.exposed = []
        self._orig = None

    def allowed(self, v):
        m = engine.load()
        from microjs import values

        if v is m.UNDEFINED or v is m.NULL or isinstance(v, (bool, int, float, str)):
            return True
        if isinstance(v, (values.JSObject, values.JSFunction)):
            return True
        if isinstance(v, getattr(values, "JSBoundMethod", ())):
            return True
        if isinstance(v, type):
            return False
        if callable(v):
            if any(v is e for e in self.exposed):
                return True
            mod = getattr(v, "__module__", None) or getattr(getattr(v, "__func__", None), "__module__", None) or ""
            return isinstance(mod, str) and mod.startswith("microjs")
        # the VM's own for-in / for-of cursors live on the operand stack between instructions
        t = type(v)
        return t.__module__ == "microjs.vm" and t.__name__ in ("ForInIterator", "ForOfIterator")

    def install(self):
        engine.load()
        try:
            from microjs import vm as vmmod

            VM = vmmod.VM
            orig = VM._execute_opcode
        except Exception:
            return False
        mon = self
        fast = set()

        def patched(vmself, op, arg, frame):
            r = orig(vmself, op, arg, frame)
            try:
                st = vmself.stack
                if st:
                    v = st[-1]
                    t = type(v)
                    mon.checked += 1
                    if t not in fast:
                        mon.types.add(t.__name__)
                        if mon.allowed(v):
                            if t in (bool, int, float, str) or t.__module__ == "microjs.values":
                                fast.add(t)
                        elif t.__name__ == "CompiledFunction" and t.__module__ == "microjs.compiler" and getattr(op, "name", "") == "LOAD_CONST":
                            pass  # a function constant on its way into MAKE_CLOSURE (the next instruction)
                        elif len(mon.bad) < 50:
                            mon.bad.append(("%s.%s" % (t.__module__, t.__name__), getattr(op, "name", str(op))))
            except AttributeError:
                mon.available = False
            return r

        self._orig = (VM, orig)
        VM._execute_opcode = patched
        self.available = True
        return True

    def uninstall(self):
        if self._orig:
            self._orig[0]._execute_opcode = self._orig[1]
            self._orig = None

    def take(self):
        b, self.bad = self.bad, []
        return b
