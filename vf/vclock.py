"""Virtual clock: every read of the monotonic clocks returns base + reads*delta.

Installed in a worker process *before* microjs is (re-)imported, so that
`time_limit=T` means "T/delta clock reads" and a run is a pure function of the
code.  time.time (Date.now) and time.process_time stay real.
"""
import time

DELTA = 0.001


class VClock:
    def __init__(self, delta=DELTA):
        self.delta = delta
        self.reads = 0
        self.base = 1000.0
        self.max_gap = 0.0
        self.last_cpu = time.process_time()

    def reset(self):
        self.reads = 0
        self.max_gap = 0.0
        self.last_cpu = time.process_time()

    def read(self):
        self.reads += 1
        now = time.process_time()
        gap = now - self.last_cpu
        if gap > self.max_gap:
            self.max_gap = gap
        self.last_cpu = now
        return self.base + self.reads * self.delta

    def close(self):
        """CPU seconds of the longest stretch without a clock read (incl. the tail)."""
        gap = time.process_time() - self.last_cpu
        return max(self.max_gap, gap)

    def read_ns(self):
        return int(self.read() * 1e9)


CLOCK = None
_real = {}


def install():
    """Replace the monotonic clocks of the time module and re-import microjs."""
    global CLOCK
    if CLOCK is not None:
        return CLOCK
    CLOCK = VClock()
    for name in ("monotonic", "perf_counter"):
        _real[name] = getattr(time, name)
        setattr(time, name, CLOCK.read)
    for name in ("monotonic_ns", "perf_counter_ns"):
        _real[name] = getattr(time, name)
        setattr(time, name, CLOCK.read_ns)
    from . import engine

    engine._loaded = None
    engine.load()  # fresh import under the substituted clock
    return CLOCK


def real_monotonic():
    return _real.get("monotonic", time.monotonic)()
