#!/venv/bin/python
"""Single entry point:  run.py <ID> [quick|thorough] [--replay FILE] [--seed N]

exit 0  property held on everything explored (KNOWN-FINDING lines allowed)
exit 1  at least one `VIOLATION property=<ID> replay=<path>` line
exit 2  harness error (never a verdict about the engine)
"""
import importlib
import json
import os
import sys
import traceback

HERE = os.path.dirname(os.path.abspath(__file__))


def _reexec_if_needed():
    want = {"PYTHONHASHSEED": "0", "PYTHONDONTWRITEBYTECODE": "1"}
    if any(os.environ.get(k) != v for k, v in want.items()) and not os.environ.get("VERIF_NO_REEXEC"):
        env = dict(os.environ)
        env.update(want)
        env["VERIF_NO_REEXEC"] = "1"
        os.execve(sys.executable, [sys.executable, "-B"] + sys.argv, env)


def main(argv):
    _reexec_if_needed()
    sys.path.insert(0, HERE)
    deps = os.path.join(HERE, ".deps")
    if os.path.isdir(deps):
        sys.path.insert(1, deps)
    args = [a for a in argv[1:]]
    if not args:
        print(__doc__)
        return 2
    prop = args.pop(0).upper()
    tier = os.environ.get("VERIF_TIER", "quick")
    replay = None
    seed = int(os.environ.get("VERIF_SEED", "1") or 1)
    while args:
        a = args.pop(0)
        if a in ("quick", "thorough"):
            tier = a
        elif a == "--replay":
            replay = args.pop(0)
        elif a == "--seed":
            seed = int(args.pop(0))
        else:
            print("unknown argument", a)
            return 2
    from vf import core, engine

    try:
        engine.load()
        mod = importlib.import_module("checks.%s" % prop.lower())
        if replay:
            with open(replay, encoding="utf-8") as f:
                rec = json.load(f)
            res = mod.replay(rec)
            if res.get("fails"):
                print("VIOLATION property=%s replay=%s  # expected=%s actual=%s" % (
                    prop, replay, core.jdump(res.get("expected"))[:200], core.jdump(res.get("actual"))[:200]))
                return 1
            print("replay passes: %s" % core.jdump(res)[:300])
            return 0
        chk = core.Check(prop, tier, seed)
        mod.main(chk)
        return chk.finish()
    except engine.HarnessError as e:
        print("HARNESS-ERROR %s: %s" % (prop, e))
        return 2
    except Exception:
        traceback.print_exc()
        print("HARNESS-ERROR %s: unexpected exception in harness" % prop)
        return 2


if __name__ == "__main__":
    sys.exit(main(sys.argv))
