#!/bin/bash
# try_neutral.sh <patch> [ids...]: a change that keeps every property (refactor, retuned internal constant, reworded
# message) must leave every check quiet.  Scratch copy of /repo HEAD + patch, repository tests, then each quick check.
cd "$(dirname "$0")/.."
P=$(readlink -f $1); shift
W=$(mktemp -d /tmp/verif-neutral-XXXX)
git -C /repo archive HEAD | tar -x -C $W
if ! patch -p1 -s -d $W -i $P; then echo "PATCH DOES NOT APPLY"; rm -rf $W; exit 3; fi
(cd $W && PYTHONPATH=$W/src /venv/bin/python -m pytest -q -p no:cacheprovider tests 2>&1 | tail -1)
IDS=${@:-$(/venv/bin/python -c "import json; print(' '.join(c['property_id'] for c in json.load(open('MANIFEST.json'))['checks']))")}
for id in $IDS; do
  S=$(date +%s); out=$(VERIF_REPO=$W ./run.py $id quick 2>&1); rc=$?
  echo "$id exit=$rc $(( $(date +%s) - S ))s | $(echo "$out" | tail -1 | cut -c1-140)"
  [ $rc -ne 0 ] && echo "$out" | grep -E "^(VIOLATION|HARNESS)" | head -4 | cut -c1-300
done
rm -rf $W
