#!/venv/bin/python
"""Snapshot the program corpus used by C04/C13/C15 from the repository's tests and docs
(development-time tool; the snapshot corpus/corpus.json is what the checks read)."""
import ast, glob, json, os, re
out = {}
def add(src, origin):
    src = src.strip("\n")
    if 0 < len(src) <= 60000 and src not in out:
        out[src] = origin
for f in sorted(glob.glob("/repo/tests/**/*.js", recursive=True)):
    add(open(f, encoding="utf-8").read(), os.path.relpath(f, "/repo"))
for f in sorted(glob.glob("/repo/tests/*.py")):
    try:
        tree = ast.parse(open(f, encoding="utf-8").read())
    except SyntaxError:
        continue
    for node in ast.walk(tree):
        if isinstance(node, ast.Call) and node.args and isinstance(node.args[0], ast.Constant) and isinstance(node.args[0].value, str):
            fn = node.func
            name = fn.attr if isinstance(fn, ast.Attribute) else getattr(fn, "id", "")
            if name in ("eval", "Parser", "Lexer", "run_js", "parse", "tokenize", "run"):
                add(node.args[0].value, os.path.relpath(f, "/repo") + ":" + name)
for f in ("/repo/README.md",):
    txt = open(f, encoding="utf-8").read()
    for m in re.finditer(r'ctx\.eval\(\s*(?:"""(.*?)"""|"((?:[^"\\]|\\.)*)"|\'((?:[^\'\\]|\\.)*)\')', txt, re.S):
        s = m.group(1) or m.group(2) or m.group(3)
        if s:
            add(s.encode().decode("unicode_escape") if "\\" in s and m.group(1) is None else s, "README.md")
items = [{"src": s, "origin": o} for s, o in out.items()]
json.dump(items, open(os.path.join(os.path.dirname(os.path.dirname(os.path.abspath(__file__))), "corpus", "corpus.json"), "w"), indent=0)
print(len(items), "programs,", sum(len(i["src"]) for i in items), "chars")
