#!/venv/bin/python
"""Regenerate the generated part of DESIGN.md section 8 (8.2 repairs, 8.3 known findings, 8.4 seeded changes)
from known_findings.jsonl and seeded/*/meta.json.  Everything between the AUTO markers is replaced."""
import collections, glob, json, os, re
ROOT = os.path.dirname(os.path.dirname(os.path.abspath(__file__)))
fixed = collections.defaultdict(list); known = []
for l in open(os.path.join(ROOT, "known_findings.jsonl")):
    l = l.strip()
    if not l or l.startswith("#"): continue
    e = json.loads(l)
    (fixed[e["property"]].append(e) if e["status"] == "fixed" else known.append(e))
out = ["""
### 8.2 Genuine defects repaired in the engine (`fix:` commits)

Every check started red on the pinned tree. Each root cause was reproduced from a shrunk replay, checked against the
specification text (and node at development time), and repaired by a small unguarded `fix:` commit where a maintainer
would accept the patch; the repository's 487 tests pass unedited after every one. `known_findings.jsonl` lists each as
`fixed` (property, commit, what failed, regression replay where one exists); a fixed entry suppresses nothing: the
replays under `replay/<ID>/` are re-run at the start of both tiers and a returning defect exits 1.
Summary by property (commit hashes are those of /repo):
"""]
tot = 0
for prop in sorted(fixed):
    es = fixed[prop]; tot += len(es)
    out.append("\n**%s** (%d)\n" % (prop, len(es)))
    for e in es:
        out.append("* `%s` %s" % (e.get("commit", "?"), e["what"].replace("\n", " ")[:230]))
out.append("\nTotal: %d repairs.\n" % tot)
out.append("\n### 8.3 Known findings (recorded, not repaired)\n")
for e in known:
    mech = "cells file `%s`" % e["cells_file"] if e.get("cells_file") else "guard `%s` with repro `%s`" % (e.get("guard"), e.get("repro"))
    out.append("* **%s** (%s): %s Mechanism: %s." % (e["id"], e["property"], e["what"][:420], mech))
out.append("""
Why these are not repaired: C16-utf16 is the engine's string representation (code points instead of UTF-16 code units,
listed as not done in spec.md); C19-intkey-order cannot be repaired without editing a repository test that pins insertion
order for integer-like keys (`tests/test_builtin.js test_json`); C19-accessor needs the object model to keep accessors in
the same ordered table as data properties. Each is identified by specific cells / a specific repro, so any *other*
deviation of the same property still exits 1. On the unchanged tree the checks print one `KNOWN-FINDING:` line per
listed finding that still reproduces and exit 0.
""")
rows = []
for d in sorted(glob.glob(os.path.join(ROOT, "seeded", "*"))):
    m = json.load(open(os.path.join(d, "meta.json")))
    cl = lambda s, n: (s or "")[:n].replace("|", "/").replace("\n", " ")
    first = "yes" if m.get("detected_first_try") else ("n/a" if m.get("detected_first_try") is None else "no")
    rows.append("| %s | %s | %s | %s | %s |" % (os.path.basename(d), cl(m.get("summary"), 150), cl(m.get("needs"), 130), first, cl(m.get("detected_by"), 120)))
out.append("""
### 8.4 Seeded changes from independent sub-agents

Fresh sub-agents were given only the text of one property and their own scratch worktree (nothing from /verif) and asked
for realistic changes that keep the repository's tests green but break the property under specific conditions. Each
change was confirmed by the lead on a scratch copy (`tools/try_seeded.sh`: demonstration exits 0 clean / 1 patched,
repository tests pass with the patch) and is kept under `seeded/<ID>-<k>/` (patch.diff, demo.py, meta.json).

| change | what it does | needs | caught at first try | caught by |
|---|---|---|---|---|
""" + "\n".join(rows) + "\n")
# per-property table from MANIFEST + the evidence files of the last quick runs
man = json.load(open(os.path.join(ROOT, "MANIFEST.json")))
rows = []
for c in man["checks"]:
    ev = {}
    try:
        ev = json.load(open(os.path.join(ROOT, "evidence", c["property_id"] + ".json")))
    except Exception:
        pass
    cov = ev.get("coverage", {})
    rows.append("| %s | %s | %s | %s | %s |" % (c["property_id"], c["technique"][:170].replace("|", "/"), cov.get("evaluations", "?"), cov.get("distinct_nontrivial", "?"), ev.get("wall_s", "?")))
out.append("""
### 8.5 Checks as registered (numbers: last quick run on this machine, `evaluations / distinct non-trivial / wall seconds`)

| property | deciding technique | evaluations | non-trivial | wall s |
|---|---|---|---|---|
""" + "\n".join(rows) + "\n\nNot claimed: " + ("; ".join("%s (%s)" % (n["property_id"], n["reason"]) for n in man.get("not_applicable", [])) or "none") + ".\n")
gen = "\n".join(out)
p = os.path.join(ROOT, "DESIGN.md")
s = open(p).read()
B, E_ = "<!-- AUTO:section-8-generated:begin -->", "<!-- AUTO:section-8-generated:end -->"
if B in s:
    s = s[: s.index(B)] + B + "\n" + gen + "\n" + E_ + s[s.index(E_) + len(E_):]
else:
    s = s.rstrip("\n") + "\n\n" + B + "\n" + gen + "\n" + E_ + "\n"
open(p, "w").write(s)
print("repairs:", tot, "known:", len(known), "seeded:", len(rows))
