"""Development-time only: the C09 sensitivity mutants.  Run inside a scratch worktree of /repo that has all
proposed_fixes/C09-*.patch applied:  python /verif/tools/c09_mutants.py <name>  (edits src/microjs/regex/*.py in
the current directory), then VERIF_REPO=<worktree> ./run.py C09 quick must exit 1.  Results: checks/c09_notes.md."""
import sys
name=sys.argv[1]
V='src/microjs/regex/vm.py'; C='src/microjs/regex/compiler.py'
def sub(path, old, new, count=1):
    s=open(path).read()
    assert s.count(old)>=1,(name,old)
    s=s.replace(old,new,count)
    open(path,'w').write(s)
if name=='lazy_optional_greedy':      # SPLIT_NEXT -> SPLIT_FIRST for x??
    sub(C,'''            # Try skip first, match as backup
            split_idx = self._emit(Op.SPLIT_NEXT, 0)''','''            # Try skip first, match as backup
            split_idx = self._emit(Op.SPLIT_FIRST, 0)''')
elif name=='star_no_capture_reset':
    sub(C,'''                split_idx = self._emit(Op.SPLIT_FIRST, 0)
                self._emit_capture_reset(capture_groups)
                self._compile_node(body)
                self._emit(Op.CHECK_ADVANCE, reg)''','''                split_idx = self._emit(Op.SPLIT_FIRST, 0)
                self._compile_node(body)
                self._emit(Op.CHECK_ADVANCE, reg)''')
    sub(C,'''            self._emit_capture_reset(capture_groups)
            self._compile_node(body)
            self._emit(Op.JUMP, loop_start)

            if greedy:
                self._patch(split_idx, Op.SPLIT_FIRST, self._current_offset())''','''            self._compile_node(body)
            self._emit(Op.JUMP, loop_start)

            if greedy:
                self._patch(split_idx, Op.SPLIT_FIRST, self._current_offset())''')
elif name=='check_advance_removed':
    sub(V,'''                if reg_idx < len(registers) and registers[reg_idx] == sp:
                    # Position didn't advance - fail to prevent infinite loop''','''                if False and reg_idx < len(registers) and registers[reg_idx] == sp:
                    # Position didn't advance - fail to prevent infinite loop''')
elif name=='check_advance_on_first_plus_iteration':   # CLEAR_POS does nothing useful
    sub(V,'''                registers[reg_idx] = -1  # CHECK_ADVANCE passes until SET_POS''','''                registers[reg_idx] = sp  # mutant''')
elif name=='casefold_one_direction':
    sub(V,'''                    match = ord(ch.lower()) == char_code or ord(ch.upper()) == char_code''','''                    match = ord(ch.lower()) == char_code''')
elif name=='eol_m_ignores_cr':
    sub(V,'''                if sp != len(string) and string[sp] not in LINE_TERMINATORS:''','''                if sp != len(string) and string[sp] not in "\\n\\u2028\\u2029":''')
elif name=='backref_unset_fails':
    sub(V,'''                if start == -1 or end == -1:
                    # Unset capture - matches empty
                    pc += 1
                    continue''','''                if start == -1 or end == -1:
                    if not stack:
                        return None
                    pc, sp, captures, registers = self._backtrack(stack)
                    continue''')
elif name=='range_neg_ignores_i':
    sub(V,'''                    upper = ch.upper() if self.ignorecase else ch
                    if len(upper) == 1 and start <= ord(upper) <= end:''','''                    upper = ch.upper() if self.ignorecase else ch
                    if False and len(upper) == 1 and start <= ord(upper) <= end:''')
elif name=='alt_jump_to_next_alternative':   # third and later alternatives: jump of alt k lands on alt k+2's split
    sub(C,'''        end_offset = self._current_offset()
        for jump_idx in jump_patches:
            self._patch(jump_idx, Op.JUMP, end_offset)''','''        end_offset = self._current_offset()
        for jump_idx in jump_patches[-1:]:
            self._patch(jump_idx, Op.JUMP, end_offset)
        for jump_idx in jump_patches[:-1]:
            self._patch(jump_idx, Op.JUMP, jump_patches[-1] + 1)''')
elif name=='neg_lookahead_keeps_captures_positive_drops':
    sub(V,'''                    captures = sub  # Keep captures made inside the assertion''','''                    pass  # mutant: captures made inside the assertion are dropped''')
elif name=='lookbehind_forward':
    sub(V,'''        if not mirror:
            return self._execute(''','''        if True:
            return self._execute(''')
elif name=='lookbehind_terms_not_reversed':
    sub(C,'''        for term in reversed(node.terms) if self.backward else node.terms:''','''        for term in node.terms:''')
elif name=='counted_min_copies_one_short':   # x{2,3} compiled as x{1,3}... only when min>=2
    sub(C,'''        # Emit body min_count times (required); every iteration starts
        # with its captures reset
        for _ in range(min_count):''','''        # Emit body min_count times (required); every iteration starts
        # with its captures reset
        for _ in range(min_count if min_count < 3 else min_count - 1):''')
elif name=='greedy_star_lazy_when_nested_in_group_i':  # SPLIT_NEXT snapshot shares captures (aliasing)
    sub(V,'''                stack.append(
                    (pc + 1, sp, [c.copy() for c in captures], registers.copy())
                )
                pc = alt_pc''','''                stack.append((pc + 1, sp, captures, registers.copy()))
                pc = alt_pc''')
elif name=='split_next_snapshot_aliases_captures':  # same as greedy_star_lazy_when_nested_in_group_i (first name used)
    sub(V,'''                stack.append(
                    (pc + 1, sp, [c.copy() for c in captures], registers.copy())
                )
                pc = alt_pc''','''                stack.append((pc + 1, sp, captures, registers.copy()))
                pc = alt_pc''')
elif name=='save_reset_skips_last_group':
    sub(V,'''                for i in range(start_idx, end_idx + 1):
                    if i < len(captures):
                        captures[i] = [-1, -1]
                pc += 1''','''                for i in range(start_idx, end_idx):
                    if i < len(captures):
                        captures[i] = [-1, -1]
                pc += 1''')
elif name=='backref_i_case_sensitive':
    sub(V,'''                if string[sp : sp + len(captured)].lower() == captured.lower():''','''                if string[sp : sp + len(captured)] == captured:''')
elif name=='lookbehind_captures_not_mirrored_back':
    sub(V,'''        return None if sub is None else mirrored(sub)''','''        return None if sub is None else [c.copy() for c in captures]''')
elif name=='word_boundary_ignores_end':
    sub(V,'''        after = pos < len(string) and is_word_char(string[pos])''','''        after = pos < len(string) - 1 and is_word_char(string[pos])''')
elif name=='lazy_plus_is_greedy':
    sub(C,'''            else:
                split_idx = self._emit(Op.SPLIT_NEXT, 0)
                self._emit(Op.JUMP, loop_start)
                self._patch(split_idx, Op.SPLIT_NEXT, self._current_offset())''','''            else:
                split_idx = self._emit(Op.SPLIT_FIRST, 0)
                self._emit(Op.JUMP, loop_start)
                self._patch(split_idx, Op.SPLIT_FIRST, self._current_offset())''')
elif name=='multiline_bol_only_lf':
    sub(V,'''                if sp != 0 and string[sp - 1] not in LINE_TERMINATORS:''','''                if sp != 0 and string[sp - 1] != "\\n":''')
else:
    raise SystemExit('unknown mutant '+name)
