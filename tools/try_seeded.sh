#!/bin/bash
# try_seeded.sh <property ID> <dir with patch.diff demo.py meta.json> [tier]
# Confirms the demonstration (clean: exit 0, patched: exit 1), the repository tests on the patched copy,
# then runs the property's check against the patched copy.
ID=$1; D=$(realpath $2); TIER=${3:-quick}
W=$(mktemp -d /tmp/verif-seed-XXXX)
rsync -a --exclude .git --exclude __pycache__ /repo/ $W/
timeout 300 /venv/bin/python -B $D/demo.py $W >/dev/null 2>&1; echo "demo on clean tree: exit $?"
if ! patch -p1 -s -d $W -i $D/patch.diff >/dev/null 2>&1; then
  # the tree has moved since the change was made: fall back to the commit it was made on (SEED_BASE or meta.json base_commit)
  BASE=${SEED_BASE:-$(/venv/bin/python -c "import json,sys; print(json.load(open('$D/meta.json')).get('base_commit',''))" 2>/dev/null)}
  if [ -z "$BASE" ]; then echo "PATCH DOES NOT APPLY to current /repo (no base commit known)"; rm -rf $W; exit 3; fi
  echo "patch does not apply to HEAD; using base commit $BASE"
  rm -rf $W; W=$(mktemp -d /tmp/verif-seed-XXXX); git -C /repo archive $BASE | tar -x -C $W
  timeout 300 /venv/bin/python -B $D/demo.py $W >/dev/null 2>&1; echo "demo on base tree: exit $?"
  if ! patch -p1 -s -d $W -i $D/patch.diff; then echo "PATCH DOES NOT APPLY to base either"; rm -rf $W; exit 3; fi
fi
timeout 300 /venv/bin/python -B $D/demo.py $W >/dev/null 2>&1; echo "demo on patched tree: exit $?"
(cd $W && PYTHONPATH=$W/src PYTHONDONTWRITEBYTECODE=1 /venv/bin/python -m pytest -q -x -p no:cacheprovider tests 2>&1 | tail -1)
S=$(date +%s)
VERIF_REPO=$W /verif/run.py $ID $TIER > $W/check.out 2>&1; RC=$?
echo "check $ID $TIER: exit $RC in $(( $(date +%s) - S ))s, $(grep -c ^VIOLATION $W/check.out) violation lines"
grep ^VIOLATION $W/check.out | head -3 | cut -c1-260
[ $RC -ge 2 ] && tail -5 $W/check.out
rm -rf $W
