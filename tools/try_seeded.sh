#!/bin/bash
# try_seeded.sh <property ID> <dir with patch.diff demo.py meta.json> [tier]
# Confirms the demonstration (clean: exit 0, patched: exit 1), the repository tests on the patched copy,
# then runs the property's check against the patched copy.
ID=$1; D=$(realpath $2); TIER=${3:-quick}
W=$(mktemp -d /tmp/verif-seed-XXXX)
rsync -a --exclude .git --exclude __pycache__ /repo/ $W/
timeout 300 /venv/bin/python -B $D/demo.py $W >/dev/null 2>&1; echo "demo on clean tree: exit $?"
if ! patch -p1 -s -d $W -i $D/patch.diff; then echo "PATCH DOES NOT APPLY to current /repo"; rm -rf $W; exit 3; fi
timeout 300 /venv/bin/python -B $D/demo.py $W >/dev/null 2>&1; echo "demo on patched tree: exit $?"
(cd $W && PYTHONPATH=$W/src PYTHONDONTWRITEBYTECODE=1 /venv/bin/python -m pytest -q -x -p no:cacheprovider tests 2>&1 | tail -1)
S=$(date +%s)
VERIF_REPO=$W /verif/run.py $ID $TIER > $W/check.out 2>&1; RC=$?
echo "check $ID $TIER: exit $RC in $(( $(date +%s) - S ))s, $(grep -c ^VIOLATION $W/check.out) violation lines"
grep ^VIOLATION $W/check.out | head -3 | cut -c1-260
[ $RC -ge 2 ] && tail -5 $W/check.out
rm -rf $W
