#!/venv/bin/python
"""Development-time only: cross-validate oracles/reapi.py against node on the
generators (and the very script texts) checks/c20.py uses.  Writes
oracle_validation/reapi.json.  Never used by a registered check.

usage: tools/c20_xval.py [scale=1] [seed=1]
"""
import datetime
import json
import os
import random
import subprocess
import sys

HERE = os.path.dirname(os.path.dirname(os.path.abspath(__file__)))
sys.path.insert(0, HERE)
os.environ.setdefault("VERIF_REPO", "/repo")
from checks import c20  # noqa: E402
from oracles import prims as P  # noqa: E402
from oracles import reref  # noqa: E402
from tools.nodeval import node_map  # noqa: E402

NODE_FN = """(src) => { const vm = require('vm');
  const fix = (x) => { if (typeof x === 'number') return {n: Object.is(x, -0) ? '-0' : String(x)};
      if (Array.isArray(x)) return Array.from(x, fix); return x === undefined ? null : x; };
  return fix(vm.runInNewContext('"use strict";\\n' + src)); }"""


def unjson(x):
    """node's JSON -> what the engine's eval would have returned"""
    if isinstance(x, dict) and "n" in x:
        return float(x["n"])
    if isinstance(x, list):
        return [unjson(y) for y in x]
    return x


def canon_method(v):
    return c20._norm_method(unjson(v))


def run_node(scripts):
    out = []
    for i in range(0, len(scripts), 4000):
        out.extend(node_map(NODE_FN, scripts[i : i + 4000]))
    return out


def compare_histories(cases, label, report):
    exps, kept = [], []
    oos = 0
    for c in cases:
        try:
            exps.append(c20.model_history(c)[0])
            kept.append(c)
        except reref.OutOfScope:
            oos += 1
    got = run_node([c20.history_script(c) for c in kept])
    dis = []
    steps = 0
    for c, e, g in zip(kept, exps, got):
        steps += len(c["ops"])
        g2 = c20.norm_pairs(unjson(g))
        if g2 != e:
            dis.append({"case": c, "node": g2, "ref": e})
    report[label] = {"histories": len(kept), "steps": steps, "reference_out_of_scope": oos, "disagreements": len(dis), "examples": dis[:10]}
    print(label, len(kept), "histories,", steps, "steps,", oos, "oos,", len(dis), "disagreements")
    for d in dis[:6]:
        print("   ", json.dumps(d)[:600])
    return len(dis)


def compare_methods(cases, label, report):
    exps, kept = [], []
    oos = 0
    for c in cases:
        try:
            exps.append(c20.model_method(c))
            kept.append(c)
        except reref.OutOfScope:
            oos += 1
    got = run_node([c20.method_script(c) for c in kept])
    dis = []
    by_method = {}
    for c, e, g in zip(kept, exps, got):
        by_method[c["method"]] = by_method.get(c["method"], 0) + 1
        g2 = canon_method(g)
        if g2 != e:
            dis.append({"case": c, "node": g2, "ref": e})
    report[label] = {"cases": len(kept), "by_method": by_method, "reference_out_of_scope": oos, "disagreements": len(dis), "examples": dis[:10]}
    print(label, len(kept), "cases,", oos, "oos,", len(dis), "disagreements")
    for d in dis[:6]:
        print("   ", json.dumps(d)[:700])
    return len(dis)


def main():
    scale = float(sys.argv[1]) if len(sys.argv) > 1 else 1.0
    seed = int(sys.argv[2]) if len(sys.argv) > 2 else 1
    report = {"model": "oracles/reapi.py (over oracles/reref.py), scripts of checks/c20.py", "date": datetime.date.today().isoformat(),
              "node": subprocess.run(["node", "--version"], capture_output=True, text=True).stdout.strip(), "seed": seed}
    total = 0
    # (1) exhaustive campaign (a): a seeded sample of the length-3 histories of every (pattern, flags, subject)
    rnd = random.Random(seed)
    cases = []
    per = max(1, int(150 * scale))
    for p in c20.PATTERNS_A:
        for f in c20.FLAGSETS_A:
            for s in c20.SUBJECTS_A:
                ops = c20.ops_for(len(s))
                tot = len(ops) ** 3
                for h in rnd.sample(range(tot), per):
                    cases.append({"kind": "hist", "pattern": p, "flags": f, "subjects": [s], "ops": c20.history_from_index(ops, 3, h)})
    total += compare_histories(cases, "a_exhaustive_sample_len3", report)
    # (2) random histories
    rnd = random.Random(seed + 1)
    cases = [c20.gen_history_case(rnd) for _ in range(int(20000 * scale))]
    total += compare_histories(cases, "ar_random_histories", report)
    # (3) generated method cases
    rnd = random.Random(seed + 2)
    cases = [c20.gen_method_case(rnd) for _ in range(int(60000 * scale))]
    total += compare_methods(cases, "b_method_cases", report)
    report["total_disagreements"] = total
    with open(os.path.join(HERE, "oracle_validation", "reapi.json"), "w") as f:
        json.dump(report, f, indent=1, ensure_ascii=True)
    print("total disagreements:", total)


if __name__ == "__main__":
    main()
