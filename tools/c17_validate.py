"""Development-time only (uses node): agreement of oracles/arrref.py and
oracles/typedref.py with node on the generators of checks/c17.py.
Writes /verif/oracle_validation/arrref.json and typedref.json.

usage: /venv/bin/python tools/c17_validate.py [arr|typed|hist] [fraction]
"""
import datetime
import json
import os
import subprocess
import sys
import tempfile

HERE = os.path.dirname(os.path.dirname(os.path.abspath(__file__)))
sys.path.insert(0, HERE)

from checks import c17  # noqa: E402
from gens import arrays as G  # noqa: E402
from oracles import arrref as R  # noqa: E402
from vf import core  # noqa: E402

NODE_WRAP = r"""
'use strict';
const fs = require('fs');
const scripts = JSON.parse(fs.readFileSync(process.argv[2]));
function fix(x) {
  if (typeof x === 'number') {
    if (x !== x) return {$n: 'NaN'};
    if (x === Infinity) return {$n: 'Infinity'};
    if (x === -Infinity) return {$n: '-Infinity'};
    if (Object.is(x, -0)) return {$n: '-0'};
    return x;
  }
  if (x === undefined) return null;
  if (Array.isArray(x)) return x.map(fix);
  return x;
}
const out = scripts.map(function (s) {
  try { return ['ok', fix((0, eval)("'use strict';" + s))]; }
  catch (e) { return ['exc', String(e && e.name), String(e && e.message).slice(0, 80)]; }
});
fs.writeFileSync(process.argv[3], JSON.stringify(out));
"""


def unfix(x):
    if isinstance(x, dict) and "$n" in x:
        return G.numkey_to_float(x["$n"])
    if isinstance(x, list):
        return [unfix(e) for e in x]
    if isinstance(x, int) and not isinstance(x, bool):
        return float(x)  # JSON spells integer-valued doubles without exponent
    return x


def node_run(scripts):
    with tempfile.TemporaryDirectory() as d:
        with open(os.path.join(d, "in.json"), "w") as f:
            json.dump(scripts, f)
        with open(os.path.join(d, "w.js"), "w") as f:
            f.write(NODE_WRAP)
        r = subprocess.run(["node", os.path.join(d, "w.js"), os.path.join(d, "in.json"), os.path.join(d, "out.json")],
                           capture_output=True, text=True)
        if r.returncode != 0:
            raise RuntimeError(r.stderr[-2000:])
        with open(os.path.join(d, "out.json")) as f:
            return [unfix(x) for x in json.load(f)]


class FakeChk:
    def __init__(self, tier, seed):
        self.tier, self.seed = tier, seed
        self.excluded = {}
        self.extra = {}
        import collections

        self.excluded = collections.Counter()


def node_version():
    return subprocess.run(["node", "--version"], capture_output=True, text=True).stdout.strip()


def validate_arr(fraction):
    import random

    chk = FakeChk("thorough", 1)
    methods = [m for m in R.VOCABULARY if m in R.METHODS and c17.arg_vectors(m, []) is not None]
    rnd = random.Random(7)
    cases = [c for c in c17.grid_cases(chk, methods, set()) if rnd.random() < fraction]
    disagreements = []
    per_method = {}
    n = 0
    for batch in core_chunks(cases, 400):
        scripts = [G.PRELUDE + G.build_case(c)[0] + "\nOUT" for c in batch]
        outs = node_run(scripts)
        for case, o in zip(batch, outs):
            n += 1
            per_method[case["m"]] = per_method.get(case["m"], 0) + 1
            exp, ctx, before = G.expected_case(case)
            if o[0] != "ok":
                act = [["exception", o[1], o[2]], None, None]
            else:
                act = G.actual_from_raw(o[1][0])
            if case["m"] in ("sort", "toSorted"):
                act, why = c17.judge_sort(case, exp, ctx, before, act)
            if act != exp and len(disagreements) < 40:
                disagreements.append({"case": case, "model": exp, "node": act})
            elif act != exp:
                disagreements.append(None)
    return {"model": "oracles/arrref.py", "cases": n, "per_method": per_method,
            "disagreements": len(disagreements), "examples": [d for d in disagreements if d][:40]}


def validate_assign():
    """Length assignment and the Array constructor, where the documented
    stricter-mode rules coincide with ECMAScript (validity of the length)."""
    from oracles import prims as P

    cells = [c for c in c17.assign_cells() if c[-1]["op"] in ("setlen", "newarr")]
    scripts, exps = [], []
    for steps in cells:
        last = steps[-1]
        if last["op"] == "setlen":
            base = [G.pvalue(x) for x in steps[0]["items"]]
            a = R.Arr(base)
            v = c17.spec_model(last["val"])
            try:
                R.length_write(a, v)
                exp = ["ok", float(len(a.items))]
            except R.Throw as t:
                exp = ["throw", t.value.name]
            scripts.append("var a = [%s]; var r; try { a.length = %s; r = ['ok', a.length]; } catch (e) { r = ['throw', e.name]; } r"
                           % (", ".join(P.js_literal(x) for x in base), c17.spec_js(last["val"])))
        else:
            ms = [c17.spec_model(x) if x[0] != "rec" else R.Obj() for x in last["args"]]
            if len(ms) == 1 and isinstance(ms[0], float):
                exp = ["ok", ms[0]] if float(P.to_uint32(ms[0])) == ms[0] else ["throw", "RangeError"]
            else:
                exp = ["ok", float(len(ms))]
            scripts.append("var r; try { var a = %sArray(%s); r = ['ok', a.length]; } catch (e) { r = ['throw', e.name]; } r"
                           % ("new " if last["new"] else "", ", ".join("({})" if x[0] == "rec" else c17.spec_js(x) for x in last["args"])))
        exps.append(exp)
    outs = node_run(scripts)
    dis = []
    for sc, e, o in zip(scripts, exps, outs):
        act = o[1] if o[0] == "ok" else ["exception"] + o[1:]
        if act != e:
            dis.append({"script": sc, "model": e, "node": act})
    return {"cases": len(scripts), "disagreements": len(dis), "examples": dis[:10]}


def core_chunks(seq, size):
    seq = list(seq)
    return [seq[i:i + size] for i in range(0, len(seq), size)]


def main():
    what = sys.argv[1] if len(sys.argv) > 1 else "arr"
    fraction = float(sys.argv[2]) if len(sys.argv) > 2 else 0.1
    if what == "arr":
        rep = validate_arr(fraction)
        rep["length_and_constructor"] = validate_assign()
        rep["disagreements"] += rep["length_and_constructor"]["disagreements"]
        rep["note"] = ("campaign (b) uses the same method model; its element-assignment rules (write at length appends, "
                       "further out throws, no holes) are the documented stricter mode of /repo/spec.md and intentionally differ from node")
        path = os.path.join(HERE, "oracle_validation", "arrref.json")
    else:
        rep = c17.validate_typed_with_node(node_run)
        rep["model"] = "oracles/typedref.py"
        path = os.path.join(HERE, "oracle_validation", "typedref.json")
    rep["date"] = datetime.date.today().isoformat()
    rep["node"] = node_version()
    rep["mode"] = "strict"
    with open(path, "w") as f:
        json.dump(rep, f, indent=1, sort_keys=True, default=repr)
    print(what, "cases", rep.get("cases"), "disagreements", rep.get("disagreements"))
    for d in (rep.get("examples") or [])[:8]:
        print(json.dumps(d, default=repr)[:600])


if __name__ == "__main__":
    main()
