#!/bin/bash
# runsome.sh <tier> <id>... : like runall.sh for the given checks
cd "$(dirname "$0")/.."
T=$1; shift
for id in "$@"; do
  S=$(date +%s); out=$(./run.py $id $T 2>&1); rc=$?
  echo "$id exit=$rc $(( $(date +%s) - S ))s | $(echo "$out" | tail -1 | cut -c1-160)"
  [ $rc -ne 0 ] && echo "$out" | grep -E "^(VIOLATION|HARNESS|Traceback|  File|[A-Za-z]*Error)" | head -12 | cut -c1-250
done
