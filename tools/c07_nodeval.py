"""Development-time only: validate the C07 generators + oracles/refjs_c07.py against node.

    python tools/c07_nodeval.py [n_random] [seed]   -> oracle_validation/c07.json, golden/c07_raisers.json

1. every text site of gens/c07gen.py is run under node: it must throw what TEXT_SITES records
   (constructor for errors, the primitive for eval("throw 5"), ...) -> golden/c07_raisers.json
2. every program of the model campaigns (+ n_random random recipes) is run under node (strict mode,
   fresh realm) and compared with the reference: ordered log, completion / uncaught outcome, name and
   message of uncaught errors.  Programs tagged "node-differs" (array write past the end: a documented
   restriction of the engine) are skipped.
Never used by a registered check.
"""
import json
import os
import subprocess
import sys
import time

ROOT = os.path.dirname(os.path.dirname(os.path.abspath(__file__)))
sys.path.insert(0, ROOT)

from gens import c07gen, progs  # noqa: E402
from oracles import refjs_c07  # noqa: E402
from tools import c05_nodeval as nv  # noqa: E402
from vf import core  # noqa: E402


def golden_raisers():
    names = list(c07gen.TEXT_SITES)
    srcs = []
    for n in names:
        text = c07gen.TEXT_SITES[n][0]
        srcs.append("function th() { throw new Error('m1'); }\nfunction log() { }\nvar out; try { " + text + "; out = ['no-throw']; } catch (e) { out = (e !== null && typeof e === 'object') ? "
                    "['error', e.constructor === globalThis[e.name] ? e.name : '?', e instanceof Error, e.message] : ['prim', typeof e, String(e)]; } out")
    cb_names = list(c07gen.TEXT_CALLBACKS)
    for n in cb_names:
        pre, suf = c07gen.TEXT_CALLBACKS[n]
        srcs.append("var n = 0; var out; try { " + pre + "function () { n++; throw 'T'; }" + suf + "; out = ['no-throw', n]; } catch (e) { out = ['threw', n, e]; } out")
    res = nv.node_run(srcs)
    table = {}
    bad = []
    for n, r in zip(names + ["cb:" + c for c in cb_names], res):
        v = r["result"]
        table[n] = v
        if n.startswith("cb:"):
            ok = v[0] == "value" and v[1][0] == "a" and v[1][1][0] == ["s", "threw"] and v[1][1][1] == ["n", "1.0"]
        else:
            what = c07gen.TEXT_SITES[n][1]
            got = v[1][1] if v[0] == "value" and v[1][0] == "a" else None
            if what[0] == "error":
                ok = got is not None and got[0] == ["s", "error"] and got[1] == ["s", what[1]] and got[2] == ["b", 1]
            elif what[0] == "prim":
                ok = got is not None and got[0] == ["s", "prim"]
            else:
                ok = got is not None and got[0] == ["s", "error"] and got[3] == ["s", "m1"]
        if not ok:
            bad.append([n, v])
    return table, bad


def sites_always_throw():
    """Every site must throw each time it is evaluated (in the reference): [] when fine."""
    P = progs
    bad = []
    for name, site in c07gen.SITES.items():
        if site["e"] is None:
            continue
        body = c07gen.prelude() + site["setup"] + [P.var("q", "qo2", ("qo", P.obj()), ("n", P.num(0)))]
        for k in range(2):
            body.append(P.try_([P.expr(site["e"]), P.log("no-throw", P.num(k))], ("e", [P.expr(P.upd("++", P.id_("n")))]), None))
        body.append(P.expr(P.id_("n")))
        r = refjs_c07.run({"body": body})
        if "unmodelled" in r or r["result"] != ["value", ["n", "2.0"]]:
            bad.append([name, r.get("result"), r.get("unmodelled")])
    return bad


def main():
    not_throwing = sites_always_throw()
    print("sites that do not throw at every evaluation:", not_throwing)
    n_random = int(sys.argv[1]) if len(sys.argv) > 1 else 6000
    seed = int(sys.argv[2]) if len(sys.argv) > 2 else 1
    t0 = time.time()
    table, bad = golden_raisers()
    with open(os.path.join(ROOT, "golden", "c07_raisers.json"), "w") as f:
        json.dump({"node": subprocess.run(["node", "--version"], capture_output=True, text=True).stdout.strip(), "sites": table, "disagree_with_TEXT_SITES": bad}, f, indent=1, sort_keys=True)
    print("text sites:", len(table), "disagreeing with the table:", len(bad))
    for b in bad[:10]:
        print("  ", b)
    descs = []
    for name, gen in c07gen.all_model_campaigns():
        descs.extend(gen)
    for i in range(n_random):
        descs.append(c07gen.random_desc(core.shard_seed(seed, "C07", "random", i) & 0xFFFFFFFFFFFF))
    by_sub = {}
    examples = []
    B = 1500
    for i in range(0, len(descs), B):
        chunk = [c07gen.from_desc(d) for d in descs[i:i + B]]
        layouts = [progs.Layout(compact=(j % 3 == 0), parens=(j % 5 == 0)) for j in range(len(chunk))]
        srcs = [c07gen.to_source(p, l) for p, l in zip(chunk, layouts)]
        outs = nv.node_run(srcs)
        for p, src, got in zip(chunk, srcs, outs):
            s = by_sub.setdefault(p["sub"], {"cases": 0, "disagree": 0, "unmodelled": 0, "node_differs": 0})
            exp = refjs_c07.run(p)
            if "unmodelled" in exp:
                s["unmodelled"] += 1
                if len(examples) < 30:
                    examples.append({"id": p["id"], "kind": "unmodelled: " + exp["unmodelled"]})
                continue
            if "node-differs" in p["tags"]:
                s["node_differs"] += 1
                continue
            s["cases"] += 1
            d = nv.compare_node(exp, got)
            if d is not None:
                s["disagree"] += 1
                if len(examples) < 30:
                    examples.append({"id": p["id"], "kind": d, "src": src[:2500], "ref": {"log": exp["log"][-8:], "result": exp["result"]}, "node": {"log": got["log"][-8:], "result": got["result"]}})
    rep = {
        "model": "oracles/refjs.py + oracles/refjs_c07.py on gens/c07gen.py",
        "against": "node " + subprocess.run(["node", "--version"], capture_output=True, text=True).stdout.strip() + " (vm.runInContext, 'use strict')",
        "date": time.strftime("%Y-%m-%d"),
        "seed": seed,
        "text_sites": len(table),
        "text_sites_disagreeing": bad,
        "sites": len(c07gen.SITES),
        "sites_not_throwing_at_every_evaluation": not_throwing,
        "cases": sum(s["cases"] for s in by_sub.values()),
        "disagreements": sum(s["disagree"] for s in by_sub.values()),
        "unmodelled_or_budget": sum(s["unmodelled"] for s in by_sub.values()),
        "skipped_documented_restriction": sum(s["node_differs"] for s in by_sub.values()),
        "by_campaign": by_sub,
        "examples": examples,
        "wall_s": round(time.time() - t0, 1),
    }
    path = os.path.join(ROOT, "oracle_validation", "c07.json")
    if len(sys.argv) > 3:
        path = sys.argv[3]
    with open(path, "w") as f:
        json.dump(rep, f, indent=1)
    print(json.dumps({k: rep[k] for k in ("cases", "disagreements", "unmodelled_or_budget", "skipped_documented_restriction", "wall_s")}), path)
    for d in examples[:8]:
        print(d["kind"], d["id"])


if __name__ == "__main__":
    main()
