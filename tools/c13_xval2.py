#!/venv/bin/python
"""Development-time only: validate against node 20 (strict mode)
  (a) the rejection mutations of checks/c13.py: every mutant must be a SyntaxError in node;
  (b) the literal spellings of gens/exprs.py: node's value of every number / string spelling equals the oracle's.
Writes oracle_validation/c13_reject.json and c13_literals.json.
"""
import datetime
import json
import os
import random
import subprocess
import sys
import tempfile

ROOT = os.path.dirname(os.path.dirname(os.path.abspath(__file__)))
sys.path.insert(0, ROOT)
from gens import exprs as E  # noqa
from oracles import prims as P  # noqa
from checks import c13 as C  # noqa

HARNESS = os.path.join(ROOT, "tools", "c13_node_harness.js")


def node_parse(srcs):
    out = []
    for k in range(0, len(srcs), 5000):
        with tempfile.TemporaryDirectory() as d:
            fi, fo = os.path.join(d, "in.json"), os.path.join(d, "out.json")
            json.dump({"cases": [{"srcs": [s], "parse_only": True} for s in srcs[k:k + 5000]]}, open(fi, "w"))
            r = subprocess.run(["node", HARNESS, fi, fo], capture_output=True, text=True)
            if r.returncode:
                raise RuntimeError(r.stderr[-2000:])
            out.extend(x[0] for x in json.load(open(fo)))
    return out


def node_values(exprs):
    js = ("const fs=require('fs');const inp=JSON.parse(fs.readFileSync(process.argv[2],'utf8'));"
          "const out=inp.map(s=>{try{const v=(0,eval)('\"use strict\";('+s+')');"
          "if(typeof v==='number')return ['n',Object.is(v,-0)?'-0':String(v)];"
          "if(typeof v==='string')return ['s',Array.from({length:v.length},(_,i)=>v.charCodeAt(i))];return ['?',typeof v]}"
          "catch(e){return ['err',e.name]}});fs.writeFileSync(process.argv[3],JSON.stringify(out));")
    with tempfile.TemporaryDirectory() as d:
        fj, fi, fo = os.path.join(d, "p.js"), os.path.join(d, "in.json"), os.path.join(d, "out.json")
        open(fj, "w").write(js)
        json.dump(exprs, open(fi, "w"))
        r = subprocess.run(["node", fj, fi, fo], capture_output=True, text=True)
        if r.returncode:
            raise RuntimeError(r.stderr[-2000:])
        return json.load(open(fo))


def reject_cases(rnd, n):
    cases = []
    corpus = C.load_corpus()
    for k in range(n):
        pr = E.ProgGen(rnd, size=rnd.choice((2, 4, 8))).program()
        if k % 4 == 3:
            g = E.ExprGen(rnd)
            pr = E.Prog([E.ExprStmt(g.expr(rnd.choice((2, 3, 4)))), E.ExprStmt(E.Asg("=", E.Id("a"), E.Cond(E.Id("b"), E.Num(1), E.Id("c"))))])
        p = E.Printer(mode="min", quote=rnd.choice("'\""))
        toks = p.program(pr)
        for kind, src in C.mutants_from_tokens(rnd, toks.toks, toks.nonl, toks.marks, True):
            cases.append((kind, src))
        if k % 5 == 0:
            op = rnd.choice(E.UNOPS)
            base = E.Un(op, E.Mem(E.Id("o"), "p") if op == "delete" else rnd.choice((E.Id("a"), E.Num(2), E.Mem(E.Id("o"), "p"))))
            ex = E.Bin("**", base, rnd.choice((E.Id("b"), E.Num(2), E.Un("-", E.Num(1)))))
            ex = rnd.choice((ex, E.Bin("+", E.Num(1), ex), E.Bin("*", ex, E.Id("b")), E.Asg("=", E.Id("a"), ex), E.Bin("**", E.Num(2), ex)))
            pp = E.Printer(mode="min", raw_exp_base=True)
            pp.program(E.Prog(pr["body"][:1] + [E.ExprStmt(ex)]))
            cases.append(("unary-base-of-** " + op, C.join_lines(pp.o)))
        if k % 5 == 1:
            IN = E.Bin("in", E.Str("p"), E.Id("o"))
            for init in (IN, E.Bin("||", E.Id("a"), IN), E.Bin("&&", IN, E.Id("b")), E.Asg("=", E.Id("a"), IN), E.Cond(E.Id("a"), E.Id("b"), IN),
                         E.Seq([E.Id("a"), IN]), E.Bin("==", IN, E.Id("c")), E.Bin("|", E.Num(1), IN),
                         E.Asg("+=", E.Id("b"), E.Bin("||", E.Id("a"), IN)), E.Cond(IN, E.Id("a"), E.Id("b"))):
                loop = E.For(init, rnd.choice((E.Bool(False), None, E.Bin("<", E.Id("a"), E.Num(0)))), rnd.choice((None, E.Upd("++", E.Id("a"), False))),
                             rnd.choice((E.Empty(), E.Block([E.Break()]))))
                pp = E.Printer(mode="min", quote='"', raw_noin=True)
                pp.program(E.Prog(pr["body"][:1] + [loop]))
                cases.append(("bare-in-in-for-init", C.join_lines(pp.o)))
        sites = []
        C._target_sites(pr, sites)
        rnd.shuffle(sites)
        for node, key, what in sites[:3]:
            rep = rnd.choice(C.NONREF)()
            old = node[key]
            node[key] = rep
            try:
                for raw in ((False, True) if (what == "assign" and rep["type"] in C.RAW_OK) else (False,)):
                    pp = E.Printer(mode="min", quote='"', raw_targets=raw)
                    cases.append(("target %s %s%s" % (what, rep["type"], " bare" if raw else ""), C.join_lines(pp.program(pr))))
            finally:
                node[key] = old
    for s in C.SEED_PROGRAMS:
        tk = E.tokenize(s)
        texts = [t.text for t in tk]
        marks = {"cond:": [i for i, t in enumerate(texts) if t == ":" and "?" in texts[:i] and "case" not in texts and "{" not in texts[:i]]}
        for _ in range(5):
            for kind, src in C.mutants_from_tokens(rnd, texts, set(), marks, False):
                cases.append((kind + " (seed program)", src))

    class A(C.Acc):
        pass

    # corpus mutants: reuse the task code path with a recording judge
    rec = []
    orig = C.judge_reject
    C.judge_reject = lambda acc, kind, src, origin: rec.append((kind + " (corpus)", src)) or True
    orig_parse = C.parse
    C.parse = lambda s: ("ok", {})
    try:
        C.task_reject((rnd.randrange(1 << 30) * 4 + 1, 0, corpus))
    finally:
        C.judge_reject = orig
        C.parse = orig_parse
    return cases + rec


def main():
    rnd = random.Random(20260926)
    today = str(datetime.date.today())
    nodev = subprocess.run(["node", "-v"], capture_output=True, text=True).stdout.strip()
    cases = reject_cases(rnd, int(sys.argv[1]) if len(sys.argv) > 1 else 1500)
    res = node_parse([s for _, s in cases])
    # V8 defers `f() = 1` / `f()++` / `for (f() in o)` to a run-time ReferenceError even in strict code (web
    # compatibility); ECMAScript makes it an early error in strict code (AssignmentTargetType of a CallExpression
    # is invalid), which is what the engine, being strict-only, is held to.  Those mutants are counted apart.
    deferred = [(k, s, r) for (k, s), r in zip(cases, res) if not r.startswith("SyntaxError") and "CallExpression" in k]
    bad = [(k, s, r) for (k, s), r in zip(cases, res) if not r.startswith("SyntaxError") and "CallExpression" not in k]
    print("call-expression targets deferred to run time by V8:", len(deferred))
    kinds = {}
    for k, _ in cases:
        kinds[k.split(" ")[0]] = kinds.get(k.split(" ")[0], 0) + 1
    print("reject mutants", len(cases), "accepted by node:", len(bad), kinds)
    for k, s, r in bad[:8]:
        print("  ", k, repr(s[-200:]), r)
    json.dump({"date": today, "node": nodev, "mutants": len(cases), "by_kind": kinds, "accepted_by_node": len(bad),
               "call_expression_targets_deferred_to_runtime_by_v8": len(deferred),
               "examples": [{"kind": k, "src": s} for k, s, _ in bad[:10]]},
              open(os.path.join(ROOT, "oracle_validation", "c13_reject.json"), "w"), indent=1)
    # literals
    nums = list(C.BOUNDARY_NUMBERS) + [E.spell_number(rnd)[0] for _ in range(20000)]
    srcs, exps = [], []
    for i, lit in enumerate(nums):
        src, sign = C.number_context(lit, i)
        v = P.str_to_number(lit)
        srcs.append(src)
        exps.append(["n", P.num_to_str(-v if sign < 0 else v) if not ((-v if sign < 0 else v) == 0 and str(-v if sign < 0 else v).startswith("-")) else "-0"])
    got = node_values(srcs)
    badn = [(s, e, g) for s, e, g in zip(srcs, exps, got) if e != g]
    print("number spellings", len(srcs), "disagreements", len(badn))
    for x in badn[:8]:
        print("  ", x)
    strs = []
    for v in C.FIXED_STRINGS:
        for _ in range(5):
            strs.append(E.spell_string(rnd, v))
    for _ in range(20000):
        strs.append(E.spell_string(rnd, None, maxlen=rnd.choice((1, 3, 8, 20))))
    got = node_values([s for _, s, _ in strs])
    bads = []
    for (v, s, f), g in zip(strs, got):
        units = P._code_units(v)
        if g != ["s", units]:
            bads.append((s, units, g))
    print("string spellings", len(strs), "disagreements", len(bads))
    for x in bads[:8]:
        print("  ", x)
    json.dump({"date": today, "node": nodev, "number_spellings": len(srcs), "number_disagreements": len(badn),
               "string_spellings": len(strs), "string_disagreements": len(bads),
               "examples": [list(map(str, x)) for x in (badn + bads)[:10]]},
              open(os.path.join(ROOT, "oracle_validation", "c13_literals.json"), "w"), indent=1)
    return 1 if (bad or badn or bads) else 0


if __name__ == "__main__":
    sys.exit(main())
