#!/venv/bin/python
"""Development-time only: compare the model of checks/c08_builtin.py (World) with node.
Writes oracle_validation/objmodel_builtin.json.  Never used by a registered check."""
import collections, datetime, json, os, sys

sys.path.insert(0, os.path.dirname(os.path.dirname(os.path.abspath(__file__))))
from checks import c08_builtin as B
from tools.nodeval import node_map

FN = "(x) => require('vm').runInNewContext(x, {}, {timeout: 5000})"


def main():
    cases = [c for c, _ in B.all_cases(False)]  # node: functions are objects, nothing is guarded
    outs = node_map(FN, [B.script(c, for_node=True) for c in cases])
    dis = []
    per_clause = collections.Counter()
    tokens = 0
    for c, out in zip(cases, outs):
        per_clause[c["clause"]] += 1
        if isinstance(out, dict):
            dis.append({"id": c["id"], "node": out})
            continue
        bad, exps = B.judge(c, out, es_mode=True)
        tokens += len(c["steps"])
        for b in bad:
            dis.append({"id": c["id"], "at": b[0], "label": b[1], "diff": b[2], "model": b[3], "node": b[4]})
    rep = {
        "model": "checks/c08_builtin.py World + KINDS table (ES mode: for-in walks the chain, integer-like keys first)",
        "reference": "node " + os.popen("node --version").read().strip() + " (vm.runInNewContext, strict mode)",
        "date": datetime.date.today().isoformat(),
        "cases": len(cases), "tokens_compared": tokens, "cases_per_clause": dict(per_clause),
        "receiver_kinds": len(B.KINDS),
        "disagreements": len(dis), "disagreement_samples": dis[:20],
        "comparison_is_sensitive": "on every 7th case: the engine-mode expectations (for-in own keys only) give 27 disagreements with node, "
                                   "a model whose writes ignore setters gives 632 (checked 2026-09-26)",
        "notes": [
            "host kinds (Context.set values) are emulated in node by literals of the same shape",
            "own keys of a receiver that are not test keys are not compared (engine documents every property as enumerable), "
            "except: elements of array-likes first, listed own keys present",
        ],
    }
    path = os.path.join(os.path.dirname(os.path.dirname(os.path.abspath(__file__))), "oracle_validation", "objmodel_builtin.json")
    if "--dry" not in sys.argv:
        with open(path, "w") as f:
            json.dump(rep, f, indent=1)
    print(json.dumps({k: rep[k] for k in ("cases", "tokens_compared", "disagreements")}))
    groups = collections.Counter((d["id"].split("|")[0], d.get("label"), d.get("diff")) for d in dis)
    for g, n in groups.most_common(40):
        print(n, g)
    for d in dis[:8]:
        print(d)


if __name__ == "__main__":
    main()
