#!/venv/bin/python
"""Development-time only: (re)write the saved regression replays of C20 (replay/C20/*.json), one or more per
repaired root cause, judged against the tree in $VERIF_REPO (default /repo).  Field `fix` names the patch.

usage: tools/c20_mkreplays.py            # writes files; prints which of them fail on the current tree
"""
import json
import os
import sys

HERE = os.path.dirname(os.path.dirname(os.path.abspath(__file__)))
sys.path.insert(0, HERE)
from vf import engine  # noqa: E402

engine.load()
from checks import c20  # noqa: E402

N = c20.tnum
U = c20.U


def H(pattern, flags, subjects, ops):
    return {"kind": "hist", "pattern": pattern, "flags": flags, "subjects": subjects, "ops": ops}


def M(method, pattern, flags, subject, arg=None, init=None):
    return {"kind": "method", "method": method, "pattern": pattern, "flags": flags, "subject": subject, "init": init, "arg": arg}


T = lambda v: {"t": "tmpl", "v": v}  # noqa: E731
V = lambda v: {"t": "val", "v": v}  # noqa: E731
F = lambda *rets: {"t": "fn", "rets": list(rets)}  # noqa: E731

CASES = [
    # --- lastIndex is converted with ToLength; only g/y regexes write it
    ("lastindex-string", "C20-01-lastindex-tolength", H("a", "g", ["aa"], [["set", ["s", "1"]], ["exec", 0]])),
    ("lastindex-fraction", "C20-01-lastindex-tolength", H("a", "g", ["aa"], [["set", N(1.5)], ["test", 0]])),
    ("lastindex-nan", "C20-01-lastindex-tolength", H("a", "y", ["aa"], [["set", c20.NAN], ["exec", 0]])),
    ("lastindex-negative", "C20-01-lastindex-tolength", H("a", "g", [""], [["set", N(-1)], ["test", 0]])),
    ("lastindex-negative-match", "C20-01-lastindex-tolength", H("a", "g", ["a"], [["set", N(-1)], ["exec", 0]])),
    ("lastindex-nonglobal-preserved", "C20-01-lastindex-tolength", H("a", "", ["a"], [["set", U], ["exec", 0], ["set", ["s", "1"]], ["test", 0]])),
    # --- test is exec != null
    ("sticky-test-advances", "C20-02-test-is-exec", H("a", "y", ["aa"], [["test", 0], ["test", 0], ["test", 0]])),
    ("sticky-test-failure-resets", "C20-02-test-is-exec", H("a", "y", ["ab"], [["set", N(1)], ["test", 0]])),
    # --- lastIndex beyond the end
    ("sticky-beyond-end", "C20-03-lastindex-beyond-end", H("(?:)", "y", ["aa"], [["set", N(5)], ["exec", 0]])),
    ("sticky-beyond-end-wordboundary", "C20-03-lastindex-beyond-end", H("\\b", "gy", [""], [["set", N(2)], ["exec", 0]])),
    # --- an empty match leaves lastIndex at its end
    ("global-empty-match-lastindex", "C20-04-empty-match-lastindex", H("(?:)", "g", ["aa"], [["exec", 0], ["exec", 0]])),
    ("global-empty-match-star", "C20-04-empty-match-lastindex", H("a*", "g", ["ba"], [["exec", 0], ["set", N(1)], ["exec", 0], ["exec", 0]])),
    # --- match / replace / search go through RegExpBuiltinExec
    ("match-global-resets-lastindex", "C20-05-string-methods-regexp-exec", H("a", "g", ["aa"], [["set", N(1)], ["match", 0]])),
    ("replace-global-resets-lastindex", "C20-05-string-methods-regexp-exec", H("a", "g", ["aa"], [["set", ["s", "1"]], ["replace", 0, "x"]])),
    ("match-sticky-uses-lastindex", "C20-05-string-methods-regexp-exec", H("a", "y", ["a"], [["exec", 0], ["match", 0]])),
    ("replace-sticky-uses-lastindex", "C20-05-string-methods-regexp-exec", H("a", "y", ["a"], [["exec", 0], ["replace", 0, "x"]])),
    ("match-global-sticky-contiguous", "C20-05-string-methods-regexp-exec", H("a", "gy", ["aba"], [["match", 0]])),
    ("replace-global-sticky-contiguous", "C20-05-string-methods-regexp-exec", H("a", "gy", ["ba"], [["replace", 0, "x"]])),
    ("search-sticky-only-at-zero", "C20-05-string-methods-regexp-exec", H("a", "y", ["ba"], [["set", N(1)], ["search", 0]])),
    ("match-sticky-sets-lastindex", "C20-05-string-methods-regexp-exec", M("match", "(.){3,}", "y", "abcab", init=U)),
    # --- split
    ("split-empty-pattern", "C20-06-split", M("split", "(?:)", "", "abc")),
    ("split-empty-subject", "C20-06-split", M("split", "a*", "g", "")),
    ("split-empty-subject-no-match", "C20-06-split", M("split", "a", "", "")),
    ("split-empty-match-limit", "C20-06-split", M("split", "a*?", "", "aaa", V(N(2)))),
    ("split-captures-limit", "C20-06-split", M("split", "(^)|(b)", "gim", "b 1B ", V(N(3)), ["s", "1"])),
    ("split-lookahead", "C20-06-split", M("split", "(?=a)", "", "aba")),
    # --- GetSubstitution
    ("template-before-after", "C20-07-replace-template", M("replace", "b", "", "abc", T("[$`|$'|$&]"))),
    ("template-no-such-group", "C20-07-replace-template", M("replace", "a", "gi", "a", T("$5"))),
    ("template-two-digits", "C20-07-replace-template", M("replace", "(a)", "g", "a", T("$01|$10|$00|$0|$011"))),
    ("template-ten-groups", "C20-07-replace-template", M("replace", "(.)(.)(.)(.)(.)(.)(.)(.)(.)(.)(.)?", "", "abcdefghij", T("$10$11$1$9$12"))),
    ("template-dollar-escape-order", "C20-07-replace-template", M("replace", "(b)", "", "abc", T("$$1$$&$1$"))),
    # --- function replacers
    ("function-replacer", "C20-08-function-replacer", M("replace", "(b)(x)?", "g", "abcb", F(["s", "$&"], c20.tnum(1.5)))),
    ("function-replacer-empty-matches", "C20-08-function-replacer", M("replaceAll", "a*", "g", "baa", F(U, ["N"], ["raw", "[1,2]", "1,2"]))),
    ("function-replacer-throws-after-matching", "C20-08-function-replacer", M("replace", "a", "g", "aa", F(["s", "x"], ["throw"]), N(1))),
    # --- exec() / test() without an argument
    ("exec-missing-argument", "C20-09-exec-missing-argument", H(".", "g", ["a"], [["exec", None], ["test", None]])),
]


def main():
    d = os.path.join(HERE, "replay", "C20")
    os.makedirs(d, exist_ok=True)
    for name, fix, case in CASES:
        if case["kind"] == "method":
            exp = c20.model_method(case)
        else:
            exp = c20.model_history(case)[0]
        r = c20.replay({"case": case})
        rec = {"property": "C20", "sub": "replay", "case": case, "fix": fix, "expected": exp,
               "actual_before_fix": r["actual"] if r["fails"] else None, "signature": "saved-replay|" + name}
        with open(os.path.join(d, name + ".json"), "w") as f:
            json.dump(rec, f, indent=1, ensure_ascii=True)
        print("%-36s %-36s %s" % (name, fix, "FAILS " + str(r.get("signature")) if r["fails"] else "passes"))


if __name__ == "__main__":
    main()
