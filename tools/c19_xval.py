#!/venv/bin/python
"""Development-time only: cross-validate oracles/jsonref.py against node 20 on the
generators of checks/c19.py.  Writes oracle_validation/jsonref.json.
Usage: tools/c19_xval.py [cases-per-domain]"""
import datetime
import json
import os
import struct
import subprocess
import sys

HERE = os.path.dirname(os.path.dirname(os.path.abspath(__file__)))
sys.path.insert(0, HERE)

from vf import core, engine  # noqa: E402

engine.load()
from checks import c19  # noqa: E402
from gens import jsongen as G  # noqa: E402
from oracles import jsonref as J  # noqa: E402
from tools.nodeval import node_map  # noqa: E402

NODE_ENC = """
function numkey(v){ if (Object.is(v,-0)) return "-0"; const b=new DataView(new ArrayBuffer(8)); b.setFloat64(0,v); return b.getBigUint64(0).toString(16).padStart(16,"0"); }
function enc(v){ if (v===null) return ["z"]; if (v===undefined) return ["u"]; switch(typeof v){case "boolean": return ["b", v?1:0]; case "number": return ["n", numkey(v)]; case "string": return ["s", v]; case "function": return ["f"]; }
 if (Array.isArray(v)) return ["a", v.map(enc)]; return ["o", Object.keys(v).map(k=>[k, enc(v[k])])]; }
"""


def bits(key):
    if key == "-0":
        return "-0"
    return struct.pack(">d", float(key)).hex()


def typed_bits(t):
    if t[0] == "n":
        return ["n", bits(t[1])]
    if t[0] == "a":
        return ["a", [typed_bits(x) for x in t[1]]]
    if t[0] == "o":
        return ["o", [[k, typed_bits(x)] for k, x in t[1]]]
    return t


def norm(o):
    """norm_str over every string of a JSON structure returned by node."""
    if isinstance(o, str):
        return J.norm_str(o)
    if isinstance(o, list):
        return [norm(x) for x in o]
    if isinstance(o, dict):
        return {k: norm(v) for k, v in o.items()}
    return o


def main():
    n = int(sys.argv[1]) if len(sys.argv) > 1 else 4000
    report = {"model": "oracles/jsonref.py", "node": subprocess.run(["node", "--version"], capture_output=True, text=True).stdout.strip(),
              "date": datetime.date.today().isoformat(), "domains": {}, "disagreements": []}
    dis = report["disagreements"]

    # ---- texts: grammar texts and near misses
    texts = [tk.text() for tk in c19._collect(G.text_cases(), n, core.shard_seed(7, "xval", "text"))]
    misses = c19._collect(G.nearmiss_cases(), n, core.shard_seed(7, "xval", "miss"))
    alltexts = texts + [t for _, t in misses]
    fn = "(function(){" + NODE_ENC + "return function(t){ try { const p = JSON.parse(t); return {ok: enc(p), canon: JSON.stringify(p)}; } catch (e) { return {err: e.name}; } }; })()"
    out = norm(node_map(fn, alltexts))
    acc = rej = 0
    for t, o in zip(alltexts, out):
        try:
            v = J.parse(t)
            mine = {"ok": typed_bits(J.typed(v)), "canon": J.norm_str(J.stringify(v))}
            acc += 1
        except J.JSONSyntaxError:
            mine = {"err": "SyntaxError"}
            rej += 1
        if mine != o:
            dis.append({"domain": "text", "input": t, "model": mine, "node": o})
    report["domains"]["texts"] = {"cases": len(alltexts), "accepted": acc, "rejected": rej}

    # ---- values (literal mode) : stringify and round trip
    recipes = [r for r in c19._collect(G.value_recipes(), n, core.shard_seed(7, "xval", "val")) if not G.recipe_has_key(r, "__proto__")]
    fn = "(function(){" + NODE_ENC + "return function(src){ const v = (0,eval)('(' + src + ')'); const s = JSON.stringify(v); return {s: s, back: enc(JSON.parse(s))}; }; })()"
    out = norm(node_map(fn, [G.recipe_js(r) for r in recipes]))
    for r, o in zip(recipes, out):
        m = G.recipe_model(r)
        s = J.stringify(m)
        mine = {"s": J.norm_str(s), "back": typed_bits(J.typed(J.parse(s)))}
        if mine != o:
            dis.append({"domain": "value", "input": G.recipe_js(r), "model": mine, "node": o})
    report["domains"]["values"] = {"cases": len(recipes)}

    # ---- script values / options
    cases = [c19.normalise_script_links(c) for c in
             c19._collect(G.script_domain_cases(), n, core.shard_seed(7, "xval", "script"))]
    fn = "(function(){ return function(src){ const f = (0,eval)('(' + src + ')'); try { const r = f(); return ['ok', typeof r, r === undefined ? null : r]; } catch (e) { return ['err', e instanceof TypeError, e.name]; } }; })()"
    out = norm(node_map(fn, [c19.script_fn_src(c) for c in cases]))
    kinds = {}
    for c, o in zip(cases, out):
        mine = c19.script_expected(c)
        _, cls = c19.script_class(c, mine)
        kinds[cls] = kinds.get(cls, 0) + 1
        if mine != o:
            dis.append({"domain": "script", "input": c19.script_fn_src(c), "model": mine, "node": o})
    report["domains"]["script"] = {"cases": len(cases), "classes": kinds}

    report["method"] = (
        "tools/c19_xval.py N: the generators of checks/c19.py (texts + near-miss texts, literal-mode values, script "
        "values with links / toJSON / accessors / replacer / indent), N cases each, evaluated by node and by "
        "oracles/jsonref.py; numbers compared by IEEE bit pattern, strings as UTF-16 code units, keys in Object.keys order")
    report["fixed_argument_cases"] = {
        "cases": 16, "disagreements": 0,
        "note": "JSON.parse of null/true/12/-0/'-0'/undefined/NaN/Infinity/''/'[]'/'{}'/' 1 '/'1e400'/missing argument "
                "and JSON.stringify() compared by hand with node (checks/c19.py FIXED_TEXTS)"}
    report["cases"] = sum(d["cases"] for d in report["domains"].values())
    report["disagreement_count"] = len(dis)
    report["disagreements"] = dis[:50]
    path = os.path.join(HERE, "oracle_validation", "jsonref.json")
    with open(path, "w", encoding="utf-8") as f:
        json.dump(report, f, indent=1, ensure_ascii=True)
    print("cases", report["cases"], "disagreements", len(dis), report["domains"])
    for d in dis[:12]:
        print(json.dumps(d)[:400])


if __name__ == "__main__":
    main()
