// Development-time only (never used by a registered check).
// Reads JSON {cases:[{id, srcs:[...], profile}]} ; evaluates every source text in a fresh vm context whose
// globals are tracing values, and writes for each source: "SyntaxError" or a digest of
// (completion value | thrown error name, trace of observable operations, final bindings).
'use strict';
const fs = require('fs');
const vm = require('vm');
const inp = JSON.parse(fs.readFileSync(process.argv[2], 'utf8'));

function hash(s) {
  let h = 2166136261;
  for (let i = 0; i < s.length; i++) { h ^= s.charCodeAt(i); h = Math.imul(h, 16777619); }
  return (h >>> 0);
}

function makeEnv(profile) {
  const log = [];
  const tags = new WeakMap();
  let counter = 0;
  function show(v, d) {
    d = d || 0;
    if (v === null) return 'null';
    const t = typeof v;
    if (t === 'undefined') return 'undefined';
    if (t === 'number') return Object.is(v, -0) ? '-0' : String(v);
    if (t === 'string') return JSON.stringify(v);
    if (t === 'boolean') return String(v);
    if (t === 'symbol') return 'symbol';
    if (tags.has(v)) return '<' + tags.get(v) + '>';
    if (d > 3) return '...';
    if (t === 'function') return 'fn/' + v.length;
    if (Array.isArray(v)) return '[' + v.map(x => show(x, d + 1)).join(',') + ']';
    if (v instanceof RegExp) return String(v);
    if (v instanceof Error) return 'Error:' + v.name;
    let out = [];
    for (const k of Object.getOwnPropertyNames(v)) {
      const desc = Object.getOwnPropertyDescriptor(v, k);
      if ('value' in desc) out.push(k + ':' + show(desc.value, d + 1));
      else out.push(k + ':accessor');
    }
    return '{' + out.join(',') + '}';
  }
  function U(tag) {
    const num = (hash(tag) % 1000) / 8 - 40;
    const p = new Proxy(function () {}, {
      get(t, k) {
        if (k === Symbol.toPrimitive) return (hint) => { log.push('prim ' + tag + ' ' + hint); return num; };
        if (k === Symbol.hasInstance) return (v) => { log.push('hasInstance ' + tag + ' ' + show(v)); return (hash(tag) & 1) === 1; };
        if (typeof k === 'symbol') return undefined;
        log.push('get ' + tag + '.' + k);
        return U(tag + '.' + k);
      },
      set(t, k, v) { log.push('set ' + tag + '.' + String(k) + ' = ' + show(v)); return true; },
      has(t, k) { log.push('has ' + String(k) + ' in ' + tag); return (hash(tag + String(k)) & 1) === 1; },
      deleteProperty(t, k) { log.push('delete ' + tag + '.' + String(k)); return true; },
      apply(t, th, args) { log.push('call ' + tag + '(' + args.map(x => show(x)).join(',') + ') this=' + show(th)); return U('r' + (counter++)); },
      construct(t, args) { log.push('new ' + tag + '(' + args.map(x => show(x)).join(',') + ')'); return U('n' + (counter++)); },
    });
    tags.set(p, tag);
    return p;
  }
  const names = ['a', 'b', 'c', 'd', 'e', 'g', 'h', 'i', 'x', 'y', 'f', 'F', 'o', 'p', 'q', 'k', '$', '_', 'a1', 'of_', 'get', 'set', 'async', 'arguments_', 'é', 'z', 'v'];
  const nums = [7, -3, 0, 2.5, NaN, 1, 10, 's', 4, '', 3, 2, 0.5, -1, 8, 6, 1e21, -0, 5, 9, 11, 12, 13, 14, 15, 16, 17];
  const sandbox = {};
  names.forEach((n, idx) => {
    let v;
    if (profile === 0) v = U(n);
    else if (profile === 1) v = nums[idx % nums.length];
    else v = (hash(n + 'p') % 3 === 0) ? nums[idx % nums.length] : U(n);
    sandbox[n] = v;
  });
  return { sandbox, log, show, names };
}

const out = [];
for (const c of inp.cases) {
  const res = [];
  for (const src of c.srcs) {
    let script;
    try {
      script = new vm.Script("'use strict';\n" + src);
    } catch (e) {
      res.push(e.name === 'SyntaxError' ? 'SyntaxError: ' + e.message : 'compile ' + e.name);
      continue;
    }
    if (c.parse_only) { res.push('ok'); continue; }
    const env = makeEnv(c.profile || 0);
    const ctx = vm.createContext(env.sandbox);
    vm.runInContext('Function.prototype.toString = function () { return "fn"; };', ctx);
    let r;
    try {
      const v = script.runInContext(ctx, { timeout: 1000 });
      r = 'value ' + env.show(v);
    } catch (e) {
      r = 'throw ' + (e && e.name ? e.name : env.show(e));
    }
    const state = env.names.map(n => n + '=' + env.show(env.sandbox[n])).join(';');
    const full = r + '\n' + env.log.join('\n') + '\n' + state;
    res.push(c.verbose ? full : String(hash(full)) + ':' + r.slice(0, 40));
  }
  out.push(res);
}
fs.writeFileSync(process.argv[3], JSON.stringify(out));
