#!/bin/bash
# apply_fix.sh <patch> <msgfile>  : git apply in /repo, run tests, commit as fix
set -e
P=$(realpath "$1"); M=$(realpath "$2")
cd /repo
git apply --check "$P" || { echo "DOES NOT APPLY: $P"; exit 3; }
git apply "$P"
T=$(/venv/bin/python -m pytest -q -x -p no:cacheprovider 2>&1 | tail -1)
echo "$(basename $P): $T"
if echo "$T" | grep -Eq "(^| )[0-9]+ (failed|errors?)( |,|$)"; then git checkout -- . ; git clean -fdq src tests; echo "TESTS FAIL - reverted"; exit 4; fi
git add -A
git commit -q -F "$M"
