"""Development-time only: the C20 sensitivity mutants.  Run inside a scratch copy of /repo that has all
proposed_fixes/C20-*.patch applied:  python /verif/tools/c20_mutants.py <name>  (edits files below src/microjs
in the current directory), then VERIF_REPO=<copy> ./run.py C20 quick must exit 1.  Results: checks/c20_notes.md."""
import sys

name = sys.argv[1]
R = "src/microjs/regex/regex.py"
V = "src/microjs/values.py"
M = "src/microjs/vm.py"


def sub(path, old, new, count=1):
    s = open(path).read()
    assert s.count(old) >= 1, (name, old)
    s = s.replace(old, new, count)
    open(path, "w").write(s)


if name == "empty_match_advance_in_exec":  # lastIndex = index + 1 after an empty global match (the old behaviour)
    sub(R, 'end_cp = result.index + len(result[0] or "")', 'end_cp = result.index + (len(result[0] or "") or 1)')
elif name == "sticky_not_advancing":  # a sticky regex without g does not write lastIndex on success
    sub(R, """            if result:
                if self._global or self._sticky:
                    end_cp = (""", """            if result:
                if self._global:
                    end_cp = (""")
elif name == "nonglobal_writes_lastindex":
    sub(V, """        if self._internal.global_ or self._internal.sticky:
            self.set("lastIndex", self._internal.lastIndex)""", """        self.set("lastIndex", self._internal.lastIndex)""")
elif name == "test_exec_disagree":  # test() matches but forgets to store lastIndex
    sub(V, """        return self.builtin_exec(string) is not None""", """        self._load_last_index()
        return self._internal.exec(string) is not None""")
elif name == "replace_not_resetting_lastindex":
    sub(M, """                    if is_global:
                        pattern.lastIndex = 0
                    results = []""", """                    results = []""")
elif name == "match_not_resetting_lastindex":
    sub(M, """                regex.lastIndex = 0
                matches = []""", """                matches = []""")
elif name == "split_drops_captures":
    sub(M, """                        for i in range(1, capture_count):
                            group_val = result[i]
                            parts.append(
                                group_val if group_val is not None else UNDEFINED
                            )
                        p = q = end""", """                        p = q = end""")
elif name == "split_drops_trailing_empty":
    sub(M, """                    if size > 0:
                        parts.append(s[p:])""", """                    if size > 0 and p < size:
                        parts.append(s[p:])""")
elif name == "split_limit_clamped":  # limit -1 means 0 instead of 2**32 - 1
    sub(M, """                limit = self._to_uint32(to_num(args[1]))""", """                limit = max(to_int(args[1]), 0)""")
elif name == "nn_greedy_two_digits":  # $10 is always group 10
    sub(M, """                        if int(template[i + 1 : i + 3]) <= len(captures):
                            width = 2""", """                        width = 2""")
elif name == "function_replacer_stringified":
    sub(M, """            if not (isinstance(value, JSFunction) or callable(value)):""", """            if True:""")
elif name == "replacer_unmatched_group_empty_string":  # unmatched groups reach the replacer as "" instead of undefined
    sub(M, """                groups = [UNDEFINED if c is None else c for c in captures]""", """                groups = ["" if c is None else c for c in captures]""")
elif name == "replacer_result_expanded":  # the function's result goes through $ expansion
    sub(M, """                return to_str(
                    self._call_callback(value, [matched] + groups + [index, s])
                )""", """                return expand(to_str(
                    self._call_callback(value, [matched] + groups + [index, s])
                ), matched, index, captures)""")
elif name == "search_clobbers_lastindex":
    sub(M, """            finally:
                regex.set("lastIndex", previous)""", """            finally:
                pass""")
elif name == "search_honours_lastindex":  # search does not start from 0
    sub(M, """            previous = regex.get("lastIndex")
            regex.lastIndex = 0""", """            previous = regex.get("lastIndex")""")
elif name == "lastindex_copies_desynchronised":  # a non-number assigned by the script is not seen by the matcher
    sub(V, """        index = to_integer_or_infinity(self.get("lastIndex"))
        self._internal.lastIndex = min(max(index, 0), 2**53 - 1)""", """        value = self.get("lastIndex")
        if not isinstance(value, (int, float)) or isinstance(value, bool):
            return  # keep the engine field
        index = to_integer_or_infinity(value)
        self._internal.lastIndex = min(max(index, 0), 2**53 - 1)""")
elif name == "sticky_searches_forward":  # y behaves like g
    sub(R, """            result = vm.match(string, start_pos)""", """            result = vm.search(string, start_pos)""")
elif name == "failure_keeps_lastindex":  # a failed global exec does not reset lastIndex
    sub(R, """        if self._global:
            self.lastIndex = 0
        return None""", """        return None""")
elif name == "match_empty_advance_two":  # global match steps two positions over an empty match
    sub(M, """                        regex.lastIndex = regex.lastIndex + 1""", """                        regex.lastIndex = regex.lastIndex + 2""")
elif name == "dollar_quote_from_match_start":  # $' starts at the match, not after it
    sub(M, """                    out.append(s[index + len(matched) :])""", """                    out.append(s[index:])""")
elif name == "replaceall_accepts_nonglobal":
    sub(M, """                if "g" not in pattern._flags:
                    raise JSTypeError("replaceAll called with a non-global RegExp")""", """                if False:
                    raise JSTypeError("replaceAll called with a non-global RegExp")""")
# ---- neutral (behaviour-preserving) edits: the check must stay green
elif name == "NEUTRAL_tolength_if_chain":
    sub(V, """        self._internal.lastIndex = min(max(index, 0), 2**53 - 1)""", """        if index < 0:
            index = 0
        elif index > 2**53 - 1:
            index = 2**53 - 1
        self._internal.lastIndex = index""")
elif name == "NEUTRAL_store_through_setter":
    sub(V, """            self.set("lastIndex", self._internal.lastIndex)""", """            self.lastIndex = self._internal.lastIndex""")
elif name == "NEUTRAL_split_reuses_size_check":
    sub(M, """                    if size > 0:
                        parts.append(s[p:])
                    elif regex_internal._create_vm().match(s, 0) is None:""", """                    if s != "":
                        parts.append(s[p:size])
                    elif regex_internal._create_vm().match("", 0) is None:""")
else:
    raise SystemExit("unknown mutant " + name)
