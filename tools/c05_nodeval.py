"""Development-time only: run generated programs under node (strict mode, fresh
realm per program, a `log` prelude) and compare with oracles/refjs.py.

    python tools/c05_nodeval.py [n_random] [seed]   -> oracle_validation/refjs.json

Never used by a registered check.
"""
import json
import os
import subprocess
import sys
import tempfile
import time

sys.path.insert(0, os.path.dirname(os.path.dirname(os.path.abspath(__file__))))

from oracles import prims as P  # noqa: E402

NODE_JS = r"""
'use strict';
const vm = require('vm'); const fs = require('fs');
const progs = JSON.parse(fs.readFileSync(process.argv[2], 'utf8'));
function enc(v, d) {
  if (v === undefined) return ['u'];
  if (v === null) return ['null'];
  if (typeof v === 'boolean') return ['b', v ? 1 : 0];
  if (typeof v === 'number') {
    if (v !== v) return ['n', 'NaN'];
    if (v === Infinity) return ['n', 'Infinity'];
    if (v === -Infinity) return ['n', '-Infinity'];
    if (v === 0 && 1 / v < 0) return ['n', '-0'];
    return ['n', v];
  }
  if (typeof v === 'string') return ['s', v];
  if (d > 4) return ['deep'];
  if (typeof v === 'function') return ['fn'];
  if (Array.isArray(v)) { const o = []; for (let i = 0; i < v.length; i++) o.push(enc(v[i], d + 1)); return ['a', o]; }
  const out = [];
  for (const k of Object.keys(v)) {
    const desc = Object.getOwnPropertyDescriptor(v, k);
    if (desc.get || desc.set) continue;
    out.push([k, enc(desc.value, d + 1)]);
  }
  return ['o', out];
}
function describe(e) {
  if (e !== null && (typeof e === 'object' || typeof e === 'function')) {
    let name, message;
    try { name = e.name; message = e.message; } catch (x) { return {kind: 'object'}; }
    if (Object.prototype.toString.call(e) === '[object Error]')
      return {kind: 'error', name: enc(name, 0), message: enc(message, 0), code: e.code};
    return {kind: 'object', message: enc(message, 0)};
  }
  return {kind: 'prim', value: enc(e, 0)};
}
const out = progs.map(function (src) {
  const log = [];
  const sandbox = { log: function (tag, v) { log.push([typeof tag === 'string' ? tag : String(tag), enc(v, 0)]); } };
  const ctx = vm.createContext(sandbox);
  try {
    const r = vm.runInContext('"use strict";\n' + src, ctx, {timeout: 3000});
    return {log: log, result: ['value', enc(r, 0)]};
  } catch (e) {
    return {log: log, result: ['throw', describe(e)]};
  }
});
fs.writeFileSync(process.argv[3], JSON.stringify(out));
"""


def _fix_nums(n):
    if isinstance(n, list):
        if len(n) == 2 and n[0] == "n" and isinstance(n[1], (int, float)) and not isinstance(n[1], bool):
            return ["n", P.numkey(float(n[1]))]
        return [_fix_nums(x) for x in n]
    if isinstance(n, dict):
        return {k: _fix_nums(v) for k, v in n.items()}
    return n


def node_run(sources):
    with tempfile.TemporaryDirectory() as d:
        with open(os.path.join(d, "in.json"), "w") as f:
            json.dump(sources, f)
        with open(os.path.join(d, "p.js"), "w") as f:
            f.write(NODE_JS)
        r = subprocess.run(["node", "--stack-size=4000", os.path.join(d, "p.js"), os.path.join(d, "in.json"), os.path.join(d, "out.json")],
                           capture_output=True, text=True)
        if r.returncode != 0:
            raise RuntimeError(r.stderr[-2000:])
        with open(os.path.join(d, "out.json")) as f:
            return _fix_nums(json.load(f))


def compare_node(exp, got):
    """refjs outcome (proglib.run_ref shape) vs node outcome; None if equal."""
    from checks import proglib

    if exp["log"] != got["log"]:
        return "log"
    er, gr = exp["result"], got["result"]
    if er[0] != gr[0]:
        return "outcome %s->%s" % (er[0], gr[0])
    if er[0] == "value":
        return None if er[1] == proglib.n_for_result(gr[1]) else "completion"
    e, g = er[1], gr[1]
    if e["kind"] != g["kind"]:
        return "throw-kind"
    if e["kind"] == "prim":
        return None if e["value"] == g["value"] else "throw-value"
    if e["kind"] == "error":
        if e["name"] != g["name"]:
            return "error-name"
        if not e.get("internal") and e["message"] != g["message"]:
            return "error-message"
    return None


def main():
    from checks import proglib
    from gens import c05gen, progs

    n_random = int(sys.argv[1]) if len(sys.argv) > 1 else 6000
    seed = int(sys.argv[2]) if len(sys.argv) > 2 else 1
    cases = []
    for sub, gen in c05gen.all_campaigns(seed, n_random, thorough=True):
        for prog in gen:
            cases.append(prog)
    from gens import progs_features

    cases.extend(progs_features.feature_cases())  # exceptions / objects / this / callbacks (for C07, C08)
    t0 = time.time()
    by_sub = {}
    disagreements = []
    unmodelled = 0
    B = 2000
    for i in range(0, len(cases), B):
        chunk = cases[i : i + B]
        layouts = [progs.Layout(compact=(j % 3 == 0), parens=(j % 5 == 0)) for j in range(len(chunk))]
        srcs = [progs.to_js(p, l) for p, l in zip(chunk, layouts)]
        outs = node_run(srcs)
        for p, src, got in zip(chunk, srcs, outs):
            exp = proglib.run_ref(p)
            s = by_sub.setdefault(p["sub"], {"cases": 0, "disagree": 0, "unmodelled": 0, "node_only_tags": 0})
            if "unmodelled" in exp:
                s["unmodelled"] += 1
                unmodelled += 1
                continue
            if "node-differs" in p.get("tags", ()):  # documented restriction: validated by hand
                s["node_only_tags"] += 1
                continue
            s["cases"] += 1
            d = compare_node(exp, got)
            if d is not None:
                s["disagree"] += 1
                if len(disagreements) < 20:
                    disagreements.append({"id": p.get("id"), "kind": d, "src": src[:1500], "ref": exp, "node": got})
    rep = {
        "model": "oracles/refjs.py",
        "against": "node " + subprocess.run(["node", "--version"], capture_output=True, text=True).stdout.strip() + " (vm.runInContext, 'use strict')",
        "date": time.strftime("%Y-%m-%d"),
        "seed": seed,
        "cases": sum(s["cases"] for s in by_sub.values()),
        "disagreements": sum(s["disagree"] for s in by_sub.values()),
        "unmodelled_or_budget": unmodelled,
        "by_campaign": by_sub,
        "examples": disagreements,
        "wall_s": round(time.time() - t0, 1),
    }
    path = os.path.join(os.path.dirname(os.path.dirname(os.path.abspath(__file__))), "oracle_validation", "refjs.json")
    if len(sys.argv) > 3:
        path = sys.argv[3]
    with open(path, "w") as f:
        json.dump(rep, f, indent=1)
    print(json.dumps({k: rep[k] for k in ("cases", "disagreements", "unmodelled_or_budget", "wall_s")}), path)
    for d in disagreements[:5]:
        print(d["kind"], d["id"])


if __name__ == "__main__":
    main()
