"""Regenerate MANIFEST.json from the table below (keeps it valid at all times)."""
import json, os
ROOT = os.path.dirname(os.path.dirname(os.path.abspath(__file__)))
props = [json.loads(l) for l in open(os.path.join(ROOT, "properties.jsonl"))]
CHECKS = {
 "C06": dict(
   technique="exhaustive operator tables + Hypothesis expression trees against an ECMAScript primitive-operations reference model",
   text="Every unary/binary/update/compound operator x every pair of a 139-spelling boundary grid (numbers in both host representations) x every assignment-target form is evaluated in the engine and compared, typed (ES type, sign of zero, NaN, exact-double representability), with an independent transcription of the ECMAScript abstract operations; random expression trees mix representations. Exhaustive inside the grid, sampling outside; this is exploration, not proof.",
   note="Trusts oracles/prims.py (validated against node 20 at development time on 70 000 conversions; node is never used by the check) and that eval() hands primitives back unchanged.",
   ref="4/C06"),
}
NA = {}
m = {
 "version": 1,
 "setup_cmd": "/venv/bin/python -c 'import hypothesis' 2>/dev/null || /venv/bin/pip install --no-index --find-links /opt/veriftools/wheels --target /verif/.deps hypothesis",
 "hooks": {"guard": "MICROJS_VERIF", "enable": "none needed: the checks import /repo/src directly and observe through the public API (Context, exposed host functions, the time module)", "baseline_off_cmd": "cd /repo && /venv/bin/python -m pytest -ra -q -p no:cacheprovider --timeout=900 --continue-on-collection-errors", "source_commits": [], "add_only": True},
 "engines": [{"name": "vf", "path": "/verif/run.py", "serves_properties": sorted(CHECKS), "kind_free_text": "property-based testing harness: forked worker pool, Hypothesis generators, exhaustive enumerators, reference models under oracles/"}],
 "checks": [],
 "not_applicable": [],
 "notes": "All checks: ./run.py <ID> quick|thorough [--replay F]; exit 0 held / 1 VIOLATION / 2 harness error. Known findings: known_findings.jsonl.",
}
for p in props:
    pid = p["id"]
    if pid in CHECKS:
        c = CHECKS[pid]
        m["checks"].append({
          "property_id": pid,
          "quick_cmd": "./run.py %s quick" % pid,
          "thorough_cmd": "./run.py %s thorough" % pid,
          "evidence_file": "/verif/evidence/%s.json" % pid,
          "replay_cmd_template": "./run.py %s --replay {path}" % pid,
          "engine": "vf",
          "level_claimed": {"category": "exploration", "text": c["text"], "design_ref": c["ref"]},
          "level_note": c["note"],
          "technique": c["technique"],
        })
    else:
        m["not_applicable"].append({"property_id": pid, "reason": NA.get(pid, "check not built yet in this round (planned, see DESIGN.md section 7); the technique applies")})
json.dump(m, open(os.path.join(ROOT, "MANIFEST.json"), "w"), indent=1)
print("checks:", [c["property_id"] for c in m["checks"]])
