"""Regenerate MANIFEST.json from the table below (keeps it valid at all times)."""
import json, os
ROOT = os.path.dirname(os.path.dirname(os.path.abspath(__file__)))
props = [json.loads(l) for l in open(os.path.join(ROOT, "properties.jsonl"))]
CHECKS = {
 "C06": dict(
   technique="exhaustive operator tables + Hypothesis expression trees against an ECMAScript primitive-operations reference model",
   text="Every unary/binary/update/compound operator x every pair of a 139-spelling boundary grid (numbers in both host representations) x every assignment-target form is evaluated in the engine and compared, typed (ES type, sign of zero, NaN, exact-double representability), with an independent transcription of the ECMAScript abstract operations; random expression trees mix representations. Exhaustive inside the grid, sampling outside; this is exploration, not proof.",
   note="Trusts oracles/prims.py (validated against node 20 at development time on 70 000 conversions; node is never used by the check) and that eval() hands primitives back unchanged.",
   ref="4/C06"),
}
CHECKS["C01"] = dict(
   technique="generated programs wrap(site(spinner)) under a substituted virtual clock; oracle = stop class + exact clock-read accounting + longest unpolled CPU stretch",
   text="Every non-terminating construct (loops, recursion, regex backtracking loops through every regex API, callbacks) is placed at every place script code can run (functions, constructors, accessors, conversions, callbacks of every discovered callback-taking built-in, call/apply/bind, eval, new Function, catch/finally), wrapped in every try/catch/finally shape, and run under a virtual clock in which T is a number of clock reads. The oracle demands TimeLimitError (never a value, another error or a host exception), at most T/delta+10 clock reads, no CPU stretch longer than 2 s without a clock read and no hang. Exhaustive over the single-level product in thorough, stratified in quick, plus random nested compositions and a real-clock subset.",
   note="Assumes the engine reads time through time.monotonic/perf_counter (substituted before import; otherwise only the CPU/real-clock clauses judge). Single native operations on huge operands are out of scope by the property text.",
   ref="4/C01")
CHECKS["C16"] = dict(
   technique="exhaustive (method, receiver, argument) grid + Hypothesis random receivers against a transcription of the ECMAScript String methods",
   text="All 22 discovered String.prototype methods plus length, indexing, String() and fromCharCode x 23 receivers x full argument grids (123 427 cells) are compared, typed, with an independent line-by-line model (validated against node on 196 000 cases at development time); value, receiver unchanged and error class are judged; Hypothesis adds longer receivers and near-miss needles.",
   note="Trusts oracles/strref.py. Non-ASCII case mapping accepts the ES or the documented ASCII-only result. Regex arguments are judged by C20.",
   ref="4/C16")
CHECKS["C18"] = dict(
   technique="boundary + seeded random doubles and grammar-generated numeric strings through every conversion path against exact-rational and grammar reference models; Math special-point tables with a 1-ulp predicate",
   text="Number->string (String, concatenation, toString(radix), toFixed/toExponential/toPrecision for all digit counts, join, JSON), string->number (Number, unary plus, arithmetic, parseInt x radices, parseFloat), numeric literals and all discovered Math functions are compared with reference models using fractions.Fraction arithmetic and explicit grammars; ~7e5 cases in quick, 1.2e7 in thorough. Exact where ECMAScript is exact, validity predicates (reads back within 1 ulp) where it is implementation-approximated.",
   note="Trusts oracles/numfmt.py, numparse.py, mathref.py, prims.py (0 disagreements with node on the exactly specified cases at development time).",
   ref="4/C18")
CHECKS["C14"] = dict(
   technique="parameterised shape templates with closed-form results swept across the instruction-encoding boundaries (size metamorphic relation); typed twin tables / operands that are equal for the host but different JavaScript values",
   text="12 operand-indexed shapes (locals, params, arguments, literals, constants, names, functions, captured variables, regex literals, switch cases) with n across 254..257/511..513/1000 and 14 byte-offset shapes (if/else, loops with break/continue, try, switch, logical/plus chains, string literal) sized from the measured bytecode bytes per statement to sit just below/at/above 256, 32768, 65536, 70000, 131072 and 200000 bytes, each at top level, in a function and in a callback. The result must equal the closed form, or eval must refuse with a JSError about size before anything ran (host flag).",
   note="Expected values are closed forms computed by the check. The byte sizing reads Compiler output when importable (fail-soft to a wide sweep).",
   ref="4/C14")
CHECKS["C02"] = dict(
   technique="recursion-shape and call-free growth-shape enumeration with an exact stop-class/depth oracle + seeded random abrupt-exit bodies and the try/catch/finally shape space under a metamorphic N-iterations-in-the-same-memory relation",
   text="(a) 20 script recursion shapes plus recursion through every discovered callback-taking built-in, accessors, conversions, call/apply/bind and eval x memory limits 2e3..1e7 x time limit set/unset must end in MemoryLimitError (never RecursionError, a crash, a value) at a depth bounded by M/200. (b) Randomly generated terminating bodies built from loops, for-in/for-of, switch, labelled blocks, try/catch/finally, helper calls and mid-expression throws with every abrupt exit kind are run N=300 (2000) times under 4x the memory one run needs: no MemoryLimitError, exactly N times the single-run log, and a sentinel thrown afterwards must surface uncaught (stale handlers would swallow it).",
   note="(b) is metamorphic (needs no model of the body's meaning). Heap data is unaccounted by the engine by documentation and not judged.",
   ref="4/C02")
CHECKS["C19"] = dict(
   technique="Hypothesis-generated JSON values, grammar-generated texts, single-token near-miss mutants, wide documents, every callable kind in every position and non-JSON script values against a hand-written strict parser/serialiser; round-trip laws",
   text="parse(t) equals the reference value (typed, UTF-16), every near-miss text is rejected with a SyntaxError the script itself catches, stringify(v) equals the SerializeJSONProperty transcription for values incl. undefined/functions/NaN/cycles/toJSON/replacer/indent, parse(stringify(v)) == v and stringify(parse(t)) == canonical(t); 1.15e5 cases quick, 1.9e6 thorough.",
   note="Trusts oracles/jsonref.py (0 disagreements with node on 78 201 generated cases at development time). Integer-key ordering and accessor serialisation are recorded known findings of the object model.",
   ref="4/C19")
CHECKS["C09"] = dict(
   technique="exhaustive small-pattern enumeration, capture-lifetime pattern families + Hypothesis random pattern ASTs with match-biased subjects, differential against a CPS transcription of the ECMAScript 22.2.2 matcher",
   text="All pattern ASTs of <= 3 nodes (4 nodes and three-term sequences sampled/sharded; 5 nodes in thorough) over an alphabet with every operator kind x all subjects up to length 4-5 x flag sets, and random deeper patterns with subjects derived from the pattern, are matched by the engine (Python API, script-level RegExp and literals for a sample) and by an independent specification-style matcher; match/no match, index, matched text and every capture (unset vs empty) must agree. 3.3e6 attempts in quick, 5e7 in thorough.",
   note="Trusts oracles/reref.py (0 disagreements with node 20 on 1.95e6 triples at development time). Cases where either side exhausts its step budget are out of scope. Unicode mode is outside the generated alphabet.",
   ref="4/C09")
CHECKS["C11"] = dict(
   technique="Hypothesis-generated JSON-like values through set/get/eval round trips with typed deep equality, freshness (aliasing) probes, exposed-callable recording and seeded random set/eval/get interleavings against a dict model",
   text="Values over boundary ints/floats (NaN, -0, infinities, |int| > 2^53), strings incl. control and non-BMP text, awkward keys and nesting go through set->get, set->eval, the script's own view (null vs undefined, typeof at every node), literal->eval, arguments and return values of exposed Python callables, and 25-step interleavings on one context; comparison is typed (bool != int, int stays int, float stays float, key order), returned containers are mutated to prove nothing mutable is shared.",
   note="Domain restricted to what the property states: JSON-like values with str keys; host callables return primitives, None or (the documented way for structures) JSObject / JSArray instances.",
   ref="4/C11")
CHECKS["C15"] = dict(
   technique="differential self-consistency across host hash seeds (one subprocess per PYTHONHASHSEED), evaluation orders, polluted and isolated processes and repetition; generated programs (closures, computed-key kinds, own-name / arguments shadowing, multi-name error texts) carry their expected value",
   text="400 (4000) seeded closure-heavy programs (>= 3 parameters/locals/closures, captured and pass-through variables in shuffled textual order, named function expressions, arguments, shadowing) and the whole 383-program corpus are evaluated on fresh contexts under 16 (72) hash seeds, forward/reversed/shuffled orders, after a context that mutated built-ins, and twice in a row; every outcome vector (value, error class and message, log) must be identical, and each generated program must also produce the value computed by the generator.",
   note="Programs stopped by the wall-clock time limit are excluded (clock dependent by definition). Math.random/Date.now are never generated and filtered from the corpus.",
   ref="4/C15")
CHECKS["C03"] = dict(
   technique="metamorphic name probing (implementation attribute names vs a control name through 27 access forms), a value-typing invariant observed by an exposed host function and by a harness-side operand-stack monitor over every discovered built-in call, every operator on the boundary grid, argument-flow expressions, corpus and generated programs, and host-call accounting (incl. global names rebound to host functions)",
   text="(a) For 31 receiver kinds x every attribute name of every implementation class (collected reflectively), the Python dunder vocabulary and fresh names, the observation through read/typeof/in/hasOwnProperty/keys/for-in/call/new/instanceof/stringify/prototype use/delete/write-then-read and dot forms must equal the observation for a certainly-unknown name, unless ES defines the name for that receiver kind. (b) Every result of every discovered built-in member on adversarial arguments, and everything reachable from the globals of 383 corpus programs, is passed to inspect(): only JS primitives, JSObject-family objects, JSFunctions and microjs-defined or exposed callables may appear; eval/get results are type-checked likewise. (c) Exposed functions in 25 non-calling positions are never invoked and in calling positions exactly as written.",
   note="ES-defined names per receiver kind are frozen from node 20 at development time (golden/es_receiver_names.json); the engine's array-valued arguments object is treated as an array. An open-world negative claim: gadget chains outside the access-form grammar are not reached.",
   ref="4/C03")
CHECKS["C04"] = dict(
   technique="grammar-free and grammar-aware source fuzzing (character soup, token soup, token-level corpus mutations, prefixes) plus adversarial calls of every discovered built-in (incl. receiver-mutating argument conversions, 2000-level structures, generated backreference patterns) and hard-to-convert result shapes, oracle = exception family + metamorphic position shift",
   text="(a) 78 000 (1e6) generated sources, repaired to nesting depth <= 30, must evaluate to a value or a microjs JSError; a JSSyntaxError must point inside the source and its position must shift by exactly k under k leading newlines (and k leading spaces for errors on line 1); nothing hangs. (b) every function-valued member of 37 receiver kinds and every global function is called with singles, pairs and triples from a 34-value adversarial grid in five call forms inside a script-level try/catch: no host exception may escape. Foreign exceptions are bucketed by (type, innermost microjs frame) and bisected to one call.",
   note="Nesting deeper than 30 is out of scope (README). MemoryError on requests tagged huge is counted resource_excluded. Thorough adds every prefix of every small corpus program.",
   ref="4/C04")
CHECKS["C10"] = dict(
   technique="Hypothesis pattern/flag soup and single-mutation patterns through every construction entry point; 43 catastrophic-backtracking families with exact step accounting through the public poll callback; counted-quantifier sweep with tracemalloc-measured construction memory; every script-level regex API on empty-matching/random patterns x u/g/y flags x astral subjects; optional atheris campaign",
   text="Construction: 84 800 pattern strings (metacharacter soup incl. NUL/U+2028/non-BMP, valid patterns with one mutation of every listed kind, flag strings) through microjs.regex.RegExp, new RegExp, RegExp(), literals and string-pattern match/search: only RegExpError at the Python API within 2 CPU-s and a linear program-size bound; at script level success or a SyntaxError the script itself catches, JSError at the boundary. Matching: 43 families x subject lengths up to 1e3 (1e4) at the Python API (steps <= (len+2)(S+1), stack clause), under a 20 ms virtual-clock time limit through 3 constructors x 8 APIs, and without a limit sized by the budget; result or JSError, never the private regex exceptions, bounded CPU/clock reads/RSS.",
   note="Boundedness is judged against the engine's own step and stack budgets, not wall time. Atheris (thorough) is skipped with a note when unavailable.",
   ref="4/C10")
CHECKS["C13"] = dict(
   technique="exhaustive and random expression trees through a minimal-parenthesis printer (parse(print(t)) == t), metamorphic trivia/parenthesis insertion, print/parse round trip, generated programs must parse to the generated tree, literal-spelling oracles and rejection of programs invalid by construction (incl. raw line terminators in string literals)",
   text="All 5 550 two-operator trees, a seed-rotated third (all in thorough) of 140 168 three-operator trees over 62 operator forms and random deeper trees are printed with ES precedence/associativity and with full parentheses and must parse back to the same tree and evaluate typed-equal; generated and all 383 corpus programs are re-rendered with random whitespace/comments/line breaks (never in restricted positions) and redundant parentheses: same tree, same outcome; parse(print(parse(s))) == parse(s); 40 000 number and string literal spellings denote the value of the reference grammar; ~20 000 programs made invalid by construction (missing closer/quote/comment or regex terminator, non-reference assignment/update/for-in targets, stray closer, broken ?:, bare in) must raise JSSyntaxError.",
   note="Printer, trivia renderer, rejection operators and literal oracles were validated against node 20 at development time (0 disagreements). The engine's tolerance of missing statement separators on one line is not judged.",
   ref="4/C13")
CHECKS["C17"] = dict(
   technique="exhaustive (method, receiver, argument, callback) grid + Hypothesis rule-based state machines on aliased arrays and on typed-array views over one buffer, against list / byte-level reference models",
   text="34 discovered Array.prototype methods x small receivers x an adversarial index/element grid x a callback pool (identity, predicates, logger, thrower, receiver-mutating, non-boolean) are compared on return value, result identity (fresh vs receiver), receiver contents afterwards, callback call sequence (value, index, array, this) and error class; index/length assignment follows the documented stricter-mode rules; sort is judged by a validity predicate (permutation, undefined last, ordered for consistent comparators, stable). Stateful histories mutate aliased arrays step by step against the list model. Nine typed-array kinds x boundary stored values x constructor/subarray/set forms and random write/read sequences through three views over one ArrayBuffer against a little-endian byte model.",
   note="Trusts oracles/arrref.py and typedref.py (0 disagreements with node on 191 000 cells at development time; one V8 deviation in fill() excluded).",
   ref="4/C17")
CHECKS["C05"] = dict(
   technique="exhaustive control-flow/closure skeleton enumeration + seeded random programs, differential against a tree-walking reference interpreter of the program IR; static stack-balance verifier over the compiled bytecode",
   text="15 225 single-level and 5 187 two-level skeletons (loop kind x exit kind x enclosing construct x expression context x pending operands), 1 120 switch layouts, 312+88 closure-capture programs, scoping/completion-value programs and seeded random programs with bounded loops, recursion, hoisting, shadowing and closures are printed from one IR, run in the engine (ordered host log, completion value, uncaught error) and in an independent strict-mode reference interpreter; every difference is a violation, shrunk over the IR. A fail-soft abstract interpretation of the compiled bytecode checks operand-stack balance at every join.",
   note="Trusts oracles/refjs.py (0 disagreements with node --use_strict on 30 319 generated programs at development time) under the documented restrictions (for-in own keys, strict array writes). Operators are kept inside a safe core (C06 judges operators).",
   ref="4/C05")
CHECKS["C12"] = dict(
   technique="exhaustive short and seeded random long operation histories over several contexts, model-checked against one dictionary per context after every step; process-global settings snapshot, depth-probe witness context and freshness of engine-created objects across contexts",
   text="All histories of length 3 (quick: seed-rotated sixth; thorough: all, plus 20 000 of length 4) over a 15-operation alphabet x 2 contexts, and random 8-40 step histories over 2-3 contexts with different limits: definitions, redeclarations, function definitions, eval/new Function definitions, Python set, in-place mutation, built-in mutations, and six kinds of failing eval (syntax error after valid statements, throw after effects, endless loop under a time limit, unbounded recursion under a memory limit, error inside a callback/getter, bad regex). After every step, on every context: every modelled global through get and eval, never-defined names undefined, built-in mutations visible only where made, a 12-probe battery answers as on a pristine context.",
   note="Time-limited contexts use the real clock (T = 40 ms); the model of an interrupted counter loop is monotone only.",
   ref="4/C12")
CHECKS["C20"] = dict(
   technique="exhaustive and random lastIndex operation histories against a RegExpBuiltinExec state-machine model; generated regex-driven string-method cases against transcriptions of Symbol.match/replace/search/split",
   text="Histories over 18 operations (exec, test, ten lastIndex assignments incl. -1, 1.5, \"1\", NaN, undefined, read, match, replace, search, split) x 10 patterns (incl. empty-matching) x flag sets {'', g, y, gy, gi, gm} x 8 subjects: a seeded 1/20 of all length-3 histories in quick (all in thorough, plus length 4-6 samples) and random histories to length 10; after every step [result, lastIndex] must equal the model built on the validated reference matcher. 30 000 (1e6) generated method cases (pattern AST, flags, subject biased to adjacent and empty matches, replacement templates incl. every $ form, logging/throwing function replacers, split limits) compare value, replacer call log and lastIndex afterwards.",
   note="Trusts oracles/reapi.py and reref.py (0 disagreements with node on 152 000 cases at development time).",
   ref="4/C20")
CHECKS["C07"] = dict(
   technique="recipe-generated programs (throw site x handler placement x try/catch/finally shape x expression context) differential against the reference interpreter; boundary and error-object oracles; metamorphic location-shift relation",
   text="379 throw sites (throw of 21 values, 64 runtime-error sites, node-validated text sites incl. eval/Function, every callback-taking built-in, accessors, 144 conversion sites, 21 call forms) x 10 handler placements (same function, callers, across one or two native frames, returned function, uncaught) x nested C/F/CF shapes with every exit kind x 33 expression contexts with pending operands are run in the engine and in refjs: ordered log (each finally once per entry, each catch with the value it received), completion or uncaught outcome. Caught runtime errors must be instanceof their constructor and Error with name/message/constructor; uncaught throws must reach Python as JSError describing the value; the reported line/column must be the throw statement's (within the failing statement for runtime errors) and shift by exactly k under k leading lines/spaces. Every built-in is also called on 47 adversarial arguments: errors must be script-catchable, raising pairs become throw sites.",
   note="Trusts oracles/refjs.py + refjs_c07.py (0 disagreements with node on 25 201 generated programs at development time). Error message wording is compared only for non-emptiness / containment.",
   ref="4/C07")
CHECKS["C08"] = dict(
   technique="seeded operation histories over an object graph model-checked against an abstract object model after every step; exhaustive call-form x function-kind grid against the reference interpreter; enumerated object-model clauses over 84 kinds of engine-created receivers",
   text="(a) Histories of 26 (40) steps over 15 operations (object literals with data/accessor/computed/numeric/__proto__ entries, Object.create with descriptors, new through constructor chains, set/get/delete with identifier, string, numeric and computed keys incl. inherited names and non-canonical numeric strings, defineProperty, setPrototypeOf, F.prototype assignment, Object.assign, inherited accessors) on one Context holding o0..o7 and F0..F3; after every step every live object is observed (read, in, hasOwnProperty, keys/values/entries, for-in, getPrototypeOf, instanceof, isPrototypeOf, JSON.stringify) and compared with the model. (b) 457 call programs: function kinds x call forms x this arguments, observing this, arguments, length, name, return value, instanceof and constructor of the result.",
   note="Trusts oracles/objmodel.py and refjs.py (0 disagreements with node on 60 000 steps / 17.3 M observations and 457 call programs at development time). Integer-key order, functions as objects, null-prototype fallback methods and built-in function length/name are recorded known findings (cells/guards).",
   ref="4/C08")
NA = {}
m = {
 "version": 1,
 "setup_cmd": "/venv/bin/python -c 'import hypothesis' 2>/dev/null || /venv/bin/pip install --no-index --find-links /opt/veriftools/wheels --target /verif/.deps hypothesis",
 "hooks": {"guard": "MICROJS_VERIF", "enable": "none needed: the checks import /repo/src directly and observe through the public API (Context, exposed host functions, the time module)", "baseline_off_cmd": "cd /repo && /venv/bin/python -m pytest -ra -q -p no:cacheprovider --timeout=900 --continue-on-collection-errors", "source_commits": [], "add_only": True},
 "engines": [{"name": "vf", "path": "/verif/run.py", "serves_properties": sorted(CHECKS), "kind_free_text": "property-based testing harness: forked worker pool, Hypothesis generators, exhaustive enumerators, reference models under oracles/"}],
 "checks": [],
 "not_applicable": [],
 "notes": "All checks: ./run.py <ID> quick|thorough [--replay F]; exit 0 held / 1 VIOLATION / 2 harness error. Known findings: known_findings.jsonl.",
}
for p in props:
    pid = p["id"]
    if pid in CHECKS:
        c = CHECKS[pid]
        m["checks"].append({
          "property_id": pid,
          "quick_cmd": "./run.py %s quick" % pid,
          "thorough_cmd": "./run.py %s thorough" % pid,
          "evidence_file": "/verif/evidence/%s.json" % pid,
          "replay_cmd_template": "./run.py %s --replay {path}" % pid,
          "engine": "vf",
          "level_claimed": {"category": "exploration", "text": c["text"], "design_ref": c["ref"]},
          "level_note": c["note"],
          "technique": c["technique"],
        })
    else:
        m["not_applicable"].append({"property_id": pid, "reason": NA.get(pid, "check not built yet in this round (planned, see DESIGN.md section 7); the technique applies")})
json.dump(m, open(os.path.join(ROOT, "MANIFEST.json"), "w"), indent=1)
print("checks:", [c["property_id"] for c in m["checks"]])
