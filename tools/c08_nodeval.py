"""Development-time only: validate oracles/objmodel.py (histories) and the
refjs expectations of the C08 call grid against node (strict mode).

    python tools/c08_nodeval.py [n_histories] [n_steps] [seed]  -> oracle_validation/c08.json

Never used by a registered check.
"""
import json
import os
import subprocess
import sys
import tempfile
import time

sys.path.insert(0, os.path.dirname(os.path.dirname(os.path.abspath(__file__))))

NODE_JS = r"""
'use strict';
const vm = require('vm'); const fs = require('fs');
const inp = JSON.parse(fs.readFileSync(process.argv[2], 'utf8'));
const out = inp.histories.map(function (scripts) {
  const ctx = vm.createContext({});
  const res = [];
  try { vm.runInContext('"use strict";\n' + inp.prelude, ctx, {timeout: 5000}); } catch (e) { return [['prelude', String(e)]]; }
  for (const s of scripts) {
    try { res.push(['ok', vm.runInContext('"use strict";\n' + s, ctx, {timeout: 5000})]); }
    catch (e) { res.push(['exc', String(e)]); }
  }
  return res;
});
fs.writeFileSync(process.argv[3], JSON.stringify(out));
"""


def node_histories(prelude, histories):
    with tempfile.TemporaryDirectory() as d:
        with open(os.path.join(d, "in.json"), "w") as f:
            json.dump({"prelude": prelude, "histories": histories}, f)
        with open(os.path.join(d, "p.js"), "w") as f:
            f.write(NODE_JS)
        r = subprocess.run(["node", os.path.join(d, "p.js"), os.path.join(d, "in.json"), os.path.join(d, "out.json")], capture_output=True, text=True)
        if r.returncode != 0:
            raise RuntimeError(r.stderr[-2000:])
        with open(os.path.join(d, "out.json")) as f:
            return json.load(f)


def main():
    from checks import c08, proglib
    from gens import c08gen as G
    from gens import progs
    from oracles import objmodel as M
    import tools.c05_nodeval as nv

    n_hist = int(sys.argv[1]) if len(sys.argv) > 1 else 1500
    n_steps = int(sys.argv[2]) if len(sys.argv) > 2 else 40
    seed = int(sys.argv[3]) if len(sys.argv) > 3 else 1
    t0 = time.time()
    def full_at(j, n):
        return j % 4 == 3 or j == n - 1

    cases = []
    for i in range(n_hist):
        steps = G.build_history(seed * 1000003 + i, n_steps)
        model = M.Model(forin_own_only=False)
        scripts = []
        for j, st in enumerate(steps):
            if model.apply(st) is M.SKIP:
                continue
            plan = G.observation_plan(model, st, j, full=full_at(j, len(steps)))
            scripts.append(G.step_script(st, G.render_observation(plan)))
        cases.append((steps, scripts))
    outs = node_histories(G.PRELUDE, [c[1] for c in cases])
    n_steps_total = 0
    n_obs = 0
    bad = []
    sigs = {}
    ops = {}
    for (steps, scripts), got in zip(cases, outs):
        model = M.Model(forin_own_only=False)
        gi = 0
        for j, st in enumerate(steps):
            res = model.apply(st)
            if res is M.SKIP:
                continue
            g = got[gi]
            gi += 1
            plan = G.observation_plan(model, st, j, full=full_at(j, len(steps)))
            recs = c08.model_records(model, plan)
            n_steps_total += 1
            ops[st["op"]] = ops.get(st["op"], 0) + 1
            if g[0] != "ok":
                bad.append({"js": G.render_step(st)[0], "node": g})
                sigs["exception"] = sigs.get("exception", 0) + 1
                break
            cmpr = c08.Comparer(())
            if g[1][0] != res:
                cmpr.add("step|%s" % st["op"], res, g[1][0])
            for (spec, keys, protos, mode), rec, gg in zip(plan, recs, g[1][1]):
                n_obs += len(gg)
                cmpr.target(model, spec, keys, protos, mode, (rec, rec), gg)
            for b in cmpr.bad:
                sigs[b[0]] = sigs.get(b[0], 0) + 1
                if len(bad) < 12:
                    bad.append({"sig": b[0], "expected": b[1], "node": b[2], "history": [G.render_step(s)[0] for s in steps[: j + 1]]})
            if cmpr.bad:
                break
    # (b): the call grid under node
    ps = G.call_programs()
    srcs = [progs.to_js(p) for p in ps]
    nouts = nv.node_run(srcs)
    call_bad = []
    for p, src, got in zip(ps, srcs, nouts):
        exp = proglib.run_ref(p)
        d = "unmodelled" if "unmodelled" in exp else nv.compare_node(exp, got)
        if d:
            call_bad.append({"id": p["id"], "kind": d})
    rep = {
        "model": "oracles/objmodel.py (histories) + oracles/refjs.py (call grid)",
        "against": "node " + subprocess.run(["node", "--version"], capture_output=True, text=True).stdout.strip() + " (vm.runInContext, 'use strict')",
        "date": time.strftime("%Y-%m-%d"),
        "seed": seed,
        "histories": n_hist,
        "steps": n_steps_total,
        "observations": n_obs,
        "steps_by_op": ops,
        "disagreements": sum(sigs.values()),
        "disagreement_signatures": sigs,
        "examples": bad[:12],
        "call_programs": len(ps),
        "call_disagreements": len(call_bad),
        "call_examples": call_bad[:10],
        "note": "enumerability of built-in properties (constructor / prototype) is left open by the model; node's answer (non-enumerable) is one of the accepted ones",
        "wall_s": round(time.time() - t0, 1),
    }
    path = os.path.join(os.path.dirname(os.path.dirname(os.path.abspath(__file__))), "oracle_validation", "c08.json")
    if len(sys.argv) > 4:
        path = sys.argv[4]
    with open(path, "w") as f:
        json.dump(rep, f, indent=1)
    print(json.dumps({k: rep[k] for k in ("histories", "steps", "observations", "disagreements", "call_programs", "call_disagreements", "wall_s")}), path)
    for k, v in sorted(sigs.items(), key=lambda kv: -kv[1])[:15]:
        print(v, k)
    for b in bad[:4]:
        print(json.dumps(b)[:1500])


if __name__ == "__main__":
    main()
