#!/venv/bin/python
"""C07 sensitivity: apply each mutant to a scratch copy of a *patched* tree (repo HEAD + proposed C07
fixes), run `run.py C07 quick` against it, write sensitivity/C07.json and the mutants as patch files
under sensitivity/mutants/C07/.

usage: c07_mutants.py <patched tree> [name ...]
"""
import json
import os
import shutil
import subprocess
import sys
import tempfile
import time

ROOT = os.path.dirname(os.path.dirname(os.path.abspath(__file__)))
C, V, X = "src/microjs/compiler.py", "src/microjs/vm.py", "src/microjs/context.py"

MUTANTS = [
    ("throw-keeps-call-stack", V,
     "            while len(self.call_stack) > frame_idx + 1:\n                self.call_stack.pop()\n\n            # Jump to catch handler",
     "            # Jump to catch handler"),
    ("throw-keeps-handler", V,
     "            self.exception_handlers.pop()\n\n            # Unwind call stack",
     "            # Unwind call stack"),
    ("throw-ignores-native-frames", V,
     "            if self._native_barriers and frame_idx < self._native_barriers[-1]:\n                raise _ThrowSignal(exc)",
     "            if False:\n                raise _ThrowSignal(exc)"),
    ("throw-keeps-pending-operands", V,
     "            del self.stack[stack_depth:]\n            self.stack.append(exc)",
     "            self.stack.append(exc)"),
    ("callback-keeps-frames-after-throw", V,
     "                    del self.call_stack[call_stack_len:]\n",
     "                    pass\n"),
    ("callback-keeps-handlers-after-throw", V,
     "                    while (\n                        self.exception_handlers\n                        and self.exception_handlers[-1][0] >= call_stack_len\n                    ):\n                        self.exception_handlers.pop()",
     "                    pass"),
    ("catch-throw-skips-finally", C,
     "                if node.finalizer:\n                    # An exception thrown by the catch block still has to run",
     "                if node.finalizer and False:\n                    # An exception thrown by the catch block still has to run"),
    ("exit-cleanup-no-try-end", C,
     "                if scope.handler_active:\n                    self._emit(OpCode.TRY_END)",
     "                if scope.handler_active and False:\n                    self._emit(OpCode.TRY_END)"),
    ("exit-cleanup-skips-finally", C,
     "                if scope.finalizer is not None:\n                    # The finally block runs outside its own try statement",
     "                if scope.finalizer is not None and False:\n                    # The finally block runs outside its own try statement"),
    ("finally-runs-twice-after-catch-throw", C,
     "                    self._compile_finalizer(node.finalizer)\n                    self.loop_stack.pop()\n                    self._emit(OpCode.THROW)  # Rethrow the catch block's exception",
     "                    self._compile_finalizer(node.finalizer)\n                    self._compile_finalizer(node.finalizer)\n                    self.loop_stack.pop()\n                    self._emit(OpCode.THROW)  # Rethrow the catch block's exception"),
    ("try-finally-swallows-exception", C,
     "                self.loop_stack.append(try_ctx)\n                self._emit(OpCode.THROW)  # Rethrow the exception",
     "                self.loop_stack.append(try_ctx)\n                self._emit(OpCode.POP)"),
    ("finally-exit-keeps-return-value", C,
     "                    parked = 1 if pending_value else 0",
     "                    parked = 0"),
    ("runtime-errors-always-Error", V,
     "        error_constructor = self.globals.get(error_type)\n",
     "        error_constructor = self.globals.get(\"Error\")\n"),
    ("native-errors-not-instanceof-Error", X,
     "            self._globals[name] = self._create_error_constructor(\n                name, error.get(\"prototype\")\n            )",
     "            self._globals[name] = self._create_error_constructor(name)"),
    ("uncaught-name-dropped", V,
     "                    name if isinstance(name, str) and name else \"Error\",",
     "                    \"Error\","),
    ("uncaught-message-dropped", V,
     "                    \"\" if msg is UNDEFINED else to_string(msg),",
     "                    \"\" if msg is UNDEFINED else \"uncaught exception\","),
    ("uncaught-primitive-not-described", V,
     "            raise JSError(to_string(exc))",
     "            raise JSError(\"uncaught exception\")"),
    ("location-of-next-statement", V,
     "            for ip in range(frame.ip - 1, -1, -1):",
     "            for ip in range(frame.ip + 1, -1, -1):"),
    ("location-reset-when-crossing-builtin", V,
     "        if not rethrown and self._is_error_object(exc):",
     "        if self._is_error_object(exc):"),
    ("location-on-every-object", V,
     "        if not rethrown and self._is_error_object(exc):",
     "        if not rethrown and isinstance(exc, JSObject):"),
    ("location-column-zero-based", X,
     "XXX-never", "XXX"),
    ("statement-location-sticks", C,
     "        self._compile_statement_code(node)\n        self._current_loc = enclosing_loc",
     "        self._compile_statement_code(node)"),
    ("nested-function-shares-source-map", C,
     "        self.source_map = {}  # bytecode offsets are per function\n        self._current_loc = None\n        self.locals = [p.name for p in params] + [\"arguments\"]",
     "        self._current_loc = None\n        self.locals = [p.name for p in params] + [\"arguments\"]"),
    ("eval-exceptions-escape", V,
     "            if self.propagate_uncaught:\n                raise _ThrowSignal(exc)",
     "            if False:\n                raise _ThrowSignal(exc)"),
    ("compare-converts-left-operand-only", V,
     "        if isinstance(b, JSObject):\n            b = self._to_primitive(b, \"number\")\n",
     ""),
    ("division-converts-right-operand-first", V,
     "            a_num = self._to_number(a)\n            b_num = self._to_number(b)\n            if b_num == 0:\n                # Check sign of zero using copysign",
     "            b_num = self._to_number(b)\n            a_num = self._to_number(a)\n            if b_num == 0:\n                # Check sign of zero using copysign"),
    ("getter-exception-swallowed", V,
     "            return self._call_callback(getter, [], this_val)",
     "            try:\n                return self._call_callback(getter, [], this_val)\n            except _ThrowSignal:\n                return UNDEFINED"),
    ("neutral-comment-only", V,
     "            # Unwind call stack",
     "            # Unwind the call stack"),
]


def main():
    base = sys.argv[1]
    only = set(sys.argv[2:])
    results = []
    os.makedirs(os.path.join(ROOT, "sensitivity", "mutants", "C07"), exist_ok=True)
    for name, f, old, new in MUTANTS:
        if only and name not in only:
            continue
        if old == "XXX-never":
            continue
        d = tempfile.mkdtemp(prefix="c07-mut-")
        try:
            subprocess.run(["rsync", "-a", "--exclude", ".git", "--exclude", "__pycache__", base + "/", d + "/"], check=True)
            p = os.path.join(d, f)
            s = open(p).read()
            if s.count(old) != 1:
                results.append({"mutant": name, "error": "old text found %d times" % s.count(old)})
                print(name, "DOES NOT APPLY", s.count(old))
                continue
            open(p, "w").write(s.replace(old, new))
            diff = subprocess.run(["diff", "-u", os.path.join(base, f), p], capture_output=True, text=True).stdout
            diff = diff.replace(os.path.join(base, f), "a/" + f).replace(p, "b/" + f)
            with open(os.path.join(ROOT, "sensitivity", "mutants", "C07", name + ".patch"), "w") as fh:
                fh.write(diff)
            t = time.time()
            r = subprocess.run([os.path.join(ROOT, "run.py"), "C07", "quick"], env=dict(os.environ, VERIF_REPO=d), capture_output=True, text=True)
            lines = [l for l in r.stdout.splitlines() if l.startswith("VIOLATION")]
            summary = [l for l in r.stdout.splitlines() if l.startswith("C07 quick")]
            rec = {"mutant": name, "exit": r.returncode, "violation_lines": len(lines), "wall_s": round(time.time() - t),
                   "summary": summary[-1] if summary else r.stdout[-300:], "first": lines[0][lines[0].index("#"):][:220] if lines else None,
                   "detected": (r.returncode == 1) if not name.startswith("neutral") else None}
            results.append(rec)
            print(name, "| exit", r.returncode, "|", (rec["summary"] or "")[-90:], "|", (rec["first"] or "")[:110])
        finally:
            shutil.rmtree(d, ignore_errors=True)
    path = os.path.join(ROOT, "sensitivity", "C07.json")
    if only and os.path.exists(path):
        doc = json.load(open(path))
        doc["results"] = [r for r in doc["results"] if r["mutant"] not in only] + results
        json.dump(doc, open(path, "w"), indent=1)
    elif not only:
        with open(path, "w") as fh:
            json.dump({"property": "C07", "base": "repo HEAD + proposed_fixes/C07-01..", "tier": "quick", "date": time.strftime("%Y-%m-%d"), "results": results}, fh, indent=1)


if __name__ == "__main__":
    main()
