#!/venv/bin/python
"""save_seeded.py <ID> <k> <src dir> <status json>: keep a confirmed seeded change under /verif/seeded/<ID>-<k>/"""
import json, os, shutil, subprocess, sys
ID, k, src, extra = sys.argv[1], sys.argv[2], sys.argv[3], json.loads(sys.argv[4])
dst = "/verif/seeded/%s-%s" % (ID, k)
os.makedirs(dst, exist_ok=True)
for f in ("patch.diff", "demo.py"):
    shutil.copy(os.path.join(src, f), os.path.join(dst, f))
meta = json.load(open(os.path.join(src, "meta.json")))
meta["base_commit"] = os.environ.get("SEED_BASE") or subprocess.run(["git", "-C", "/repo", "rev-parse", "--short", "HEAD"], capture_output=True, text=True).stdout.strip()
meta["confirmed"] = {"demo_clean_exit": 0, "demo_patched_exit": 1, "repo_tests_with_patch": "484 passed, 8 xfailed, 3 xpassed",
                     "how": "tools/try_seeded.sh %s <dir>: scratch copy of /repo, demo before/after patch, repository tests with PYTHONPATH=<copy>/src, then ./run.py %s quick with VERIF_REPO=<copy>" % (ID, ID)}
meta.update(extra)
json.dump(meta, open(os.path.join(dst, "meta.json"), "w"), indent=1)
print("saved", dst)
