"""Development-time only: record the deviating grid cells of one class of C16
cases on the tree selected by VERIF_REPO, as a known-finding cells file
(cell key -> recorded wrong actual).

usage: VERIF_REPO=<tree> /venv/bin/python -B tools/c16_mkknown.py [nonbmp|objarg]
  nonbmp  (default) receivers with a non-BMP character -> known/C16-utf16.json
  objarg  cells with an object argument (only needed if the ToPrimitive
          repairs C16-10/11/12 are not applied)       -> known/C16-objarg.json
"""
import json
import os
import sys

HERE = os.path.dirname(os.path.abspath(__file__))
sys.path.insert(0, os.path.dirname(HERE))

from vf import engine  # noqa: E402

engine.load()
from checks import c16  # noqa: E402

cls = sys.argv[1] if len(sys.argv) > 1 else "nonbmp"
found = c16.discover()
cells = {}
for t in c16.grid_tasks(found):
    if (t[3] == "nonbmp") != (cls == "nonbmp"):
        continue
    r = c16.grid_task(t)
    for key, exp, act, case, sig in r["mismatch"]:
        if cls == "objarg" and "obj" not in case.get("shape", ""):
            continue
        cells[key] = act
name = {"nonbmp": "C16-utf16", "objarg": "C16-objarg"}[cls]
out = os.path.join(os.path.dirname(HERE), "known", name + ".json")
with open(out, "w", encoding="utf-8") as f:
    json.dump(cells, f, indent=0, sort_keys=True, ensure_ascii=True)
print(len(cells), "cells ->", out)
