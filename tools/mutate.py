#!/venv/bin/python
"""Sensitivity harness: apply one textual mutant to a scratch copy of /repo,
optionally confirm the repository's tests still pass, run a check against it.

usage: mutate.py <ID> <file relative to repo> <old> <new> [--tests] [--tier quick] [--count N]
       mutate.py <ID> --patch <patch file> [--tests]
Scratch copy lives under /tmp/verif-mut-<pid> and is removed afterwards.
"""
import os, shutil, subprocess, sys, tempfile, time

def main():
    a = sys.argv[1:]
    prop = a.pop(0)
    tests = "--tests" in a
    if tests: a.remove("--tests")
    tier = "quick"
    if "--tier" in a:
        i = a.index("--tier"); tier = a[i+1]; del a[i:i+2]
    d = tempfile.mkdtemp(prefix="verif-mut-")
    try:
        subprocess.run(["rsync", "-a", "--exclude", ".git", "--exclude", "__pycache__", "/repo/", d + "/"], check=True)
        if a[0] == "--patch":
            r = subprocess.run(["patch", "-p1", "-d", d, "-i", os.path.abspath(a[1])], capture_output=True, text=True)
            if r.returncode: print("PATCH FAILED", r.stdout[-500:], r.stderr[-500:]); return 3
        else:
            f, old, new = a[0], a[1], a[2]
            p = os.path.join(d, f); s = open(p).read()
            if s.count(old) < 1: print("MUTANT DOES NOT APPLY: old text not found"); return 3
            s = s.replace(old, new, 1); open(p, "w").write(s)
        if tests:
            r = subprocess.run(["/venv/bin/python", "-m", "pytest", "-q", "-x", "-p", "no:cacheprovider", "tests"], cwd=d, capture_output=True, text=True,
                               env=dict(os.environ, PYTHONPATH=d + "/src", PYTHONDONTWRITEBYTECODE="1"))
            print("repo tests:", r.stdout.strip().splitlines()[-1] if r.stdout.strip() else r.stderr[-300:])
        t = time.time()
        r = subprocess.run([os.path.join(os.path.dirname(os.path.dirname(os.path.abspath(__file__))), "run.py"), prop, tier],
                           env=dict(os.environ, VERIF_REPO=d), capture_output=True, text=True)
        lines = [l for l in r.stdout.splitlines() if l.startswith("VIOLATION")]
        print("exit=%d violations=%d %.0fs" % (r.returncode, len(lines), time.time() - t))
        for l in lines[:3]: print("  " + l[:260])
        if r.returncode not in (0, 1): print(r.stdout[-800:], r.stderr[-800:])
        return 0
    finally:
        shutil.rmtree(d, ignore_errors=True)

if __name__ == "__main__":
    sys.exit(main())
