#!/bin/bash
# run every registered check's quick command once; print id, exit code, seconds, last line
cd "$(dirname "$0")/.."
for id in $(/venv/bin/python -c "import json; print(' '.join(c['property_id'] for c in json.load(open('MANIFEST.json'))['checks']))"); do
  S=$(date +%s); out=$(./run.py $id ${1:-quick} 2>&1); rc=$?
  echo "$id exit=$rc $(( $(date +%s) - S ))s | $(echo "$out" | tail -1 | cut -c1-160)"
  [ $rc -ne 0 ] && echo "$out" | grep -E "^(VIOLATION|HARNESS)" | head -3 | cut -c1-250
done
