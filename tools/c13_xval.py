#!/venv/bin/python
"""Development-time only: validate gens/exprs.py (minimal-parenthesis printer, full printer, redundant
parentheses, trivia inserter, rejection mutations, literal spellings) against node 20.

For every tree the minimal rendering, the fully parenthesised rendering, renderings with redundant parentheses
and renderings with random trivia are run in node (strict mode, fresh vm context, tracing Proxy bindings):
node must accept all of them and observe the same trace / result / final bindings for all renderings of one tree.
Writes /verif/oracle_validation/c13_printer.json.

usage: tools/c13_xval.py [n_random]
"""
import json
import os
import random
import subprocess
import sys
import tempfile
import datetime

sys.path.insert(0, os.path.dirname(os.path.dirname(os.path.abspath(__file__))))
from gens import exprs as E  # noqa

HARNESS = os.path.join(os.path.dirname(os.path.abspath(__file__)), "c13_node_harness.js")


def run_node(cases):
    out = []
    for k in range(0, len(cases), 4000):
        with tempfile.TemporaryDirectory() as d:
            fi, fo = os.path.join(d, "in.json"), os.path.join(d, "out.json")
            with open(fi, "w") as f:
                json.dump({"cases": cases[k:k + 4000]}, f)
            r = subprocess.run(["node", HARNESS, fi, fo], capture_output=True, text=True)
            if r.returncode:
                raise RuntimeError(r.stderr[-2000:])
            out.extend(json.load(open(fo)))
    return out


def expr_cases(trees, rnd, tag):
    cases = []
    for idx, t in enumerate(trees):
        ctx = E.CONTEXTS[idx % len(E.CONTEXTS)]
        srcs = []
        for mode in ("min", "full"):
            toks, _ = E.print_expr(t, mode, ctx)
            srcs.append(E.join_min(toks))
        toks, _ = E.print_expr(t, "min", ctx, wrap_stmt_whole=True)
        srcs.append(E.join_spaced(toks))
        toks, _ = E.print_expr(t, "min", ctx, rnd=rnd, extra=0.3, extra_targets=True, quote='"')
        srcs.append(E.join_min(toks))
        toks, _ = E.print_expr(t, "min", ctx)
        srcs.append(E.render(toks, rnd, E.Layout(density=0.7, lone_cr=True, vt_ff=True)))
        srcs.append(E.render(toks, rnd, E.Layout(density=0.3)))
        cases.append({"id": "%s%d" % (tag, idx), "srcs": srcs, "profile": idx % 3, "ctx": ctx})
    return cases


def main():
    nrand = int(sys.argv[1]) if len(sys.argv) > 1 else 3000
    rnd = random.Random(20260925)
    report = {"date": str(datetime.date.today()), "node": subprocess.run(["node", "-v"], capture_output=True, text=True).stdout.strip(),
              "parts": {}}
    total_bad = 0
    parts = []
    sh2 = E.enum_shapes(2, E.OPS)
    parts.append(("two-operator trees (all)", [E.build_shape(s) for s in sh2]))
    reps = [E.OPS_BY_NAME[n] for n in E.REP_NAMES]
    sh3 = E.enum_shapes(3, reps)
    rnd.shuffle(sh3)
    parts.append(("three-operator trees (sample of %d)" % len(sh3), [E.build_shape(s) for s in sh3[:12000]]))
    g = E.ExprGen(rnd)
    parts.append(("random trees depth<=6", [g.expr(rnd.choice((2, 3, 4, 5, 6))) for _ in range(nrand)]))
    for name, trees in parts:
        cases = expr_cases(trees, rnd, name[:3])
        res = run_node(cases)
        bad = []
        for c, r in zip(cases, res):
            if any(x.startswith("SyntaxError") or x.startswith("compile") for x in r):
                bad.append({"kind": "rejected by node", "srcs": c["srcs"], "res": r})
            elif len(set(r)) != 1:
                bad.append({"kind": "renderings differ", "srcs": c["srcs"], "res": r})
        report["parts"][name] = {"trees": len(cases), "renderings": sum(len(c["srcs"]) for c in cases), "disagreements": len(bad),
                                 "examples": bad[:5]}
        total_bad += len(bad)
        print(name, len(cases), "bad", len(bad))
        for b in bad[:6]:
            print("   ", b["kind"], b["srcs"][0][:100], "|", b["srcs"][1][:100], b["res"][:3])
    # programs: min vs trivia vs redundant parens
    progs = []
    for i in range(1500):
        pr = E.ProgGen(rnd, size=rnd.choice((4, 8, 14))).program()
        srcs = [E.join_min(E.print_program(pr)), E.join_min(E.print_program(pr, mode="full"))]
        srcs.append(E.join_min(E.print_program(pr, rnd=rnd, extra=0.25, extra_targets=True, quote="'")))
        toks = E.print_program(pr, quote='"')
        srcs.append(E.render(toks, rnd, E.Layout(density=0.6, lone_cr=True, vt_ff=True)))
        srcs.append(E.render(toks, rnd, E.Layout(density=0.2)))
        progs.append({"id": "prog%d" % i, "srcs": srcs, "profile": 1})
    res = run_node(progs)
    bad = []
    for c, r in zip(progs, res):
        if any(x.startswith("SyntaxError") or x.startswith("compile") for x in r):
            bad.append({"kind": "rejected by node", "srcs": c["srcs"], "res": r})
        elif len(set(r)) != 1:
            bad.append({"kind": "renderings differ", "srcs": c["srcs"], "res": r})
    report["parts"]["generated programs"] = {"programs": len(progs), "renderings": 5 * len(progs), "disagreements": len(bad), "examples": bad[:5]}
    total_bad += len(bad)
    print("programs", len(progs), "bad", len(bad))
    for b in bad[:5]:
        i = [k for k, x in enumerate(b["res"]) if x != b["res"][0]]
        print("   ", b["kind"], b["res"], "\n", b["srcs"][0][:300], "\n", b["srcs"][i[0] if i else 1][:400])
    report["disagreements"] = total_bad
    with open(os.path.join(os.path.dirname(HARNESS), "..", "oracle_validation", "c13_printer.json"), "w") as f:
        json.dump(report, f, indent=1)
    return 1 if total_bad else 0


if __name__ == "__main__":
    sys.exit(main())
