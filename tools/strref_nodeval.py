"""Development-time only: agreement of oracles/strref.py with node on the C16
grid (every cell of checks/c16.py, for every method of the ES vocabulary the
model covers) and on random cases of the C16 Hypothesis generator.
Writes oracle_validation/strref.json.  Never used by a registered check.

usage: /venv/bin/python tools/strref_nodeval.py [n_random]
"""
import datetime
import json
import math
import os
import subprocess
import sys

HERE = os.path.dirname(os.path.abspath(__file__))
sys.path.insert(0, os.path.dirname(HERE))

from checks import c16  # noqa: E402
from oracles import strref as R  # noqa: E402
from tools.nodeval import node_map  # noqa: E402
from vf import core  # noqa: E402

ENC = """x => { const enc = v => v === undefined ? {u:1} : v === null ? null :
  typeof v === 'number' ? {n: Object.is(v, -0) ? '-0' : String(v)} :
  Array.isArray(v) ? {a: v.map(enc)} : typeof v === 'object' ? {o: 1} : typeof v === 'function' ? {f: 1} : v;
  return (0, eval)(x).map(enc); }"""


def dec(v):
    if isinstance(v, dict):
        if "u" in v:
            return None
        if "n" in v:
            return float({"Infinity": "inf", "-Infinity": "-inf", "NaN": "nan"}.get(v["n"], v["n"]))
        if "a" in v:
            return [dec(x) for x in v["a"]]
        return "<object>"
    return v


def main():
    n_random = int(sys.argv[1]) if len(sys.argv) > 1 else 30000
    node_methods = [m for m in R.VOCABULARY if m in c16.SIG]
    found = {"methods": node_methods, "String": True, "fcc": True, "fcp": True}
    tasks = c16.grid_tasks(found)
    scripts, metas = [], []
    for t in tasks:
        kind, method, recv, rtag, ga, gb, arity, extra, siglen = t
        A, B = c16.grid_for(ga, len(recv)), c16.grid_for(gb, len(recv))
        extra_val = [c16._parse_literal(extra).value] if extra else []
        a_list = A if arity >= 1 else [None]
        b_list = B if arity >= 2 else [None]
        cells, bad_a = [], set()
        for a in a_list:
            for b in b_list:
                args = [x for x in (a, b) if x is not None]
                try:
                    exp = c16.expected_of(kind, method, recv, [x.value for x in args] + extra_val)
                except R.Unsupported:
                    exp = None
                    bad_a.add(a.src if a is not None else None)
                cells.append((a, b, exp))
        cells = [c for c in cells if (c[0].src if c[0] is not None else None) not in bad_a]
        a_list = [a for a in a_list if (a.src if a is not None else None) not in bad_a]
        if not cells:
            continue
        src, width = c16.build_script(kind, method, c16.js_str(recv), [a.src for a in a_list] if arity >= 1 else [],
                                      [b.src for b in b_list] if arity >= 2 else [], arity, extra)
        scripts.append(src)
        metas.append((t, cells, width))
    outs = node_map(ENC, scripts)
    total, disagreements = 0, []
    per_method = {}
    for (t, cells, width), out in zip(metas, outs):
        if isinstance(out, dict) and "__err" in out:
            disagreements.append({"task": [t[0], t[1], c16.js_str(t[2])], "node": out})
            continue
        vals = [dec(x) for x in out]
        assert len(vals) == len(cells) * width + 1, (t[:3], len(vals), len(cells))
        for k, (a, b, exp) in enumerate(cells):
            act = c16.render_row(vals[k * width:(k + 1) * width], width)
            total += 1
            name = t[1]
            per_method[name] = per_method.get(name, 0) + 1
            if act != exp[0]:
                disagreements.append({"cell": [t[0], t[1], c16.js_str(t[2]), a.src if a else "-", b.src if b else "-", t[7]],
                                      "model": exp[0], "node": act})
        if c16.etv(vals[-1]) != ["s", R.stable(t[2])]:
            disagreements.append({"task": [t[0], t[1]], "readback": vals[-1]})
    # random part: the generator of the check, expected by the model, actual by node
    rnd_total = 0
    raws = c16._random_cases(core.shard_seed(1, "C16", "nodeval"), n_random, node_methods, 80)
    todo = []
    for raw in raws:
        method, recv, args, siglen = c16.concretize(raw)
        try:
            exp = c16.expected_of("m", method, recv, [a.value for a in args])
        except R.Unsupported:
            continue
        todo.append((method, recv, args, exp))
    scripts = []
    for k in range(0, len(todo), 40):
        parts = []
        for method, recv, args, exp in todo[k:k + 40]:
            third = method == "match"
            parts.append("try{r=%s.%s(%s);out.push(typeof r);out.push(r);%s}%s" % (
                c16.js_str(recv), method, ", ".join(a.src for a in args),
                "out.push((r===null||r===undefined)?null:[r.index,r.input]);" if third else "out.push(null);",
                c16.CATCH % "out.push(null);"))
        scripts.append("(function(){var out=[];var r;\n%s\nreturn out;})()" % "\n".join(parts))
    outs = node_map(ENC, scripts)
    for k, out in zip(range(0, len(todo), 40), outs):
        vals = [dec(x) for x in out]
        for j, (method, recv, args, exp) in enumerate(todo[k:k + 40]):
            act = c16.render_row(vals[3 * j:3 * j + 3], 3)
            rnd_total += 1
            if act != exp[0]:
                disagreements.append({"random": [method, c16.js_str(recv), [a.src for a in args]], "model": exp[0], "node": act})
    node_version = subprocess.run(["node", "--version"], capture_output=True, text=True).stdout.strip()
    rep = {
        "model": "oracles/strref.py",
        "date": datetime.date.today().isoformat(),
        "node": node_version,
        "grid_cells": total,
        "grid_cells_per_method": dict(sorted(per_method.items())),
        "random_cases": rnd_total,
        "disagreements": len(disagreements),
        "disagreement_examples": disagreements[:40],
        "notes": "same receivers/argument grids/scripts as checks/c16.py, run for every method of the ES vocabulary "
                 "that the model covers (also those the engine lacks); case mapping compared with the full-Unicode "
                 "alternative; results above 2^24 code units not requested",
    }
    with open(os.path.join(os.path.dirname(HERE), "oracle_validation", "strref.json"), "w") as f:
        json.dump(rep, f, indent=1, ensure_ascii=True, default=repr)
    print("grid cells %d, random %d, disagreements %d" % (total, rnd_total, len(disagreements)))
    for d in disagreements[:25]:
        print(json.dumps(d, ensure_ascii=True, default=repr)[:300])


if __name__ == "__main__":
    main()
