#!/venv/bin/python
"""Sensitivity driver for C08 (development time): applies each mutant to a
scratch copy of the *patched* tree (HEAD + proposed_fixes/C08-*.patch), runs
`run.py C08 quick` against it with the proposed known findings merged and
records detected / missed in sensitivity/C08.json.

    tools/c08_mutants.py [base tree, default: build from /repo + patches] [--only name,...]
"""
import json
import os
import shutil
import subprocess
import sys
import tempfile
import time

ROOT = os.path.dirname(os.path.dirname(os.path.abspath(__file__)))

MUTANTS = [
    ("in-own-only", "src/microjs/vm.py",
     "            if self._has_own_property(obj, key_str):\n                return True\n            obj = obj._prototype\n",
     "            if self._has_own_property(obj, key_str):\n                return True\n            obj = None\n",
     "`in` consults own properties only"),
    ("get-one-hop", "src/microjs/vm.py",
     "                    return UNDEFINED  # accessor property without a getter\n                holder = holder._prototype\n",
     "                    return UNDEFINED  # accessor property without a getter\n                holder = holder._prototype if holder is obj else None\n",
     "_get_property stops after one prototype hop"),
    ("getter-holder-this", "src/microjs/vm.py",
     "return self._invoke_getter(holder._getters[key_str], obj)",
     "return self._invoke_getter(holder._getters[key_str], holder)",
     "getter invoked with the holder instead of the receiver"),
    ("setter-holder-this", "src/microjs/vm.py",
     "self._invoke_setter(holder._setters[key_str], obj, value)",
     "self._invoke_setter(holder._setters[key_str], holder, value)",
     "setter invoked with the holder instead of the receiver"),
    ("delete-from-prototype", "src/microjs/vm.py",
     "            obj.delete(key_str)\n            return True  # also when",
     "            (obj if obj.has(key_str) or obj._prototype is None else obj._prototype).delete(key_str)\n            return True  # also when",
     "delete removes the property from the prototype when the object has none"),
    ("fn-prototype-ignored", "src/microjs/vm.py",
     '            if key_str == "prototype" and hasattr(obj, "_prototype"):\n                obj._prototype = value\n',
     '            if key_str == "prototype" and hasattr(obj, "_prototype"):\n                pass\n',
     "F.prototype = x ignored"),
    ("arrow-dynamic-this", "src/microjs/vm.py",
     "            this_val = func._lexical_this  # arrow function: call form and bind are ignored",
     "            pass",
     "arrow functions take the dynamic this"),
    ("new-ignores-object-return", "src/microjs/vm.py",
     "                if not isinstance(result, JSObject):\n                    result = popped_frame.new_target",
     "                if True:\n                    result = popped_frame.new_target",
     "new ignores an object returned by the constructor"),
    ("bind-drops-args", "src/microjs/vm.py",
     "            bound_func._bound_args = bound_args\n",
     "            bound_func._bound_args = []\n",
     "bind drops the bound arguments"),
    ("keys-include-inherited", "src/microjs/values.py",
     "        if self._key_order is None:\n            return list(self._properties.keys())\n",
     "        if self._key_order is None:\n            return list(self._properties.keys()) + (self._prototype.keys() if self._prototype is not None and self._prototype._prototype is not None else [])\n",
     "keys() includes inherited keys (for-in / Object.keys)"),
    ("instanceof-one-hop", "src/microjs/vm.py",
     "                    current = getattr(current, \"_prototype\", None)\n                self.stack.append(result)",
     "                    current = None\n                self.stack.append(result)",
     "instanceof looks at the direct prototype only"),
    ("call-ignores-this", "src/microjs/vm.py",
     "            return vm._call_function_internal(func, this_val, call_args)",
     "            return vm._call_function_internal(func, UNDEFINED, call_args)",
     "f.call(t, ...) ignores t"),
    ("write-on-holder", "src/microjs/vm.py",
     "                    )\n                holder = holder._prototype\n            obj.set(key_str, value)",
     "                    )\n                holder = holder._prototype\n            (holder if isinstance(holder, JSObject) and holder is not obj and holder._prototype is not None else obj).set(key_str, value)",
     "a write lands on the prototype that holds the data property instead of the receiver"),
    ("new-keeps-old-prototype", "src/microjs/vm.py",
     "            if isinstance(getattr(constructor, \"_prototype\", None), JSObject):\n                obj._prototype = constructor._prototype",
     "            if isinstance(getattr(constructor, \"_prototype\", None), JSObject) and constructor._prototype.has(\"constructor\"):\n                obj._prototype = constructor._prototype",
     "new links to F.prototype only while it still is the default object (has own constructor)"),
    ("arguments-length-params", "src/microjs/vm.py",
     "            arguments_obj._elements = list(args)",
     "            arguments_obj._elements = list(args)[: max(len(compiled.params), 1)]",
     "arguments object truncated to the declared parameters"),
]
NEUTRAL = [
    ("neutral-rename-helper", "src/microjs/vm.py", "_is_array_element", "_array_has_element", "rename of a helper (semantics preserved)"),
]


def build_base(dst):
    subprocess.run(["rsync", "-a", "--exclude", ".git", "--exclude", "__pycache__", "/repo/", dst + "/"], check=True)
    pf = os.path.join(ROOT, "proposed_fixes")
    for fn in sorted(f for f in os.listdir(pf) if f.startswith("C08-") and f.endswith(".patch")):
        r = subprocess.run(["patch", "-p1", "-s", "-d", dst, "-i", os.path.join(pf, fn)], capture_output=True, text=True)
        if r.returncode:
            # already part of /repo (the lead merged it): fine if it reverses cleanly
            rr = subprocess.run(["patch", "-p1", "-s", "-R", "--dry-run", "-d", dst, "-i", os.path.join(pf, fn)], capture_output=True, text=True)
            if rr.returncode:
                raise SystemExit("patch %s neither applies nor is applied: %s" % (fn, r.stdout[-300:]))


def run_one(base, name, rel, old, new, what, replace_all=False):
    d = tempfile.mkdtemp(prefix="verif-c08-mut-")
    try:
        subprocess.run(["rsync", "-a", base + "/", d + "/"], check=True)
        p = os.path.join(d, rel)
        s = open(p).read()
        if old not in s:
            return {"name": name, "what": what, "applies": False}
        s = s.replace(old, new) if replace_all else s.replace(old, new, 1)
        open(p, "w").write(s)
        t = time.time()
        env = dict(os.environ, VERIF_REPO=d, VERIF_KNOWN_EXTRA=os.path.join(ROOT, "proposed_fixes", "C08-known.jsonl"))
        r = subprocess.run([os.path.join(ROOT, "run.py"), "C08", "quick"], env=env, capture_output=True, text=True)
        lines = [l for l in r.stdout.splitlines() if l.startswith("VIOLATION")]
        return {"name": name, "what": what, "applies": True, "exit": r.returncode, "detected": r.returncode == 1,
                "violation_lines": len(lines), "first": [l[:220] for l in lines[:2]], "wall_s": round(time.time() - t)}
    finally:
        shutil.rmtree(d, ignore_errors=True)


def main():
    args = sys.argv[1:]
    only = None
    if "--only" in args:
        i = args.index("--only")
        only = set(args[i + 1].split(","))
        del args[i : i + 2]
    base = args[0] if args else None
    tmp = None
    if base is None:
        tmp = tempfile.mkdtemp(prefix="verif-c08-base-")
        build_base(tmp)
        base = tmp
    out = []
    try:
        for m in MUTANTS:
            if only and m[0] not in only:
                continue
            res = run_one(base, *m)
            print(json.dumps(res)[:400])
            sys.stdout.flush()
            out.append(res)
        for m in NEUTRAL:
            if only and m[0] not in only:
                continue
            res = run_one(base, *m, replace_all=True)
            res["neutral"] = True
            print(json.dumps(res)[:400])
            out.append(res)
    finally:
        if tmp:
            shutil.rmtree(tmp, ignore_errors=True)
    if not only:
        path = os.path.join(ROOT, "sensitivity", "C08.json")
        os.makedirs(os.path.dirname(path), exist_ok=True)
        json.dump({"property": "C08", "base": "HEAD + proposed_fixes/C08-*.patch", "tier": "quick", "date": time.strftime("%Y-%m-%d"),
                   "mutants": out}, open(path, "w"), indent=1)
        print("written", path)


if __name__ == "__main__":
    main()
