#!/venv/bin/python
"""Append `fixed` entries to known_findings.jsonl for every proposed_fixes/*.msg whose
subject line is a commit in /repo (idempotent)."""
import glob, json, os, subprocess
ROOT = os.path.dirname(os.path.dirname(os.path.abspath(__file__)))
log = subprocess.run(["git", "-C", "/repo", "log", "--format=%h\t%s"], capture_output=True, text=True).stdout.splitlines()
by_subject = {}
for l in log:
    h, s = l.split("\t", 1)
    by_subject.setdefault(s.strip(), h)
kf = os.path.join(ROOT, "known_findings.jsonl")
have = set()
for l in open(kf):
    l = l.strip()
    if l and not l.startswith("#"):
        have.add(json.loads(l)["id"])
out = []
for m in sorted(glob.glob(os.path.join(ROOT, "proposed_fixes", "*.msg"))):
    base = os.path.basename(m)[:-4]
    prop = base.split("-")[0]
    subject = open(m, encoding="utf-8", errors="replace").readline().strip()
    sha = by_subject.get(subject)
    fid = base
    if not sha or fid in have:
        continue
    out.append({"status": "fixed", "property": prop, "id": fid, "commit": sha, "what": subject[5:] if subject.startswith("fix: ") else subject})
with open(kf, "a") as f:
    for e in out:
        f.write(json.dumps(e) + "\n")
print("added", len(out))
