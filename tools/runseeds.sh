#!/bin/bash
# runseeds.sh <seed>... : every registered quick check at each seed; prints only non-zero exits and a summary
cd "$(dirname "$0")/.."
for seed in "$@"; do
  for id in $(/venv/bin/python -c "import json; print(' '.join(c['property_id'] for c in json.load(open('MANIFEST.json'))['checks']))"); do
    S=$(date +%s); out=$(VERIF_SEED=$seed ./run.py $id quick 2>&1); rc=$?
    echo "seed=$seed $id exit=$rc $(( $(date +%s) - S ))s"
    [ $rc -ne 0 ] && echo "$out" | grep -E "^(VIOLATION|HARNESS)" | head -5 | cut -c1-300
  done
done
