#!/venv/bin/python
"""Development-time only: cross-validate oracles/reref.py (and the printer of
gens/patterns.py) against node on the generators C09 uses.  Writes
oracle_validation/reref.json.  Never used by a registered check.

usage: tools/c09_xval.py [n_random=24000] [seed=1]
"""
import datetime
import json
import os
import random
import subprocess
import sys

HERE = os.path.dirname(os.path.dirname(os.path.abspath(__file__)))
sys.path.insert(0, HERE)
from gens import patterns as P  # noqa: E402
from oracles import reref  # noqa: E402
from tools.nodeval import node_map  # noqa: E402

NODE_FN = """(x) => { const re = new RegExp(x[0], x[1]); return x[2].map(s => { const m = re.exec(s);
  if (m === null) return null; const caps = []; for (let i = 1; i < m.length; i++) caps.push(m[i] === undefined ? null : m[i]);
  return [m.index, m.index + m[0].length, caps]; }); }"""

EXTRA_CHARS = "\r\t\u2028\u00a0\x1c\u0663\u00e9"  # the check's EXOTIC_ALPHABET additions


def ref_results(ast, flags, subjects):
    prog = reref.Prog(ast, flags)
    out = []
    for s in subjects:
        try:
            r = prog.search(s)
        except reref.OutOfScope:
            out.append("OOS")
            continue
        out.append(None if r is None else [r[0], r[1], r[2]])
    return out


def compare(cases, label, report):
    """cases: list of (ast, flags, [subjects])."""
    inputs = [[P.to_source(a), f, subs] for a, f, subs in cases]
    got = []
    for i in range(0, len(inputs), 4000):
        got.extend(node_map(NODE_FN, inputs[i : i + 4000]))
    n = 0
    matched = 0
    dis = []
    oos = 0
    for (a, f, subs), inp, g in zip(cases, inputs, got):
        if isinstance(g, dict):
            dis.append({"pattern": inp[0], "flags": f, "node": g, "ref": "accepted"})
            n += len(subs)
            continue
        exp = ref_results(a, f, subs)
        for s, e, gg in zip(subs, exp, g):
            n += 1
            if e == "OOS":
                oos += 1
                continue
            if e is not None:
                matched += 1
            if e != gg:
                dis.append({"pattern": inp[0], "flags": f, "subject": s, "node": gg, "ref": e})
    report[label] = {"triples": n, "reference_matched": matched, "reference_out_of_scope": oos,
                     "disagreements": len(dis), "examples": dis[:20]}
    print(label, n, "triples,", matched, "matched,", oos, "oos,", len(dis), "disagreements")
    for d in dis[:8]:
        print("   ", json.dumps(d))
    return len(dis)


def main():
    n_random = int(sys.argv[1]) if len(sys.argv) > 1 else 24000
    seed = int(sys.argv[2]) if len(sys.argv) > 2 else 1
    report = {"model": "oracles/reref.py + gens/patterns.py printer", "date": datetime.date.today().isoformat(),
              "node": subprocess.run(["node", "--version"], capture_output=True, text=True).stdout.strip(), "seed": seed}
    total = 0
    # (1) random ASTs of depth <= 3 (seeded generator) with subjects biased to match
    rnd = random.Random(seed)
    cases = []
    for _ in range(n_random // 8):
        a = P.random_ast(rnd, 3)
        f = rnd.choice(["", "", "i", "i", "m", "s", "im", "is", "ms", "ims"])
        subs = [P.subject_for(a, f, rnd) for _ in range(3)]
        # a few subjects with characters outside the check's main alphabet
        subs.append(P.subject_for(a, f, rnd, alphabet=P.RANDOM_ALPHABET + EXTRA_CHARS))
        cases.append((a, f, subs))
    total += compare(cases, "random_seeded_depth3", report)
    # (2) the Hypothesis strategy used by the check
    import hypothesis
    from hypothesis import strategies as st, settings, HealthCheck

    cases = []

    @hypothesis.seed(seed)
    @settings(max_examples=n_random // 8, database=None, deadline=None,
              suppress_health_check=list(HealthCheck), phases=[hypothesis.Phase.generate])
    @hypothesis.given(P.ast_strategy(3), P.flags_strategy(), st.integers(0, 2**32))
    def collect(a, f, s):
        r = random.Random(s)
        cases.append((a, f, [P.subject_for(a, f, r) for _ in range(4)]))

    collect()
    total += compare(cases, "random_hypothesis_depth3", report)
    # (3) exhaustive: every pattern of <= 3 nodes x subjects over {a,b,c} up to length 4 x {"", i}, specials x 5 flag sets
    asts = P.enumerate_asts(3)
    subs = P.small_subjects(4)
    cases = []
    for a in asts:
        cases.append((a, "", subs))
        cases.append((a, "i", subs))
        for f in ("", "i", "m", "s", "ims"):
            cases.append((a, f, P.SPECIAL_SUBJECTS))
    total += compare(cases, "exhaustive_le3_nodes", report)
    # (4) a seeded slice of the 4-node patterns
    a4 = P.enumerate_asts(4, 4)
    rnd = random.Random(seed + 1)
    cases = [(a, f, subs + P.SPECIAL_SUBJECTS) for a in rnd.sample(a4, 3000) for f in ("", "m", "i")]
    total += compare(cases, "exhaustive_4_nodes_sample3000", report)
    # (5) parser round trip: parse(to_source(ast)) behaves like ast
    rnd = random.Random(seed + 2)
    bad = 0
    n = 0
    for _ in range(3000):
        a = P.random_ast(rnd, 3)
        f = rnd.choice(["", "i", "m", "s"])
        t = P.to_source(a)
        b = P.parse(t)
        if P.to_source(b) != t:
            bad += 1
            continue
        for _ in range(3):
            s = P.subject_for(a, f, rnd)
            n += 1
            try:
                if reref.Prog(a, f).search(s) != reref.Prog(b, f).search(s):
                    bad += 1
            except reref.OutOfScope:
                pass
    report["parser_round_trip"] = {"cases": n, "disagreements": bad}
    print("parser round trip", n, bad)
    report["total_disagreements"] = total + bad
    with open(os.path.join(HERE, "oracle_validation", "reref.json"), "w") as fh:
        json.dump(report, fh, indent=1, ensure_ascii=True)


if __name__ == "__main__":
    main()
