import json,glob,collections,sys
prop=sys.argv[1]
c=collections.Counter(); ex={}
for f in glob.glob('/verif/out/replay/%s/*.json'%prop):
    r=json.load(open(f))
    sig=r['signature'].split('|')
    if sig[0] in('tree','lit'): key=(sig[0],sig[1] if len(sig)>1 else '', '')
    else:
        d=sig[3] if len(sig)>3 else ''
        if d.startswith('num ') and '->' in d:
            a,b=d[4:].split('->')
            d='num '+(a if a in('NaN','Infinity','-Infinity','0','-0','x') else 'v')+'->'+(b if b in('NaN','Infinity','-Infinity','0','-0','y') else 'v')
        key=(sig[0],sig[1],sig[2] if len(sig)>2 else '',d)
    c[key]+=r['count']; ex.setdefault(key,(r['case'],r['expected'],r['actual']))
for k,n in sorted(c.items()):
    print(n,k,json.dumps(ex[k])[:220])
