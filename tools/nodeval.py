"""Development-time only: evaluate a JS function over JSON inputs in node.
Never used by a registered check."""
import json, subprocess, tempfile, os

def node_map(fn_src, inputs):
    with tempfile.TemporaryDirectory() as d:
        with open(os.path.join(d, "in.json"), "w") as f:
            json.dump(inputs, f)
        js = ("'use strict';const fs=require('fs');const inp=JSON.parse(fs.readFileSync(%s));"
              "const fn=%s;const out=inp.map(x=>{try{return fn(x)}catch(e){return {__err:e.name}}});"
              "fs.writeFileSync(%s,JSON.stringify(out));") % (
            json.dumps(os.path.join(d, "in.json")), fn_src, json.dumps(os.path.join(d, "out.json")))
        with open(os.path.join(d, "p.js"), "w") as f:
            f.write(js)
        r = subprocess.run(["node", os.path.join(d, "p.js")], capture_output=True, text=True)
        if r.returncode != 0:
            raise RuntimeError(r.stderr[-2000:])
        with open(os.path.join(d, "out.json")) as f:
            return json.load(f)
