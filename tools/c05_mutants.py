#!/venv/bin/python
"""C05 sensitivity: apply each mutant to a scratch copy of a *patched* tree
(repo HEAD + proposed C05 fixes), run the repository tests and
`run.py C05 quick` against it, write sensitivity/C05.json and the mutants as
patch files under sensitivity/mutants/C05/.

usage: c05_mutants.py <patched tree> [name ...]
"""
import json, os, shutil, subprocess, sys, tempfile, time

ROOT = os.path.dirname(os.path.dirname(os.path.abspath(__file__)))
C, V = "src/microjs/compiler.py", "src/microjs/vm.py"

MUTANTS = [
    ("dowhile-continue-to-loop-start", C,
     "                self._patch_jump(pos, continue_target)\n\n            self.loop_stack.pop()\n\n        elif isinstance(node, ForStatement):",
     "                self._patch_jump(pos, loop_start)\n\n            self.loop_stack.pop()\n\n        elif isinstance(node, ForStatement):"),
    ("for-continue-skips-update", C,
     "            for pos in loop_ctx.continue_jumps:\n                self._patch_jump(pos, continue_target)\n\n            self.loop_stack.pop()\n\n        elif isinstance(node, ForInStatement):",
     "            for pos in loop_ctx.continue_jumps:\n                self._patch_jump(pos, loop_start)\n\n            self.loop_stack.pop()\n\n        elif isinstance(node, ForInStatement):"),
    ("forin-break-after-iterator-pop", C,
     "            # Patch break jumps: like normal exit they still hold the iterator\n            for pos in loop_ctx.break_jumps:\n                self._patch_jump(pos)\n            self._emit(OpCode.POP)  # Pop iterator\n\n            # Patch continue jumps\n            for pos in loop_ctx.continue_jumps:\n                self._patch_jump(pos, loop_start)\n\n            self.loop_stack.pop()\n\n        elif isinstance(node, ForOfStatement):",
     "            self._emit(OpCode.POP)  # Pop iterator\n            for pos in loop_ctx.break_jumps:\n                self._patch_jump(pos)\n\n            # Patch continue jumps\n            for pos in loop_ctx.continue_jumps:\n                self._patch_jump(pos, loop_start)\n\n            self.loop_stack.pop()\n\n        elif isinstance(node, ForOfStatement):"),
    ("switch-break-leaks-discriminant", C,
     "            for pos in loop_ctx.break_jumps:\n                self._patch_jump(pos)\n            self._emit(OpCode.POP)  # Pop discriminant",
     "            self._emit(OpCode.POP)  # Pop discriminant\n            for pos in loop_ctx.break_jumps:\n                self._patch_jump(pos)"),
    ("labelled-continue-targets-inner-loop", C,
     "                if target_label is None or target_label in loop_ctx.labels:\n                    ctx = loop_ctx\n                    break",
     "                if True:\n                    ctx = loop_ctx\n                    break"),
    ("exit-cleanup-skips-finally", C,
     "                if scope.finalizer is not None:\n                    # The finally block runs outside its own try statement",
     "                if scope.finalizer is not None and False:\n                    # The finally block runs outside its own try statement"),
    ("exit-cleanup-runs-all-finally", C,
     "            scope = self.loop_stack[i]\n            if scope is target:\n                break",
     "            scope = self.loop_stack[i]\n            if scope is target and not any(isinstance(x, TryContext) for x in self.loop_stack[:i]):\n                break"),
    ("exit-cleanup-no-slot-pop", C,
     "                for _ in range(scope.stack_slots):\n                    self._emit(OpCode.POP)",
     "                for _ in range(0):\n                    self._emit(OpCode.POP)"),
    ("exit-cleanup-no-try-end", C,
     "                if scope.handler_active:\n                    self._emit(OpCode.TRY_END)",
     "                if scope.handler_active and False:\n                    self._emit(OpCode.TRY_END)"),
    ("make-closure-copies-cell", V,
     "                            # Share the same cell!\n                            closure_cells.append(frame.cell_storage[idx])",
     "                            closure_cells.append(ClosureCell(frame.cell_storage[idx].value))"),
    ("make-closure-copies-outer-cell", V,
     "                            closure_cells.append(frame.closure_cells[idx])",
     "                            closure_cells.append(ClosureCell(frame.closure_cells[idx].value))"),
    ("cell-storage-shared-across-activations", V,
     "        cell_storage = None\n        if compiled.cell_vars:\n            cell_storage = []",
     "        cell_storage = None\n        if compiled.cell_vars and getattr(compiled, '_mut_cells', None) is not None:\n            cell_storage = compiled._mut_cells\n            for i, var_name in enumerate(compiled.cell_vars):\n                if var_name in compiled.params:\n                    cell_storage[i].value = locals_list[compiled.locals.index(var_name)]\n        elif compiled.cell_vars:\n            cell_storage = compiled._mut_cells = []"),
    ("nfe-name-slot-off-by-one", V,
     "            if name_slot >= len(compiled.params) + 1:  # After params and arguments\n                locals_list[name_slot] = func",
     "            if name_slot >= len(compiled.params) + 1 and name_slot + 1 < len(locals_list):  # After params and arguments\n                locals_list[name_slot + 1] = func"),
    ("typeof-name-not-decoded", V,
     "            OpCode.MAKE_CLOSURE,\n            OpCode.TYPEOF_NAME,\n        ):",
     "            OpCode.MAKE_CLOSURE,\n        ):"),
    ("switch-default-jumps-early", C,
     "                else:\n                    default_index = i\n",
     "                else:\n                    default_index = i\n                    break\n"),
    ("rot4-wrong-order", V,
     "            self.stack[-4] = b\n            self.stack[-3] = c\n            self.stack[-2] = d\n            self.stack[-1] = a",
     "            self.stack[-4] = c\n            self.stack[-3] = b\n            self.stack[-2] = d\n            self.stack[-1] = a"),
    ("hoisting-skips-later-declarations", C,
     "        for stmt in body:\n            if isinstance(stmt, FunctionDeclaration):\n                self._compile_statement(stmt)\n                self._hoisted.add(id(stmt))",
     "        for stmt in body[:1]:\n            if isinstance(stmt, FunctionDeclaration):\n                self._compile_statement(stmt)\n                self._hoisted.add(id(stmt))"),
    ("return-keeps-pending-operands", V,
     "        frame = self.call_stack.pop()\n        del self.stack[frame.bp :]",
     "        frame = self.call_stack.pop()"),
    ("while-break-jumps-to-loop-start", C,
     "            self._emit(OpCode.JUMP, loop_start)\n            self._patch_jump(jump_false)\n\n            # Patch break jumps\n            for pos in loop_ctx.break_jumps:\n                self._patch_jump(pos)",
     "            self._emit(OpCode.JUMP, loop_start)\n            self._patch_jump(jump_false)\n\n            # Patch break jumps\n            for pos in loop_ctx.break_jumps[1:]:\n                self._patch_jump(pos)\n            for pos in loop_ctx.break_jumps[:1]:\n                self._patch_jump(pos, loop_start if len(loop_ctx.break_jumps) > 1 else None)"),
    ("call-args-right-to-left", C,
     "                self._compile_expression(node.callee)\n                for arg in node.arguments:\n                    self._compile_expression(arg)\n                self._emit(OpCode.CALL, len(node.arguments))",
     "                self._compile_expression(node.callee)\n                for arg in node.arguments[:2][::-1] + node.arguments[2:]:\n                    self._compile_expression(arg)\n                if len(node.arguments) >= 2:\n                    self._emit(OpCode.SWAP)\n                self._emit(OpCode.CALL, len(node.arguments))"),
    ("finally-exit-keeps-exception", C,
     "            elif target is not None:\n                for _ in range(scope.stack_slots):",
     "            elif target is not None and not isinstance(scope, PendingValueContext):\n                for _ in range(scope.stack_slots):"),
    ("NEUTRAL-poll-interval", V, "self.instruction_count % 1000 == 0", "self.instruction_count % 500 == 0"),
]


def main():
    base = sys.argv[1]
    only = set(sys.argv[2:])
    results = []
    for name, f, old, new in MUTANTS:
        if only and name not in only:
            continue
        d = tempfile.mkdtemp(prefix="c05-mut-")
        try:
            subprocess.run(["rsync", "-a", "--exclude", ".git", "--exclude", "__pycache__", base + "/", d + "/"], check=True)
            p = os.path.join(d, f)
            s = open(p).read()
            if s.count(old) != 1:
                results.append({"mutant": name, "error": "old text found %d times" % s.count(old)})
                print(name, "DOES NOT APPLY", s.count(old))
                continue
            open(p, "w").write(s.replace(old, new))
            diff = subprocess.run(["diff", "-u", os.path.join(base, f), p], capture_output=True, text=True).stdout
            diff = diff.replace(os.path.join(base, f), "a/" + f).replace(p, "b/" + f)
            with open(os.path.join(ROOT, "sensitivity", "mutants", "C05", name + ".patch"), "w") as fh:
                fh.write(diff)
            r = subprocess.run(["/venv/bin/python", "-m", "pytest", "-q", "-x", "-p", "no:cacheprovider", "tests"], cwd=d, capture_output=True, text=True,
                               env=dict(os.environ, PYTHONPATH=d + "/src", PYTHONDONTWRITEBYTECODE="1"))
            tests = r.stdout.strip().splitlines()[-1] if r.stdout.strip() else r.stderr[-200:]
            t = time.time()
            r = subprocess.run([os.path.join(ROOT, "run.py"), "C05", "quick"], env=dict(os.environ, VERIF_REPO=d), capture_output=True, text=True)
            lines = [l for l in r.stdout.splitlines() if l.startswith("VIOLATION")]
            summary = [l for l in r.stdout.splitlines() if l.startswith("C05 quick")]
            rec = {"mutant": name, "repo_tests": tests, "exit": r.returncode, "violation_lines": len(lines), "wall_s": round(time.time() - t),
                   "summary": summary[-1] if summary else r.stdout[-300:], "first": lines[0][lines[0].index("#"):][:220] if lines else None}
            results.append(rec)
            print(name, "| tests:", tests, "| exit", r.returncode, "|", (rec["first"] or "")[:150])
        finally:
            shutil.rmtree(d, ignore_errors=True)
    if only:
        path = os.path.join(ROOT, "sensitivity", "C05.json")
        if os.path.exists(path):
            doc = json.load(open(path))
            doc["results"] = [r for r in doc["results"] if r["mutant"] not in only] + results
            json.dump(doc, open(path, "w"), indent=1)
    if not only:
        with open(os.path.join(ROOT, "sensitivity", "C05.json"), "w") as fh:
            json.dump({"property": "C05", "base": "repo HEAD + proposed_fixes/C05-01..13", "tier": "quick", "date": time.strftime("%Y-%m-%d"), "results": results}, fh, indent=1)


if __name__ == "__main__":
    main()
