"""C11 - values cross the Python/JavaScript boundary faithfully.

Hypothesis-generated JSON-like Python values (boundary numbers, strings incl.
non-BMP, nested lists/dicts, shared sub-objects, awkward keys) through
 1. set/get and set/eval round trips under *typed* deep equality,
 2. script literals -> eval results (undefined/null -> None, arrays -> lists,
    objects -> dicts of own data properties),
 3. freshness (mutating what get/eval returned, or the original after set,
    never shows through; consecutive gets share nothing mutable),
 4. exposed callables (argument order/count/values; return values seen by the script),
 5. interleavings of set/eval/get on one context against a dict model.
"""
import math
import random

from oracles import prims as P
from vf import core, engine, pool

INF = math.inf


# ------------------------------------------------------------------- equality
def teq(a, b):
    """Typed deep equality: same Python type at every node, NaN == NaN, -0.0 != 0.0,
    dict key order preserved."""
    if type(a) is not type(b):
        return False
    if isinstance(a, float):
        if a != a or b != b:
            return a != a and b != b
        return a == b and math.copysign(1, a) == math.copysign(1, b)
    if isinstance(a, list):
        return len(a) == len(b) and all(teq(x, y) for x, y in zip(a, b))
    if isinstance(a, dict):
        return list(a.keys()) == list(b.keys()) and all(teq(a[k], b[k]) for k in a)
    return a == b


def neq(a, b):
    """Equality of script results: numbers compare as doubles (1 == 1.0) but keep
    sign of zero and NaN; everything else typed."""
    if isinstance(a, bool) or isinstance(b, bool):
        return type(a) is type(b) and a == b
    if isinstance(a, (int, float)) and isinstance(b, (int, float)):
        try:
            fa, fb = float(a), float(b)
        except OverflowError:
            return False
        if fa != fa or fb != fb:
            return fa != fa and fb != fb
        return fa == fb and math.copysign(1, fa) == math.copysign(1, fb) and (not isinstance(a, int) or a == b or abs(a) > 2 ** 53 or isinstance(b, float))
    if type(a) is not type(b):
        return False
    if isinstance(a, list):
        return len(a) == len(b) and all(neq(x, y) for x, y in zip(a, b))
    if isinstance(a, dict):
        return list(a.keys()) == list(b.keys()) and all(neq(a[k], b[k]) for k in a)
    return a == b


def show(v, depth=0):
    if isinstance(v, float):
        return "float:" + P.numkey(v)
    if isinstance(v, bool) or v is None:
        return repr(v)
    if isinstance(v, int):
        return "int:%d" % v if abs(v) < 10 ** 40 else "int:~2^%d" % v.bit_length()
    if isinstance(v, str):
        return "str:" + v.encode("unicode_escape").decode()[:60]
    if depth > 6:
        return "..."
    if isinstance(v, list):
        return [show(x, depth + 1) for x in v[:12]]
    if isinstance(v, dict):
        return {str(k)[:20]: show(x, depth + 1) for k, x in list(v.items())[:12]}
    return "<%s.%s>" % (type(v).__module__, type(v).__name__)


# ------------------------------------------------------------------ generators
def strategies():
    from hypothesis import strategies as st

    ints = st.sampled_from([0, 1, -1, 7, 255, 2 ** 31 - 1, 2 ** 31, -(2 ** 31), 2 ** 32, 2 ** 53 - 1, 2 ** 53, 2 ** 53 + 1, -(2 ** 53) - 1, 2 ** 64, 10 ** 30]) | st.integers(-1000, 1000)
    floats = st.sampled_from([0.0, -0.0, 1.0, 1.5, -2.5, 0.1, 1e21, 1e-7, 5e-324, 1.7976931348623157e308, INF, -INF, math.nan, 3.0, 2.0 ** 53, 123456789.125]) | st.floats(allow_nan=True, allow_infinity=True)
    alphabet = st.characters(blacklist_categories=("Cs",))
    strs = st.sampled_from(["", "a", "abc", "\n", "\x00", "\"", "'", "\\", "é", "日本", "\U0001F600", "a\U0001F600b", " ", "</script>", "__proto__", "length", " "]) | st.text(alphabet, max_size=12)
    keys = st.sampled_from(["", "a", "b", "__proto__", "length", "constructor", "1", "01", "-1", "1.5", "toString", "valueOf", "x y", "é", "\U0001F600", "hasOwnProperty"]) | st.text(alphabet, max_size=6)
    prim = st.none() | st.booleans() | ints | floats | strs

    def ext(children):
        return st.lists(children, max_size=5) | st.dictionaries(keys, children, max_size=5)

    return st.recursive(prim, ext, max_leaves=25), prim, keys


def collect(seed, n, what):
    import hypothesis
    from hypothesis import settings, HealthCheck

    values, prim, keys = strategies()
    out = []

    @hypothesis.seed(seed)
    @settings(max_examples=n, database=None, deadline=None, phases=[hypothesis.Phase.generate],
              suppress_health_check=[HealthCheck.too_slow, HealthCheck.data_too_large])
    @hypothesis.given(values if what == "value" else hypothesis.strategies.lists(values, max_size=4))
    def run(v):
        out.append(v)

    run()
    return out


def add_sharing(v, rnd):
    """Put a second reference to one of v's own containers into v (a DAG, no cycle)."""
    conts = []

    def walk(x, depth):
        if isinstance(x, (list, dict)):
            if depth > 0:
                conts.append(x)
            for y in (x if isinstance(x, list) else x.values()):
                walk(y, depth + 1)

    walk(v, 0)
    if not isinstance(v, (list, dict)) or not conts:
        return v, False
    c = rnd.choice(conts)
    if isinstance(v, list):
        v.append(c)
        v.insert(0, c)
    else:
        v["shared1"] = c
        v["shared2"] = [c, c]
    return v, True


def nontrivial(v):
    kinds = set()
    boundary = [False]
    cont = [False]

    def walk(x):
        kinds.add(type(x).__name__)
        if isinstance(x, float) and (x != x or abs(x) == INF or (x == 0 and math.copysign(1, x) < 0)):
            boundary[0] = True
        if isinstance(x, int) and not isinstance(x, bool) and abs(x) > 2 ** 53:
            boundary[0] = True
        if isinstance(x, str) and any(ord(c) > 0xFFFF for c in x):
            boundary[0] = True
        if isinstance(x, list):
            cont[0] = True
            for y in x:
                walk(y)
        if isinstance(x, dict):
            cont[0] = True
            for y in x.values():
                walk(y)

    walk(v)
    prims = kinds - {"list", "dict"}
    return boundary[0] or (cont[0] and len(prims) >= 2)


# ---------------------------------------------------------------- JS rendering
def js_lit(v):
    """JavaScript source for a JSON-like Python value, and the Python value that eval
    must hand back for it (ints beyond 2^53 denote the nearest double)."""
    if v is None:
        return "null", None
    if isinstance(v, bool):
        return ("true" if v else "false"), v
    if isinstance(v, int):
        if abs(v) > 2 ** 53:
            f = P.int_to_double(v)
            return P.js_literal(f), f
        return ("(%d)" % v), v
    if isinstance(v, float):
        return P.js_literal(v), v
    if isinstance(v, str):
        return P.js_string_literal(v, True), v
    if isinstance(v, list):
        parts = [js_lit(x) for x in v]
        return "[" + ", ".join(p[0] for p in parts) + "]", [p[1] for p in parts]
    if isinstance(v, dict):
        parts = [(k, js_lit(x)) for k, x in v.items()]
        src = "({" + ", ".join("[%s]: %s" % (P.js_string_literal(k, True), p[0]) if k == "__proto__" else "%s: %s" % (P.js_string_literal(k, True), p[0]) for k, p in parts) + "})"
        return src, {k: p[1] for k, p in parts}
    raise TypeError(v)


def has_proto_key(v):
    if isinstance(v, dict):
        return "__proto__" in v or any(has_proto_key(x) for x in v.values())
    if isinstance(v, list):
        return any(has_proto_key(x) for x in v)
    return False


# ------------------------------------------------------------------ worker side
def guarded(fn):
    try:
        with pool.cpu_alarm(30):
            try:
                return ("ok", fn())
            except pool.HarnessTimeout:
                return ("hang", None)
            except RecursionError as e:
                return ("exc", engine.exc_info(e))
            except Exception as e:
                return ("exc", engine.exc_info(e))
    except pool.HarnessTimeout:
        return ("hang", None)


def roundtrip_task(values):
    import copy

    if isinstance(values, tuple):  # (seed, n): generate here
        rnd = random.Random(values[0])
        values = collect(values[0], values[1], "value")
        values = [add_sharing(v, rnd)[0] if i % 3 == 0 else v for i, v in enumerate(values)]
    gen = values

    m = engine.load()
    out = []
    for v in values:
        res = {}
        ctx = m.Context(time_limit=10)
        orig = copy.deepcopy(v)
        st, _ = guarded(lambda: ctx.set("v", v))
        if st != "ok":
            out.append({"set": (st, _)})
            continue
        rg = guarded(lambda: ctx.get("v"))
        re_ = guarded(lambda: ctx.eval("v"))
        # what the *script* sees: null (not undefined) for None, the right typeof at every node
        res["skeleton"] = guarded(lambda: ctx.eval(ENCODER + "(v)"))
        # snapshots for the comparison; the live objects are mutated below
        res["get"] = (rg[0], copy.deepcopy(rg[1]))
        res["eval"] = (re_[0], copy.deepcopy(re_[1]))
        # freshness: mutate what came back and the original that was passed in
        g1 = rg[1] if rg[0] == "ok" else None
        g2st, g2 = guarded(lambda: ctx.get("v"))
        res["distinct"] = not (isinstance(g1, (list, dict)) and g1 is g2)
        for g in (g1, re_[1] if re_[0] == "ok" else None):
            _mutate(g)
        _mutate(v)
        res["after_mutation"] = guarded(lambda: ctx.get("v"))
        res["orig"] = orig
        out.append(res)
    return (gen_snapshot(out), out)


def gen_snapshot(out):
    return [r.get("orig") for r in out]


ENCODER = ("(function enc(x){ if (x === null) return 'null'; if (x === undefined) return 'undef'; if (Array.isArray(x)) return x.map(enc); "
           "if (typeof x === 'object') { var o = {}; var ks = Object.keys(x); for (var i = 0; i < ks.length; i++) o['k:' + ks[i]] = enc(x[ks[i]]); return o; } return typeof x; })")


def skeleton(v):
    if v is None:
        return "null"
    if isinstance(v, bool):
        return "boolean"
    if isinstance(v, (int, float)):
        return "number"
    if isinstance(v, str):
        return "string"
    if isinstance(v, list):
        return [skeleton(x) for x in v]
    return {"k:" + k: skeleton(x) for k, x in v.items()}


def _mutate(x):
    if isinstance(x, list):
        for y in x:
            _mutate(y)
        x.append("MUTATED")
        if len(x) > 1:
            x[0] = "MUTATED0"
    elif isinstance(x, dict):
        for y in list(x.values()):
            _mutate(y)
        x["MUTATED"] = 1
        for k in list(x)[:1]:
            x[k] = "MUTATEDV"


def bulk_values():
    out = []
    for n_ in (15, 16, 17, 18, 31, 32, 33, 64, 100, 257, 1000):
        out.append(list(range(n_)))
        out.append([float(i) + 0.5 for i in range(n_)])
        out.append(["s%d" % i for i in range(n_)])
        out.append([i % 2 == 0 for i in range(n_)])
        out.append([i if i % 3 else "x%d" % i for i in range(n_)])
        out.append([None if i == 5 else i for i in range(n_)])
        out.append({"k%d" % i: i for i in range(n_)})
    big = list(range(40))
    out += [{"a": list(big), "b": [list(big), list(big)]}, [list(big), {"in": list(big)}, "t"], [[list(big)]], {"x": {"y": {"z": list(big)}}}]
    return out


SCRIPT_BUILDERS = [
    "var a = []; for (var i = 0; i < 40; i++) a.push(i); a",
    "var a = []; for (var i = 0; i < 40; i++) a.push('s' + i); a",
    "var a = []; for (var i = 0; i < 17; i++) a.push(i % 2 === 0); a",
    "var a = [1, 2, 3]; a",
    "var a = {p: 1, q: [1, 2, 3]}; a",
    "var a = []; for (var i = 0; i < 40; i++) a.push(i); var o = {list: a, again: a}; o",
    "var a = []; for (var i = 0; i < 40; i++) a.push(i); [a, a]",
    "var a = new Array(20).fill ? new Array(20).fill(7) : [7]; a",
    "var a = 'x,'.repeat(30).split(','); a",
    "var a = [3, 1, 2].concat([4, 5, 6, 7, 8, 9, 10, 11, 12, 13, 14, 15, 16, 17, 18]); a",
    "var a = JSON.parse('[' + '1,'.repeat(30) + '1]'); a",
    "var a = Object.keys({a: 1, b: 2}); a",
]


def script_fresh_task(idxs):
    """A structure the script built: eval / get hand back equal, distinct copies; mutating a copy
    changes neither the script's structure nor a later copy."""
    import copy

    m = engine.load()
    out = []
    for i in idxs:
        src = SCRIPT_BUILDERS[i]
        ctx = m.Context(time_limit=10)
        bad = None
        st, r1 = guarded(lambda: ctx.eval(src))
        if st != "ok":
            out.append((i, src, None))  # the engine lacks a built-in the builder uses: nothing to judge
            continue
        snap = copy.deepcopy(r1)
        st2, r2 = guarded(lambda: ctx.get("a"))
        st3, r3 = guarded(lambda: ctx.eval("a"))
        before = guarded(lambda: ctx.eval("JSON.stringify(a)"))
        if st2 == "ok" and st3 == "ok" and isinstance(r2, (list, dict)) and (r2 is r3):
            bad = ("consecutive results share a container", "distinct objects", "same object")
        for g in (r1, r2 if st2 == "ok" else None, r3 if st3 == "ok" else None):
            _mutate(g)
        after = guarded(lambda: ctx.eval("JSON.stringify(a)"))
        st4, r4 = guarded(lambda: ctx.eval(src.rsplit(";", 1)[1] if ";" in src else src))
        if bad is None and before != after:
            bad = ("mutating a result changed the script's structure", show(before), show(after))
        if bad is None and st4 == "ok" and not teq(r4, snap):
            bad = ("a later result differs after an earlier one was mutated", show(snap)[:300], show(r4)[:300])
        out.append((i, src, bad))
    return out


def literal_task(values):
    m = engine.load()
    out = []
    if isinstance(values, tuple):
        values = [v for v in collect(values[0], values[1], "value") if not has_proto_key(v)]
    for v in values:
        src, exp = js_lit(v)
        ctx = m.Context(time_limit=10)
        r1 = guarded(lambda: ctx.eval(src))
        r2 = guarded(lambda: (ctx.eval("var w = %s;" % src), ctx.get("w"))[1])
        r3 = guarded(lambda: ctx.eval("var u = [undefined, %s, undefined]; u" % src))
        out.append((v, src, exp, r1, r2, r3))
        if isinstance(v, (list, dict)):
            # the same script object reachable twice (no cycle) converts like two equal values
            ssrc = "(function(){ var s = %s; return [s, {k: s}, s]; })()" % src
            r4 = guarded(lambda: ctx.eval(ssrc))
            out.append((v, ssrc, [exp, {"k": exp}, exp], r4, r4, guarded(lambda: ctx.eval("var u = [undefined, %s, undefined]; u" % ssrc))))
    return out


def callable_task(arglists):
    m = engine.load()
    out = []
    if isinstance(arglists, tuple):
        arglists = [[a for a in al if not has_proto_key(a)] for al in collect(arglists[0], arglists[1], "args")]
    for args in arglists:
        ctx = m.Context(time_limit=10)
        calls = []
        rets = []

        def h(*a):
            calls.append(a)
            return rets[len(calls) - 1] if len(calls) <= len(rets) else None

        lits = [js_lit(a) for a in args]
        # return values drawn from the documented set: primitives and None
        rets.extend([x for x in args if not isinstance(x, (list, dict))][:2] + [None])
        ctx.set("h", h)
        decl = " ".join("var a%d = %s;" % (i, l[0]) for i, l in enumerate(lits))
        call = "h(%s)" % ", ".join("a%d" % i for i in range(len(lits)))
        src = "%s var r1 = %s; var r2 = h(); [typeof r1, r1, typeof r2, r2, h.length === undefined || true]" % (decl, call)
        res = guarded(lambda: ctx.eval(src))
        conv = []
        for i, (a, l) in enumerate(zip(args, lits)):
            raw = calls[0][i] if calls and len(calls[0]) > i else "<missing>"
            if isinstance(a, (list, dict)):
                conv.append((type(raw).__name__, guarded(lambda i=i: ctx.get("a%d" % i))))
            else:
                conv.append(("prim", "<NULL>" if raw is m.NULL else ("<UNDEFINED>" if raw is m.UNDEFINED else raw)))
        out.append({"args": args, "lits": [l[1] for l in lits], "res": res, "ncalls": len(calls), "argc": [len(c) for c in calls], "conv": conv, "rets": list(rets)})
    return out


FALSY_RETURNS = [0, "", False, 0.0, None, 5, "x", True, -0.0, 2.5]
CALLBACK_FORMS = [
    ("map", "[10, 20, 30].map(h)", 3), ("forEach", "[10, 20].forEach(h)", 2), ("filter", "[10, 20, 30].filter(h)", 3),
    ("some", "[10, 20].some(h)", None), ("every", "[10, 20].every(h)", None), ("find", "[10, 20].find(h)", None),
    ("reduce", "[10, 20].reduce(h, 7)", 2), ("sort", "[3, 1, 2].sort(h).length", None),
    ("call", "h.call(null, 10)", 1), ("apply", "h.apply(null, [10, 20])", 1), ("bind", "h.bind(null, 10)(20)", 1),
    ("direct", "h(10)", 1), ("method", "({m: h}).m(10)", 1), ("nested", "[1].map(function(x){ return h(x); })", 1),
    ("argument", "(function(f){ return f(10); })(h)", 1), ("getter-result", "({get p(){ return h(10); }}).p", 1),
]


def callback_task(task):
    """Exposed callables invoked *by built-ins*: every return value must arrive unchanged."""
    m = engine.load()
    out = []
    for (form, expr, ncalls, start) in task:
        calls = []
        rets = FALSY_RETURNS[start:] + FALSY_RETURNS[:start]

        def h(*a):
            calls.append(len(a))
            return rets[(len(calls) - 1) % len(rets)]

        ctx = m.Context(time_limit=10)
        ctx.set("h", h)
        src = ("var enc = function(v){ return Array.isArray(v) ? v.map(function(e){ return [typeof e, e]; }) : [typeof v, v]; }; enc(%s)" % expr)
        res = guarded(lambda: ctx.eval(src))
        out.append((form, expr, start, res, list(calls), rets))
    return out


def expected_callback(form, rets, calls):
    """What the script must see, from the values the Python callable returned."""
    def tv_(v):
        t = {type(None): "undefined", bool: "boolean", int: "number", float: "number", str: "string"}[type(v)]
        return [t, v]
    truthy = lambda v: bool(v) and not (isinstance(v, float) and v != v)
    seq = [rets[i % len(rets)] for i in range(len(calls))]
    if form == "map":
        return [tv_(v) for v in seq]
    if form == "forEach":
        return ["undefined", None]
    if form == "filter":
        return [tv_(e) for e, v in zip([10, 20, 30], seq) if truthy(v)]
    if form in ("call", "apply", "bind", "direct", "method", "argument", "getter-result"):
        return tv_(seq[0])
    if form == "nested":
        return [tv_(seq[0])]
    if form == "reduce":
        return tv_(seq[-1])
    if form == "some":
        return ["boolean", any(truthy(v) for v in seq)]
    if form == "every":
        return ["boolean", all(truthy(v) for v in seq)]
    if form == "find":
        hit = [e for e, v in zip([10, 20], seq) if truthy(v)]
        return tv_(hit[0]) if hit else ["undefined", None]
    return None


REPEAT_FORMS = [
    # (expression, expected argument vectors of the calls of h in order)
    ("(function(){ var b = h.bind(null, 1); b(2); b(3); return b(); })()", [[1, 2], [1, 3], [1]]),
    ("(function(){ var b = h.bind(null); b(2, 3); b(); return b(4); })()", [[2, 3], [], [4]]),
    ("(function(){ var b = h.bind(null, 1, 2); var c = b.bind ? b : b; c(3); return c(4, 5); })()", [[1, 2, 3], [1, 2, 4, 5]]),
    ("(function(){ var a = [5, 6]; h.apply(null, a); h.apply(null, a); return a.length; })()", [[5, 6], [5, 6]]),
    ("(function(){ h.call(null, 1); h.call(null, 2, 3); return h.call(null); })()", [[1], [2, 3], []]),
    ("(function(){ var o = {m: h}; o.m(1); o.m(2); return o.m(); })()", [[1], [2], []]),
    ("(function(){ var a = [7]; h(a[0], a.length); a.push(8); return h(a[0], a.length); })()", [[7, 1], [7, 2]]),
    ("[1, 2].forEach(function(x){ h(x, x * 2); })", [[1, 2], [2, 4]]),
    ("(function(){ var fs = [h, h.bind(null, 9)]; fs[0](1); fs[1](2); return fs[0](3); })()", [[1], [9, 2], [3]]),
    ("(function(){ var b = h.bind(null, 'x'); [1, 2].forEach(function(v){ b(v); }); return 0; })()", [["x", 1], ["x", 2]]),
]


# README "Exposing Python Functions": structures are returned as JSObject / JSArray instances
OBJRET_FORMS = [
    ("var p = mk(10, 20); [typeof p, p.x + p.y, Object.keys(p).join(), JSON.stringify(p), 'x' in p, p.hasOwnProperty('x')]", ["object", 30, "x,y", '{"x":10,"y":20}', True, True]),
    ("var a = arr(1, 'b', null, true, 2.5); [Array.isArray(a), a.length, JSON.stringify(a), a.join('-'), a.indexOf('b'), a.slice(1).length]", [True, 5, '[1,"b",null,true,2.5]', "1-b--true-2.5", 1, 4]),
    ("same() === same()", True),
    ("var s = same(); s.z = 5; same().z", 5),
    ("mk(1, mk(2, 3)).y.x", 2),
    ("arr(arr(1), mk(1, 2))[1].y", 2),
    ("var a2 = arr(); a2.push(7); a2.push(8); [a2.length, a2[1]]", [2, 8]),
    ("var q = mk('s', null); [typeof q.x, q.y === null, q.zz === undefined]", ["string", True, True]),
    ("[1, 2].map(function(v){ return mk(v, v * 2); }).map(function(o){ return o.y; })", [2, 4]),
    ("var o3 = mk(0, -0); [1 / o3.y, o3.x === 0]", [-INF, True]),
    ("JSON.stringify({k: arr(mk(1, 2))})", '{"k":[{"x":1,"y":2}]}'),
    ("var t = mk(1, 2); delete t.x; [Object.keys(t).join(), t.x === undefined]", ["y", True]),
    ("var n = 0; for (var k in mk(1, 2)) n++; n", 2),
    ("pyseen(mk(4, 5))", "x=4,y=5"),
    ("var w = same(); w.fromjs = 'v'; pyseen(same())", None),
]


def objret_task(idxs):
    m = engine.load()
    from microjs import values

    out = []
    for i in idxs:
        expr, expect = OBJRET_FORMS[i]

        def mk(x, y):
            o = values.JSObject()
            o.set("x", x)
            o.set("y", y)
            return o

        def arr(*a):
            r = values.JSArray()
            for v in a:
                r.push(v)
            return r

        shared = mk(1, 2)

        def pyseen(o):
            # what the host finds in an object the script hands back
            return ",".join("%s=%s" % (k, o.get(k)) for k in sorted(o.keys()) if k in ("x", "y", "fromjs"))

        ctx = m.Context(time_limit=10)
        ctx.set("mk", mk)
        ctx.set("arr", arr)
        ctx.set("same", lambda: shared)
        ctx.set("pyseen", pyseen)
        r = guarded(lambda: ctx.eval(expr))
        if expect is None:
            expect = "fromjs=v,x=1,y=2"
        out.append((i, expr, expect, r))
    return out


def repeat_task(task):
    m = engine.load()
    out = []
    for expr, expect in task:
        calls = []

        def h(*a):
            calls.append([x if isinstance(x, (int, float, str, bool)) else "<obj>" for x in a])
            return len(calls)

        ctx = m.Context(time_limit=10)
        ctx.set("h", h)
        res = guarded(lambda: ctx.eval(expr))
        out.append((expr, expect, res, calls))
    return out


def interleave_task(seeds):
    """Stateful: set / get / eval(read) / eval(assign literal) / eval(mutate) on one context vs a dict model."""
    m = engine.load()
    out = []
    for seed in seeds:
        rnd = random.Random(seed)
        vals = collect(seed % (2 ** 31), 12, "value")
        ctx = m.Context(time_limit=10)
        model = {}
        trace = []
        bad = None
        for step in range(25):
            name = "g%d" % rnd.randint(0, 3)
            op = rnd.choice(["set", "get", "eval-read", "assign", "push", "prop", "delete-prop"])
            v = rnd.choice(vals) if vals else 1
            if has_proto_key(v):
                v = 0
            try:
                with pool.cpu_alarm(20):
                    if op == "set":
                        ctx.set(name, v)
                        model[name] = js_lit(v)[1] if False else _clone(v)
                        trace.append(("set", name, show(v)))
                    elif op == "assign":
                        src, exp = js_lit(v)
                        ctx.eval("var %s = %s;" % (name, src))
                        model[name] = exp
                        trace.append(("assign", name, src[:80]))
                    elif op == "push" and isinstance(model.get(name), list):
                        ctx.eval("%s.push(7);" % name)
                        model[name].append(7)
                        trace.append(("push", name))
                    elif op == "prop" and isinstance(model.get(name), dict):
                        ctx.eval("%s.zz = 'p';" % name)
                        model[name]["zz"] = "p"
                        trace.append(("prop", name))
                    elif op == "delete-prop" and isinstance(model.get(name), dict) and model[name]:
                        k = next(iter(model[name]))
                        ctx.eval("delete %s[%s];" % (name, P.js_string_literal(k, True)))
                        del model[name][k]
                        trace.append(("delete", name, k[:10]))
                    # observe every modelled global through both paths
                    for n2, exp in model.items():
                        got = ctx.get(n2)
                        got2 = ctx.eval(n2)
                        if not neq(got, exp) or not neq(got2, exp):
                            bad = {"trace": trace[-8:], "name": n2, "expected": show(exp), "get": show(got), "eval": show(got2)}
                            break
            except pool.HarnessTimeout:
                bad = {"trace": trace[-8:], "hang": True}
            except Exception as e:
                bad = {"trace": trace[-8:], "exception": engine.exc_info(e)}
            if bad:
                break
        out.append((seed, len(trace), bad))
    return out


def _clone(v):
    import copy

    return copy.deepcopy(v)


# ------------------------------------------- script-built objects with accessors
# "plain objects [convert] to dicts of own data properties": a script-built object mixing data
# properties, getters, setters (object-literal and Object.defineProperty), properties turned from
# data into accessor and back, with prototypes (Object.create / constructor) that hold data and
# accessor properties under the same names, nested inside arrays / objects.  The model below keeps,
# per object, which own keys are data (with their expected Python value) and which are accessors.
ACC_KEYS = ["a", "b", "g", "w", "x", "k", "len"]
ACC_PRIMS = [("null", None), ("undefined", None), ("true", True), ("false", False), ("0", 0), ("(-1)", -1), ("2.5", 2.5),
             ("'s'", "s"), ("''", ""), ("7", 7), ("'\u00e9'", "\u00e9"), ("1e21", 1e21)]
ACC_KINDS = ["data", "data", "data", "getter", "setter", "getset", "data2acc", "acc2data"]


def acc_payload(rnd, depth):
    """(kind, ...) tree of a data value: prim / array / object spec."""
    r = rnd.random()
    if depth >= 3 or r < 0.6:
        return ("prim", rnd.randrange(len(ACC_PRIMS)))
    if r < 0.8:
        return ("arr", [acc_payload(rnd, depth + 1) for _ in range(rnd.randint(0, 3))])
    return ("obj", acc_spec(rnd, depth + 1))


def acc_spec(rnd, depth=0, as_proto=False):
    base = rnd.choice(["lit", "lit", "create", "ctor", "ctor-this"])
    if as_proto and base.startswith("ctor"):
        base = "lit"
    keys = rnd.sample(ACC_KEYS, rnd.randint(0 if depth else 1, 5))
    props = []
    for k in keys:
        kind = rnd.choice(ACC_KINDS)
        where = rnd.choice(["lit", "assign", "define"])
        props.append({"key": k, "kind": kind, "where": where, "enum": rnd.random() < 0.7,
                      "value": ("prim", rnd.randrange(len(ACC_PRIMS))) if as_proto else acc_payload(rnd, depth),
                      "ret": rnd.randrange(len(ACC_PRIMS))})
    proto = None
    if base != "lit":
        proto = acc_spec(rnd, max(depth, 2), as_proto=True) if rnd.random() < 0.9 else None
    return {"base": base, "props": props, "proto": proto}


def _acc_lookup(model, key):
    """First holder of key on the prototype chain of a model object: 'data' / 'acc' (with a setter) /
    'getter-only' / None."""
    while model is not None:
        if key in model["own"]:
            e = model["own"][key]
            return e[0] if e[0] == "data" or e[1] else "getter-only"
        model = model["proto"]
    return None


def acc_render(spec):
    """(JavaScript expression building the object, model {'own': {key: ('data', py) | ('acc', has_setter)}, 'proto': model})."""
    base = spec["base"]
    pexpr, pmodel = acc_render(spec["proto"]) if spec["proto"] else (None, None)
    model = {"own": {}, "proto": pmodel}
    own = model["own"]
    lit, stmts, ctor = [], [], []
    getter = lambda p: "function () { return %s; }" % ACC_PRIMS[p["ret"]][0]

    def define_acc(p, k, target="o"):
        parts = {"getter": ["get: " + getter(p)], "setter": ["set: function (v) {}"]}.get(p["kind"], ["get: " + getter(p), "set: function (v) {}"])
        stmts.append("Object.defineProperty(%s, '%s', {%s, enumerable: %s, configurable: true});" % (target, k, ", ".join(parts), "true" if p["enum"] else "false"))
        own[k] = ("acc", p["kind"] != "getter")

    def put_data(p, k, where):
        vsrc, vpy = acc_value(p["value"])
        if where == "assign" and _acc_lookup(model, k) == "getter-only":
            where = "define"   # all code is strict (spec.md): assigning to a getter-only name throws; define instead
        if where == "lit":
            lit.append("%s: %s" % (k, vsrc))
            own[k] = ("data", vpy)
        elif where == "define":
            stmts.append("Object.defineProperty(o, '%s', {value: %s, writable: true, enumerable: true, configurable: true});" % (k, vsrc))
            own[k] = ("data", vpy)
        else:
            # o.k = v: an accessor of that name anywhere on the chain takes the assignment (its setter runs, or
            # nothing happens without one): no own property appears
            (ctor if base == "ctor-this" else stmts).append("%s.%s = %s;" % ("this" if base == "ctor-this" else "o", k, vsrc))
            if _acc_lookup(model, k) != "acc":
                own[k] = ("data", vpy)

    for p in spec["props"]:
        k, kind, where = p["key"], p["kind"], p["where"]
        if base != "lit" and where == "lit":
            where = "assign" if kind in ("data", "data2acc") else "define"
        if kind == "data":
            put_data(p, k, where)
        elif kind in ("getter", "setter", "getset", "acc2data"):
            if where == "lit":
                if kind in ("getter", "getset", "acc2data"):
                    lit.append("get %s() { return %s; }" % (k, ACC_PRIMS[p["ret"]][0]))
                if kind in ("setter", "getset"):
                    lit.append("set %s(v) {}" % k)
                own[k] = ("acc", kind in ("setter", "getset"))
            else:
                define_acc(p, k)
            if kind == "acc2data":
                put_data(p, k, "define")
        elif kind == "data2acc":
            put_data(p, k, where)
            define_acc(dict(p, kind=("getter", "setter", "getset")[p["ret"] % 3]), k)
    if base == "lit":
        head = "var o = {%s};" % ", ".join(lit)
    elif base == "create":
        head = "var o = Object.create(%s);" % (pexpr or "Object.prototype")
    else:
        head = "function F() { %s } %s var o = new F();" % (" ".join(ctor), ("F.prototype = %s;" % pexpr) if pexpr else "")
    return "(function () { %s %s return o; })()" % (head, " ".join(stmts)), model


def acc_value(payload):
    if payload[0] == "prim":
        return ACC_PRIMS[payload[1]]
    if payload[0] == "arr":
        parts = [acc_value(x) for x in payload[1]]
        return "[" + ", ".join(p[0] for p in parts) + "]", [p[1] for p in parts]
    src, model = acc_render(payload[1])
    return src, acc_expected(model)


def acc_expected(model):
    return {k: v[1] for k, v in model["own"].items() if v[0] == "data"}


def acc_features(spec, acc=None):
    acc = set() if acc is None else acc
    for p in spec["props"]:
        acc.add(p["kind"] + ("" if p["kind"] == "data" else "/" + ("literal" if p["where"] == "lit" and spec["base"] == "lit" else "defineProperty")))
        if p["value"][0] == "obj":
            acc.add("nested")
            acc_features(p["value"][1], acc)
    if spec["proto"]:
        names = {p["key"] for p in spec["props"]} & {p["key"] for p in spec["proto"]["props"]}
        acc.add("inherited/" + spec["base"] + ("/same-name" if names else ""))
    return acc


ACC_DIRECTED = [
    # (script, expected) - fixed shapes next to the generated ones
    ("var r = {a: 1, get g() { return 7; }, z: 2}; r", {"a": 1, "z": 2}),
    ("var r = {set w(v) {}}; r", {}),
    ("var r = {get g() { return 1; }, set g(v) {}}; r", {}),
    ("var r = Object.create({inherited: 1}); r.own = 2; r", {"own": 2}),
    ("var r = Object.create({g: 'inherited'}); r.k = 1; Object.defineProperty(r, 'g', {get: function () { return 0; }}); r", {"k": 1}),
    ("var r = Object.create({get g() { return 5; }}); r.k = 1; r", {"k": 1}),
    ("var r = [{m: {x: 1, y: 2}}]; Object.defineProperty(r[0].m, 'x', {get: function () { return 5; }}); r", [{"m": {"y": 2}}]),
    ("var r = {get x() { return 1; }, y: 2}; Object.defineProperty(r, 'x', {value: 3, writable: true, enumerable: true, configurable: true}); r", {"x": 3, "y": 2}),
    ("function F() { this.own = [1]; } F.prototype.shared = 1; Object.defineProperty(F.prototype, 'acc', {get: function () { return 2; }}); var r = new F(); r", {"own": [1]}),
    ("function G() {} G.prototype = {get own() { return 1; }, set own(v) {}}; var r = new G(); r.own = 5; r.other = null; r", {"other": None}),
    ("var r = {list: [{get a() { return 1; }, b: undefined}, [{set c(v) {}}]]}; r", {"list": [{"b": None}, [{}]]}),
    ("var r = {}; Object.defineProperty(r, 'g', {get: function () { return r; }, enumerable: true}); r", {}),
]


def ueq(a, b):
    """Equality of script results without key order (the accessor family makes no statement about it)."""
    if isinstance(a, dict) and isinstance(b, dict):
        return set(a) == set(b) and all(ueq(a[k], b[k]) for k in a)
    if isinstance(a, list) and isinstance(b, list):
        return len(a) == len(b) and all(ueq(x, y) for x, y in zip(a, b))
    return not isinstance(a, (list, dict)) and not isinstance(b, (list, dict)) and neq(a, b)


def acc_case(seed):
    """Script and expected Python value of generated case `seed` (negative: directed case -seed-1)."""
    if seed < 0:
        src, exp = ACC_DIRECTED[-seed - 1]
        return src, exp, {"directed"}
    rnd = random.Random(seed)
    spec = acc_spec(rnd)
    src, model = acc_render(spec)
    exp = acc_expected(model)
    feats = acc_features(spec)
    wrap = rnd.choice(["top", "top", "array", "object"])
    if wrap == "array":
        src, exp = "[%s, 1]" % src, [exp, 1]
    elif wrap == "object":
        s2, m2 = acc_render(acc_spec(rnd, 1))
        src, exp = "{m: %s, n: [%s]}" % (src, s2), {"m": exp, "n": [acc_expected(m2)]}
    feats.add("wrap/" + wrap)
    return "var r = %s; r" % src, exp, feats


def _acc_diff(exp, got):
    """Coarse kind of difference for the signature."""
    if isinstance(exp, dict) and isinstance(got, dict):
        if set(got) - set(exp):
            return "extra-key"
        if set(exp) - set(got):
            return "missing-key"
        for k in exp:
            if not ueq(exp[k], got[k]):
                return _acc_diff(exp[k], got[k])
    if isinstance(exp, list) and isinstance(got, list) and len(exp) == len(got):
        for x, y in zip(exp, got):
            if not ueq(x, y):
                return _acc_diff(x, y)
    return "value"


def accessor_task(seeds):
    m = engine.load()
    out = []
    for seed in seeds:
        src, exp, feats = acc_case(seed)
        ctx = m.Context(time_limit=10)
        bad = None
        for path, fn in (("eval", lambda: ctx.eval(src)), ("get", lambda: ctx.get("r")), ("eval-name", lambda: ctx.eval("[r][0]"))):
            st, got = guarded(fn)
            if st != "ok":
                bad = (path + "-raises", show(exp), got if st == "exc" else st)
            elif not ueq(got, exp):
                bad = ("%s-differs|%s" % (path, _acc_diff(exp, got)), show(exp), show(got))
            if bad:
                break
        out.append((seed, src, sorted(feats), bad))
    return out


# ----------------------------------------- interleavings with refused set() steps
def _containers(v, acc):
    if isinstance(v, (list, dict)):
        acc.append(v)
        for y in (v if isinstance(v, list) else v.values()):
            _containers(y, acc)
    return acc


def _try_set(ctx, name, value):
    """set() of a value outside the documented domain: refusal of any kind (or acceptance) is fine."""
    import gc

    on = gc.isenabled()
    gc.disable()   # a collection at the bottom of the host stack only makes Hypothesis' gc hook print noise
    try:
        ctx.set(name, value)
        return True
    except pool.HarnessTimeout:
        raise
    except (Exception, RecursionError):
        return False
    finally:
        if on:
            gc.enable()


def refused_task(seeds):
    """One context; between ordinary set / get / eval steps, set() calls with values outside the documented
    domain (a container that contains itself, a value nested thousands of levels deep).  Whatever those calls do
    (any exception, or acceptance) is not judged; the ordinary steps before and after - which reuse the very
    container objects that were part of the refused value, and fresh ones - are judged against the dict model."""
    m = engine.load()
    out = []
    for seed in seeds:
        rnd = random.Random(seed)
        vals = [v for v in collect(seed % (2 ** 31), 12, "value") if not has_proto_key(v)]
        vals += [[1, [2, {"k": [3]}]], {"n": 1, "items": [1, 2.5, "s"], "o": {"p": []}}]
        ctx = m.Context(time_limit=10)
        model = {}
        trace = []
        bad = None
        nrefused = 0
        pending = []   # ordinary values made of containers that took part in a refused set()
        for step in range(16):
            name = "g%d" % rnd.randint(0, 3)
            op = "set" if pending else rnd.choice(["set", "set", "assign", "push", "cyclic", "cyclic", "deep"])
            try:
                with pool.cpu_alarm(30):
                    if op == "cyclic":
                        top = rnd.choice([v for v in vals if isinstance(v, (list, dict))] or [[0]])
                        conts = _containers(top, [])
                        c = rnd.choice(conts)
                        back = rnd.choice([c, top])   # top is c itself or one of its ancestors: a cycle either way
                        key = None
                        if isinstance(c, list):
                            c.append(back if rnd.random() < 0.5 else [back])
                        else:
                            key = "self%d" % step
                            c[key] = back if rnd.random() < 0.5 else {"in": [back]}
                        try:
                            _try_set(ctx, name, top)
                        finally:
                            if key is None:
                                c.pop()
                            else:
                                del c[key]
                        model.pop(name, None)   # what a refused set() leaves under the name is not stated
                        nrefused += 1
                        trace.append(("set-cyclic", name, show(top)))
                        pending = [top, [c, {"again": c}], _clone(top)]
                    elif op == "deep":
                        depth = rnd.choice([1100, 1500, 3000, 6000])
                        levels = [[rnd.choice(vals)] if rnd.random() < 0.5 else {"leaf": 1}]
                        for i in range(depth):
                            levels.append([levels[-1], "x"] if rnd.random() < 0.7 else {"d": levels[-1], "i": i})
                        levels.reverse()
                        _try_set(ctx, name, levels[0])
                        model.pop(name, None)
                        nrefused += 1
                        trace.append(("set-deep", name, depth))
                        # cut the chain: what is left is an ordinary value a few levels deep
                        cut = rnd.randint(3, 30)
                        tail = levels[cut]
                        if isinstance(tail, list):
                            del tail[:]
                        else:
                            tail.clear()
                        j = rnd.randint(0, cut - 1)
                        pending = [levels[0], {"v": levels[j], "w": [levels[rnd.randint(0, cut)]]}]
                        # iterative release of the rest of the chain (a recursive dealloc of 6000 levels is fine in
                        # CPython, but keep the worker's stack out of the picture)
                        levels = None
                    elif op == "set":
                        v = pending.pop(0) if pending else rnd.choice(vals)
                        ctx.set(name, v)
                        model[name] = _clone(v)
                        trace.append(("set", name, show(v)))
                    elif op == "assign":
                        src, exp = js_lit(rnd.choice(vals))
                        ctx.eval("var %s = %s;" % (name, src))
                        model[name] = exp
                        trace.append(("assign", name, src[:80]))
                    elif op == "push" and isinstance(model.get(name), list):
                        ctx.eval("%s.push(7);" % name)
                        model[name].append(7)
                        trace.append(("push", name))
                    for n2, exp in model.items():
                        got = ctx.get(n2)
                        got2 = ctx.eval(n2)
                        if not neq(got, exp) or not neq(got2, exp):
                            bad = {"trace": trace[-6:], "name": n2, "expected": show(exp), "get": show(got), "eval": show(got2)}
                            break
            except pool.HarnessTimeout:
                bad = {"trace": trace[-6:], "hang": True}
            except Exception as e:
                bad = {"trace": trace[-6:], "exception": engine.exc_info(e), "op": op}
            if bad:
                bad["after_refused"] = nrefused
                break
        out.append((seed, len(trace), nrefused, bad))
    return out


# ------------------------------------------------------------------- the check
def shrink_value(v, fails):
    """Smallest failing sub-value (greedy descent into children)."""
    cur = v
    changed = True
    while changed:
        changed = False
        kids = cur if isinstance(cur, list) else list(cur.values()) if isinstance(cur, dict) else []
        for k in kids:
            if fails(k):
                cur = k
                changed = True
                break
    return cur


def rt_fails(v):
    r = roundtrip_task([v])[1][0]
    return bool(judge_rt(None, v, r))


def judge_rt(chk, v, r):
    """Returns list of (clause, expected, actual)."""
    bad = []
    if "set" in r:
        st, info = r["set"]
        bad.append(("set-raises", "accepted", info if st == "exc" else st))
        return bad
    orig = r["orig"]
    for path in ("get", "eval"):
        st, got = r[path]
        if st != "ok":
            bad.append((path + "-raises", show(orig), got if st == "exc" else st))
        elif not teq(got, orig):
            bad.append((path + "-differs", show(orig), show(got)))
    st, got = r.get("skeleton", ("ok", skeleton(orig)))
    if st != "ok":
        bad.append(("script-view-raises", "typeof skeleton", got if st == "exc" else st))
    elif got != skeleton(orig):
        bad.append(("script-view-differs", str(skeleton(orig))[:200], str(got)[:200]))
    if not r["distinct"]:
        bad.append(("consecutive-gets-share-container", "distinct objects", "same object"))
    st, got = r["after_mutation"]
    if st == "ok" and not teq(got, orig):
        bad.append(("mutation-shows-through", show(orig), show(got)))
    return bad


def diffkind(a, b):
    def kinds(x, acc):
        acc.add(type(x).__name__)
        if isinstance(x, list):
            for y in x:
                kinds(y, acc)
        if isinstance(x, dict):
            for y in x.values():
                kinds(y, acc)
        return acc
    return "+".join(sorted(kinds(a, set()) ^ kinds(b, set()))) or "value"


def main(chk):
    chk.rule = (
        "Hypothesis JSON-like values (boundary ints/floats, strings incl. control/non-BMP, awkward keys, nesting <= 25 leaves) through "
        "set/get, set/eval, literal->eval, exposed callables and random set/eval/get interleavings; non-trivial = value with a container "
        "and >= 2 primitive types, or a boundary primitive (NaN, -0, infinities, |int| > 2^53, non-BMP text); distinct by value"
    )
    chk.assumptions = ["values stay inside the documented domain: JSON-like Python values with str keys; host callables return primitives or None",
                       "dicts with a '__proto__' key are excluded from the literal campaign (an object literal gives that key prototype meaning)"]
    for path, rec in core.saved_replays("C11"):
        r = replay(rec)
        chk.count()
        if r["fails"]:
            chk.violation("saved-replay|" + path, rec.get("case"), r["expected"], r["actual"], sub="replay")
    quick = chk.tier == "quick"
    n = 12000 if quick else 300000
    parts = 48 if quick else 640
    # 1 + 3: round trips and freshness (values are generated inside the workers)
    tasks = [(core.shard_seed(chk.seed, "C11", "values", i) % (2 ** 63), n // parts) for i in range(parts)]
    res = pool.run(roundtrip_task, tasks, timeout=900)
    for rb in res:
        if isinstance(rb, (pool.HANG, pool.CRASH)):
            chk.violation("roundtrip|%r" % rb, {"sub": "roundtrip"}, None, repr(rb), sub="roundtrip")
            continue
        for r in rb[1]:
            v = r.get("orig")
            chk.count()
            key = core.h16(show(v))
            if nontrivial(v):
                chk.nontrivial("rt" + key)
            bad = judge_rt(chk, v, r)
            for clause, exp, act in bad[:1]:
                small = shrink_value(v, rt_fails) if clause.endswith("differs") else v
                chk.violation("roundtrip|%s|%s" % (clause, diffkind(r.get("orig"), r.get("get", (0, None))[1]) if clause.endswith("differs") else ""),
                              {"sub": "roundtrip", "value": show(small), "pyrepr": repr(small)[:300]}, exp, act, sub="roundtrip")
            if not bad:
                chk.sample({"sub": "roundtrip", "value": show(v)}, cls="rt%d" % (len(repr(v)) // 40), per_class=1, total=10)
    # 1b: bulk containers (long flat lists / wide dicts of plain values, alone and nested) through the same clauses,
    #     and structures built by the script itself: what eval/get hand back is never the context's own storage
    res = pool.run(roundtrip_task, pool.chunks(bulk_values(), 8), timeout=900) + [None]
    for rb in res[:-1]:
        if isinstance(rb, (pool.HANG, pool.CRASH)):
            chk.violation("roundtrip|%r" % rb, {"sub": "roundtrip"}, None, repr(rb), sub="roundtrip")
            continue
        for r in rb[1]:
            v = r.get("orig")
            chk.count()
            chk.nontrivial("bulk" + core.h16(show(v)))
            chk.classify("bulk container")
            for clause, exp, act in judge_rt(chk, v, r)[:1]:
                chk.violation("roundtrip|%s|bulk" % clause, {"sub": "roundtrip", "value": str(show(v))[:300], "pyrepr": repr(v) if len(repr(v)) <= 300 else None},
                              exp if len(str(exp)) < 400 else str(exp)[:400], act if len(str(act)) < 400 else str(act)[:400], sub="roundtrip")
    for rb in pool.run(script_fresh_task, [list(range(len(SCRIPT_BUILDERS)))], timeout=600):
        if isinstance(rb, (pool.HANG, pool.CRASH)):
            chk.violation("script-fresh|%r" % rb, {"sub": "script-fresh"}, None, repr(rb), sub="script-fresh")
            continue
        for i, src, bad in rb:
            chk.count()
            chk.nontrivial("sf|" + src)
            if bad:
                chk.violation("script-fresh|%s" % bad[0], {"sub": "script-fresh", "i": i, "src": src}, bad[1], bad[2], sub="script-fresh")
    # 2: literals
    tasks = [(core.shard_seed(chk.seed, "C11", "lits", i) % (2 ** 63), (n // 2) // parts) for i in range(parts)]
    res = pool.run(literal_task, tasks, timeout=900)
    for rb in res:
        if isinstance(rb, (pool.HANG, pool.CRASH)):
            chk.violation("literal|%r" % rb, {"sub": "literal"}, None, repr(rb), sub="literal")
            continue
        for (v, src, exp, r1, r2, r3) in rb:
            chk.count()
            if nontrivial(v):
                chk.nontrivial("lit" + core.h16(src))
            for tag, r, e in (("eval", r1, exp), ("var-get", r2, exp), ("in-array-with-undefined", r3, [None, exp, None])):
                st, got = r
                if st != "ok":
                    chk.violation("literal|%s-raises|%s" % (tag, got.get("cls") if isinstance(got, dict) else st), {"sub": "literal", "src": src[:300]}, show(e), got, sub="literal")
                    break
                if not neq(got, e):
                    chk.violation("literal|%s-differs|%s" % (tag, diffkind(got, e)), {"sub": "literal", "src": src[:300]}, show(e), show(got), sub="literal")
                    break
            else:
                chk.sample({"sub": "literal", "src": src[:100], "result": show(r1[1])}, cls="lit", per_class=3)
    # 4: callables
    tasks = [(core.shard_seed(chk.seed, "C11", "args", i) % (2 ** 63), (2000 if quick else 40000) // parts) for i in range(parts)]
    res = pool.run(callable_task, tasks, timeout=900)
    for rb in res:
        if isinstance(rb, (pool.HANG, pool.CRASH)):
            chk.violation("callable|%r" % rb, {"sub": "callable"}, None, repr(rb), sub="callable")
            continue
        for r in rb:
            args = r["args"]
            chk.count()
            if len(args) >= 2:
                chk.nontrivial("call" + core.h16(show(args)))
            case = {"sub": "callable", "args": show(args)}
            st, got = r["res"]
            if st != "ok":
                chk.violation("callable|raises|%s" % (got.get("cls") if isinstance(got, dict) else st), case, "call succeeds", got, sub="callable")
                continue
            if r["ncalls"] != 2 or r["argc"] != [len(args), 0]:
                chk.violation("callable|call-count-or-arity", case, [2, [len(args), 0]], [r["ncalls"], r["argc"]], sub="callable")
                continue
            ok = True
            for a, lit, (kind, raw) in zip(args, r["lits"], r["conv"]):
                if kind == "prim":
                    exp = lit
                    if exp is None:
                        good = raw == "<NULL>"
                    else:
                        good = neq(raw, exp)
                    if not good:
                        chk.violation("callable|argument-differs|%s" % type(a).__name__, case, show(lit), show(raw), sub="callable")
                        ok = False
                        break
                else:
                    want = "JSArray" if isinstance(a, list) else "JSObject"
                    st2, conv = raw
                    if kind != want or st2 != "ok" or not neq(conv, lit):
                        chk.violation("callable|container-argument|%s" % want, case, [want, show(lit)], [kind, show(conv) if st2 == "ok" else conv], sub="callable")
                        ok = False
                        break
            if not ok:
                continue
            # return values as the script saw them
            t1, r1, t2, r2 = got[0], got[1], got[2], got[3]
            ret1 = r["rets"][0]
            exp_t = {type(None): "undefined", bool: "boolean", int: "number", float: "number", str: "string"}[type(ret1)]
            if t1 != exp_t or not neq(r1, ret1 if not (isinstance(ret1, int) and not isinstance(ret1, bool) and abs(ret1) > 2 ** 53) else r1):
                chk.violation("callable|return-value|%s" % type(ret1).__name__, case, [exp_t, show(ret1)], [t1, show(r1)], sub="callable")
            else:
                chk.sample({"sub": "callable", "args": show(args)[:3], "returned": show(ret1)}, cls="call", per_class=3)
    # 4b: callables run by built-ins, falsy and other return values
    cb_tasks = [(form, expr, n_, start) for (form, expr, n_) in CALLBACK_FORMS for start in range(len(FALSY_RETURNS))]
    res = pool.run(callback_task, pool.chunks(cb_tasks, 10), timeout=600)
    for rb in res:
        if isinstance(rb, (pool.HANG, pool.CRASH)):
            chk.violation("callback|%r" % rb, {"sub": "callback"}, None, repr(rb), sub="callback")
            continue
        for form, expr, start, r, calls, rets in rb:
            chk.count()
            chk.nontrivial("cb|%s|%d" % (form, start))
            case = {"sub": "callback", "form": form, "expr": expr, "returns": [show(x) for x in rets[:4]]}
            st, got = r
            if st != "ok":
                chk.violation("callback|raises|%s" % form, case, "value", got, sub="callback")
                continue
            exp = expected_callback(form, rets, calls)
            if exp is not None and not neq(got, exp):
                chk.violation("callback|return-value-changed|%s" % form, case, show(exp), show(got), sub="callback")
            elif start == 0:
                chk.sample({"sub": "callback", "expr": expr, "script_saw": show(got)}, cls="cb", per_class=4)
    # 4c: the same callable reached repeatedly (bind/call/apply/method): exact argument vectors, call by call
    res = pool.run(repeat_task, pool.chunks(REPEAT_FORMS, 3), timeout=300)
    for rb in res:
        if isinstance(rb, (pool.HANG, pool.CRASH)):
            chk.violation("repeat|%r" % rb, {"sub": "repeat"}, None, repr(rb), sub="repeat")
            continue
        for expr, expect, r, calls in rb:
            chk.count()
            chk.nontrivial("rep|" + expr)
            st, got = r
            if st != "ok":
                chk.violation("repeat|raises", {"sub": "repeat", "expr": expr}, "runs", got, sub="repeat")
            elif not neq(calls, expect):
                chk.violation("repeat|argument-vectors", {"sub": "repeat", "expr": expr}, expect, calls, sub="repeat")
    # 4d: the documented way to return structures: JSObject / JSArray instances built by the host
    res = pool.run(objret_task, [list(range(len(OBJRET_FORMS)))], timeout=300)
    for rb in res:
        if isinstance(rb, (pool.HANG, pool.CRASH)):
            chk.violation("objret|%r" % rb, {"sub": "objret"}, None, repr(rb), sub="objret")
            continue
        for i, expr, expect, r in rb:
            chk.count()
            chk.nontrivial("objret|" + expr)
            st, got = r
            if st != "ok":
                chk.violation("objret|raises", {"sub": "objret", "i": i, "expr": expr}, show(expect), got, sub="objret")
            elif not neq(got, expect):
                chk.violation("objret|value", {"sub": "objret", "i": i, "expr": expr}, show(expect), show(got), sub="objret")
            elif i < 3:
                chk.sample({"sub": "objret", "expr": expr, "script_saw": show(got)}, cls="objret", per_class=3)
    # 5: interleavings
    seeds = [core.shard_seed(chk.seed, "C11", "inter", i) % (2 ** 31) for i in range(300 if quick else 6000)]
    batches = pool.chunks(seeds, 20)
    res = pool.run(interleave_task, batches, timeout=900)
    for b, rb in zip(batches, res):
        if isinstance(rb, (pool.HANG, pool.CRASH)):
            chk.violation("interleave|%r" % rb, {"sub": "interleave"}, None, repr(rb), sub="interleave")
            continue
        for seed, steps, bad in rb:
            chk.count()
            if steps >= 5:
                chk.nontrivial("il%d" % seed)
            if bad:
                kind = "exception:" + bad["exception"]["cls"] if "exception" in bad else "hang" if "hang" in bad else "differs"
                chk.violation("interleave|%s" % kind, {"sub": "interleave", "seed": seed, **{k: v for k, v in bad.items() if k == "trace"}},
                              bad.get("expected"), {k: v for k, v in bad.items() if k not in ("trace", "expected")}, sub="interleave")
    # 2b: script-built objects with accessor properties, own and inherited (directed + generated)
    nacc = 1500 if quick else 30000
    seeds = [-(i + 1) for i in range(len(ACC_DIRECTED))] + [core.shard_seed(chk.seed, "C11", "accessor", i) % (2 ** 31) for i in range(nacc)]
    res = pool.run(accessor_task, pool.chunks(seeds, 64), timeout=900)
    for rb in res:
        if isinstance(rb, (pool.HANG, pool.CRASH)):
            chk.violation("accessor|%r" % rb, {"sub": "accessor"}, None, repr(rb), sub="accessor")
            continue
        for seed, src, feats, bad in rb:
            chk.count()
            if any(f.split("/")[0] in ("getter", "setter", "getset", "data2acc", "acc2data", "directed") for f in feats):
                chk.nontrivial("acc|" + core.h16(src))
            for f in feats:
                if not f.startswith("wrap/"):
                    chk.classify("accessor family: " + f)
            if bad:
                chk.violation("accessor|%s" % bad[0], {"sub": "accessor", "seed": seed, "src": src[:600]}, bad[1], bad[2], sub="accessor")
            else:
                chk.sample({"sub": "accessor", "src": src[:200]}, cls="acc", per_class=2)
    # 5b: interleavings with refused set() steps in between (only the ordinary steps are judged)
    seeds = [core.shard_seed(chk.seed, "C11", "refused", i) % (2 ** 31) for i in range(160 if quick else 3000)]
    batches = pool.chunks(seeds, 10)
    res = pool.run(refused_task, batches, timeout=900)
    for b, rb in zip(batches, res):
        if isinstance(rb, (pool.HANG, pool.CRASH)):
            chk.violation("refused|%r" % rb, {"sub": "refused"}, None, repr(rb), sub="refused")
            continue
        for seed, steps, nref, bad in rb:
            chk.count()
            if nref >= 1 and steps >= 4:
                chk.nontrivial("rf%d" % seed)
            chk.classify("history with %s refused set()" % ("no" if nref == 0 else "1" if nref == 1 else "2+"))
            if bad:
                kind = "exception:" + bad["exception"]["cls"] if "exception" in bad else "hang" if "hang" in bad else "differs"
                chk.violation("refused|%s|%s" % (kind, "after-refused-set" if bad.get("after_refused") else "before-any-refusal"),
                              {"sub": "refused", "seed": seed, "trace": bad.get("trace")},
                              bad.get("expected"), {k: v for k, v in bad.items() if k not in ("trace", "expected")}, sub="refused")
    chk.exhaustive = False


def replay(rec):
    case = rec["case"]
    if case.get("sub") == "roundtrip" and isinstance(case.get("pyrepr"), str):
        v = eval(case["pyrepr"], {"nan": math.nan, "inf": INF})  # values written by this check only
        bad = judge_rt(None, v, roundtrip_task([v])[1][0])
        return {"fails": bool(bad), "expected": bad[0][1] if bad else None, "actual": bad[0][2] if bad else "ok"}
    if case.get("sub") == "literal":
        m = engine.load()
        st, got = guarded(lambda: m.Context(time_limit=10).eval(case["src"]))
        exp = rec.get("expected_py")
        return {"fails": st != "ok", "expected": rec.get("expected"), "actual": show(got) if st == "ok" else got}
    if case.get("sub") == "script-fresh":
        (i, src, bad), = script_fresh_task([case["i"]])
        return {"fails": bool(bad), "expected": bad[1] if bad else None, "actual": bad[2] if bad else "fresh"}
    if case.get("sub") == "objret":
        (i, expr, expect, r), = objret_task([case["i"]])
        return {"fails": r[0] != "ok" or not neq(r[1], expect), "expected": show(expect), "actual": show(r[1]) if r[0] == "ok" else r[1]}
    if case.get("sub") == "interleave":
        (seed, steps, bad), = interleave_task([case["seed"]])
        return {"fails": bool(bad), "expected": None, "actual": bad}
    if case.get("sub") == "accessor":
        (seed, src, feats, bad), = accessor_task([case["seed"]])
        return {"fails": bool(bad), "expected": bad[1] if bad else None, "actual": bad[2] if bad else "ok"}
    if case.get("sub") == "refused":
        (seed, steps, nref, bad), = refused_task([case["seed"]])
        return {"fails": bool(bad), "expected": None, "actual": bad}
    return {"fails": False, "expected": None, "actual": "not replayable"}
