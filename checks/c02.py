"""C02 - memory limit stops runaway stack growth, and never stops bounded scripts.

(a) Unbounded growth: recursion shapes (self, mutual, through every discovered
    callback-taking built-in, accessors, conversions, call/apply/bind, new,
    pending operands) x memory limits.  Oracle: MemoryLimitError exactly (never
    RecursionError / a crash / a value), depth reached bounded by M/200 + slack
    for script recursion, CPU bounded.
(b) Bounded scripts: generated terminating bodies B rich in abrupt exits
    (break/continue/labelled/return/throw out of for-in/for-of/switch/try).
    Metamorphic oracle: with M0 = the smallest power-of-two limit under which B
    runs once, `for (N times) B` must run under 4*M0 with exactly N times the
    single-run log, and a sentinel thrown after the loop must surface uncaught.
(a2) Call-free growth: pending operands that pile up without any function being
    entered (nested / long array and object literals, long argument lists of
    built-ins, right-nested operators) of 4x / 40x the operand budget M/100, at
    program level and inside one function / callback / accessor activation.
    Oracle: MemoryLimitError (or the engine's documented refusal to compile the
    text: "Program too large" / "too deeply nested"), never a value or a host
    exception; front-nested literals [[[1],1],1] hold one operand and must complete.
(b2) Bounded try/catch/finally shapes: the handler statements of gens/c07gen.py
    (shapes_product / shapes2_product / shapes3_product: every catch / finally /
    try-block exit x nesting x placement of the throw) repeated N times inside ONE
    function activation (the labelled loop around the statement) or, when the shape
    leaves the loop at once, by N calls of the handler function (rep), under a
    memory limit M with 100*N > M.  Oracle: outcome and log equal those of the run
    without memory limit; MemoryLimitError only if the two-iteration program
    does not fit into M either (then M is doubled).
"""
import random
import time

from vf import core, engine, pool
from checks import c01, proglib
from gens import c07gen

# ------------------------------------------------------------------ (a) growth
RECURSION = {
    "self": "var depth = 0; var f = function(){ depth++; return f() + 1; }; f();",
    "self-declared": "var depth = 0; function f(){ depth++; return 1 + f(); }; f();",
    "mutual": "var depth = 0; var a = function(){ depth++; return b(); }; var b = function(){ depth++; return a() + 1; }; a();",
    "three-cycle": "var depth = 0; var p = function(){ depth++; return q(); }; var q = function(){ return r(); }; var r = function(){ return p(); }; p();",
    "pending-operands": "var depth = 0; var f = function(){ depth++; return [1, 2, 3, {a: 4}, f()]; }; f();",
    "argument-chain": "var depth = 0; var id = function(x){ return x; }; var f = function(){ depth++; return id(id(id(f()))); }; f();",
    "constructor": "var depth = 0; var C = function(){ depth++; this.c = new C(); }; new C();",
    "method": "var depth = 0; var o = { m: function(){ depth++; return this.m(); } }; o.m();",
    "getter": "var depth = 0; var o = { get p(){ depth++; return this.p; } }; o.p;",
    "setter": "var depth = 0; var o = { set p(v){ depth++; this.p = v; } }; o.p = 1;",
    "valueOf": "var depth = 0; var v = { valueOf: function(){ depth++; return v + 1; } }; v + 1;",
    "toString": "var depth = 0; var v = { toString: function(){ depth++; return '' + v; } }; '' + v;",
    "call": "var depth = 0; var f = function(){ depth++; return f.call(null); }; f();",
    "apply": "var depth = 0; var f = function(){ depth++; return f.apply(null, []); }; f();",
    "bind": "var depth = 0; var f = function(){ depth++; return f.bind(null)(); }; f();",
    "arrow": "var depth = 0; var f = () => { depth++; return f(); }; f();",
    "closure-chain": "var depth = 0; var mk = function(n){ depth++; return function(){ return mk(n + 1)(); }; }; mk(0)();",
    "try-finally": "var depth = 0; var f = function(){ depth++; try { return f(); } finally { depth = depth + 0; } }; f();",
    "catch-and-recurse": "var depth = 0; var f = function(){ depth++; try { throw 1; } catch (e) { return f(); } }; f();",
    "eval": "var depth = 0; var f = function(){ depth++; return eval('f()'); }; f();",
    # the whole recursion lives in code that a nested interpreter runs
    "in-eval": "var depth = 0; var run = function(){ return eval('var f = function(){ depth++; return f(); }; f()'); }; run();",
    "in-Function": "var depth = 0; var run = function(){ return new Function('var g = function(){ depth++; return g(); }; return g()')(); }; run();",
    "in-nested-eval": "var depth = 0; var run = function(){ return eval(\"eval('var h = function(){ depth++; return h() + 1; }; h()')\"); }; run();",
    "in-eval-callback": "var depth = 0; var run = function(){ return eval('var k = function(){ depth++; [1].forEach(function(){ k(); }); }; k()'); }; run();",
}


def recursion_cases(chk):
    cbs = [n for n in c01.discover_callbacks()]
    chk.extra["callback_builtins_discovered"] = cbs
    shapes = dict(RECURSION)
    for n in cbs:
        if n in ("sort", "toSorted"):
            shapes["cb:" + n] = "var depth = 0; var f = function(){ depth++; [2, 1].%s(function(a, b){ f(); return 0; }); }; f();" % n
        elif n in ("reduce", "reduceRight"):
            shapes["cb:" + n] = "var depth = 0; var f = function(){ depth++; return [1, 2].%s(function(a, b){ return f(); }, 0); }; f();" % n
        else:
            shapes["cb:" + n] = "var depth = 0; var f = function(){ depth++; [1].%s(function(x){ return f(); }); }; f();" % n
    # the same shapes inside script-level try/catch: a limit error must not be catchable by the script
    for name, src in sorted(list(shapes.items())):
        kick = src[src.rindex(";", 0, len(src) - 1) + 1 :].strip() if src.count(";") > 1 else None
        if not kick:
            continue
        head = src[: len(src) - len(kick)].rstrip()
        shapes["try-around:" + name] = "%s try { %s } catch (lim) { depth = -1; }" % (head, kick)
        shapes["retry-loop:" + name] = "%s for (var att = 0; att < 3; att++) { try { %s } catch (lim) { depth = depth + 0; } }" % (head, kick)
    for name in ("eval", "cb:map", "getter", "call", "self", "valueOf", "try-around:eval", "cb:sort"):
        if name in shapes:
            shapes["after-failures:" + name] = shapes[name]
    ms = [2000, 10000, 100000, 1000000]
    if chk.tier == "thorough":
        ms.append(10000000)
    cases = []
    for name, src in sorted(shapes.items()):
        for m in ms:
            for t in (None, 30.0):
                if chk.tier == "quick" and t is not None and m != 100000:
                    continue
                if chk.tier == "quick" and ":" in name and not name.startswith("cb:") and m not in (10000, 1000000):
                    continue
                cases.append((name, src, m, t))
    return cases


PREHISTORY = [
    "try { eval('var = ;'); } catch (e1) { }",          # nested eval that fails to parse
    "try { eval('null.x'); } catch (e2) { }",           # nested eval that throws
    "try { new Function('return (')(); } catch (e3) { }",
    "var = ;",                                          # the eval itself fails to parse
    "null.x;",
    "try { [1].forEach(function(){ null.x; }); } catch (e4) { }",
    "try { new RegExp('('); } catch (e5) { }",
    # ... and evaluations that succeed in unusual ways (nothing they leave behind may add up either)
    "eval();", "eval(1);", "eval('');", "eval(undefined);", "eval('1 + 1');", "new Function();", "new Function('')();", "(0, eval)('2');",
    "var ev = eval; ev('3');", "['1', '2'].map(eval);", "eval('eval()');", "try { eval(); eval(null.x); } catch (e6) { }",
]


def run_growth(case):
    name, src, mem, t = case
    m = engine.load()
    ctx = m.Context(memory_limit=mem, time_limit=t)
    if name.startswith("after-failures:"):
        # a long-lived context: many evaluations that ended in every kind of error come first
        for i in range(1000):
            try:
                with pool.cpu_alarm(20):
                    ctx.eval(PREHISTORY[i % len(PREHISTORY)])
            except pool.HarnessTimeout:
                break
            except Exception:
                pass
    cpu0 = time.process_time()
    try:
        with pool.cpu_alarm(60):
            try:
                r = ctx.eval(src)
                out = ("value", engine.tv(r))
            except pool.HarnessTimeout:
                out = ("hang", None)
            except RecursionError as e:
                out = ("exc", engine.exc_info(e))
            except Exception as e:
                out = ("exc", engine.exc_info(e))
    except pool.HarnessTimeout:
        out = ("hang", None)
    cpu = time.process_time() - cpu0
    try:
        depth = ctx.get("depth")
    except Exception:
        depth = None
    return (out, depth, round(cpu, 3))


def judge_growth(chk, case, res):
    name, src, mem, t = case
    key = "growth|%s|M=%s|T=%s" % (name, mem, t)
    chk.count()
    chk.classify("growth " + name)
    casej = {"sub": "growth", "shape": name, "src": src, "M": mem, "T": t}
    if isinstance(res, (pool.HANG, pool.CRASH)):
        chk.violation("growth|%s|%r" % (name, res), casej, "MemoryLimitError", repr(res), sub="growth")
        return
    out, depth, cpu = res
    if out[0] == "hang":
        chk.violation("growth|%s|not-stopped" % name, casej, "MemoryLimitError", "still running after 60 CPU-s", sub="growth")
        return
    if out[0] == "value":
        chk.violation("growth|%s|returned" % name, casej, "MemoryLimitError", ["value", out[1]], sub="growth")
        return
    info = out[1]
    if info["cls"] != "MemoryLimitError":
        if isinstance(depth, (int, float)) and depth < 3 and info["family"]:
            chk.classify("growth: shape unsupported by the engine")
            return
        chk.violation("growth|%s|class:%s" % (name, info["cls"]), casej, "MemoryLimitError",
                      [info["cls"], (info.get("message") or "")[:80], info.get("frame")], sub="growth")
        return
    if isinstance(depth, (int, float)) and depth >= 5:
        chk.nontrivial(key)
    # proportionality is judged after all cases are in (depth_relations): how many bytes a frame is charged
    # is the engine's business, but the depth reached must scale with M and must not depend on the history
    if isinstance(depth, (int, float)):
        DEPTHS[(name, mem, t)] = (depth, casej)
    if cpu > 20.0 + mem / 100000.0:
        chk.violation("growth|%s|slow" % name, casej, "cpu <= %.0fs" % (20.0 + mem / 100000.0), cpu, sub="growth")
        return
    chk.sample({"shape": name, "M": mem, "T": t, "outcome": "MemoryLimitError", "depth": depth, "cpu_s": cpu}, cls="g" + name, per_class=1, total=14)


DEPTHS = {}


def depth_relations(chk):
    """(i) depth grows at most linearly with M (ratio depth/M within a factor 3 of the ratio at the smallest M that
    reached depth >= 20 for that shape); (ii) a context with a history of failed evaluations is stopped at the same
    depth as a fresh one (+-5)."""
    by_shape = {}
    for (name, mem, t), (depth, casej) in DEPTHS.items():
        by_shape.setdefault((name, t), []).append((mem, depth, casej))
    for (name, t), rows in by_shape.items():
        rows.sort(key=lambda r: r[0])
        base = next(((m, d) for m, d, _ in rows if d >= 20), None)
        if base:
            for m, d, casej in rows:
                if m > base[0] and d / float(m) > 3.0 * base[1] / base[0] + 1e-9 and d > 50:
                    chk.violation("growth|%s|depth-not-proportional" % name, casej,
                                  "depth/M <= 3 x (%d/%d)" % (base[1], base[0]), "depth %d at M=%d" % (d, m), sub="growth")
        if name.startswith("after-failures:"):
            fresh = {m: d for m, d, _ in by_shape.get((name[len("after-failures:"):], t), [])}
            for m, d, casej in rows:
                if m in fresh and abs(d - fresh[m]) > 5:
                    chk.violation("growth|%s|depth-depends-on-history" % name, casej, "depth %d (fresh context) +- 5" % fresh[m], d, sub="growth")


# ------------------------------------------------------------------ (b) bounded
class BodyGen:
    """Terminating statement bodies with abrupt exits (seeded; construction, no rejection)."""

    def __init__(self, rnd, in_function):
        self.r = rnd
        self.n = 0
        self.in_function = in_function
        self.tags = set()
        self.helpers = []

    def fresh(self, p):
        self.n += 1
        return "%s%d" % (p, self.n)

    def log(self):
        self.n += 1
        return "log(%d);" % self.n

    def block(self, ctx, depth, k=None):
        k = k if k is not None else self.r.randint(1, 3)
        return " ".join(self.stmt(ctx, depth) for _ in range(k))

    def exit_stmt(self, ctx):
        """An abrupt exit valid in ctx (list of enclosing constructs, innermost last)."""
        opts = []
        loops = [c for c in ctx if c[0] == "loop"]
        if any(c[0] in ("loop", "switch") for c in ctx):
            opts.append("break")
        if loops:
            opts.append("continue")
            if len(loops) >= 2 or any(c[0] != "loop" for c in ctx[ctx.index(loops[0]):]):
                opts += ["break-label", "continue-label"]
        labels = [c for c in ctx if c[0] == "label"]
        if labels:
            opts.append("break-block")
        if any(c[0] == "try" for c in ctx):
            opts += ["throw", "throw"]
        if self.in_function:
            opts.append("return")
        opts.append("outer-continue")
        kind = self.r.choice(opts)
        crossed = "+".join(c[0] + (":" + c[2] if len(c) > 2 else "") for c in ctx[-2:]) or "top"
        self.tags.add("%s out of %s" % (kind, crossed))
        if kind == "break":
            return "break;"
        if kind == "continue":
            return "continue;"
        if kind == "break-label":
            return "break %s;" % self.r.choice(loops)[1]
        if kind == "continue-label":
            return "continue %s;" % self.r.choice(loops)[1]
        if kind == "break-block":
            return "break %s;" % self.r.choice(labels)[1]
        if kind == "throw":
            return "throw %d;" % self.r.randint(1, 9)
        if kind == "return":
            return "return %d;" % self.r.randint(1, 9)
        return "continue OUTER;" if not self.in_function else "return 0;"

    def guarded_exit(self, ctx, var):
        cond = self.r.choice(["%s === 1" % var, "%s !== 0" % var, "true", "%s === 0" % var]) if var else self.r.choice(["true", "sel === 1", "sel !== 1"])
        return "if (%s) { %s %s }" % (cond, self.log(), self.exit_stmt(ctx))

    def stmt(self, ctx, depth):
        r = self.r
        if depth <= 0:
            return self.log()
        kind = r.choice(["log", "if", "for", "while", "do", "forin", "forof", "switch", "label", "trycatch", "tryfinally", "trycf", "call", "expr", "native-throw", "native-throw"])
        d = depth - 1
        if kind == "log":
            return self.log()
        if kind == "if":
            return "if (sel %% 2 === %d) { %s } else { %s }" % (r.randint(0, 1), self.block(ctx, d, 1), self.block(ctx, d, 1))
        if kind in ("for", "while", "do", "forin", "forof"):
            lab = self.fresh("L")
            v = self.fresh("i")
            c2 = ctx + [("loop", lab, kind)]
            body = "%s %s %s" % (self.block(c2, d, r.randint(0, 1)), self.guarded_exit(c2, v if kind in ("for", "while", "do") else None), self.block(c2, d, r.randint(0, 1)))
            if kind == "for":
                return "%s: for (var %s = 0; %s < 3; %s++) { %s }" % (lab, v, v, v, body)
            if kind == "while":
                return "var %s = -1; %s: while (%s < 2) { %s++; %s }" % (v, lab, v, v, body)
            if kind == "do":
                return "var %s = -1; %s: do { %s++; %s } while (%s < 2);" % (v, lab, v, body, v)
            if kind == "forin":
                return "%s: for (var %s in {a: 1, b: 2, c: 3}) { %s }" % (lab, v, body)
            return "%s: for (var %s of [1, 2, 3]) { %s }" % (lab, v, body)
        if kind == "switch":
            c2 = ctx + [("switch", None, "switch")]
            return "switch (sel) { case 0: %s %s case 1: %s %s break; default: %s }" % (
                self.block(c2, d, 1), r.choice(["break;", "", self.guarded_exit(c2, None)]), self.log(), self.guarded_exit(c2, None), self.block(c2, d, 1))
        if kind == "label":
            lab = self.fresh("B")
            c2 = ctx + [("label", lab, "block")]
            return "%s: { %s %s %s }" % (lab, self.block(c2, d, 1), self.guarded_exit(c2, None), self.log())
        if kind == "trycatch":
            c2 = ctx + [("try", None, "try")]
            e = self.fresh("e")
            return "try { %s %s %s } catch (%s) { %s log(%s); }" % (self.block(c2, d, 1), self.guarded_exit(c2, None), self.log(), e, self.log(), e)
        if kind == "tryfinally":
            c2 = ctx + [("tryf", None, "try-finally")]
            return "try { %s %s %s } finally { %s }" % (self.block(c2, d, 1), self.guarded_exit(c2, None) if (ctx or self.in_function) else self.log(), self.log(), self.log())
        if kind == "trycf":
            c2 = ctx + [("try", None, "try")]
            c3 = ctx + [("tryf", None, "catch+finally")]
            e = self.fresh("e")
            return "try { %s %s } catch (%s) { log(%s); %s } finally { %s }" % (
                self.block(c2, d, 1), self.guarded_exit(c2, None), e, e, self.guarded_exit(c3, None) if (ctx or self.in_function) else self.log(), self.log())
        if kind == "call":
            # helper function whose body returns out of constructs that hold state
            name = self.fresh("h")
            sub = BodyGen(self.r, True)
            sub.n = self.n + 1000 * (len(self.helpers) + 1)
            hb = sub.block([], max(1, d), 2)
            self.tags |= sub.tags
            self.helpers.append("var %s = function(sel){ %s return 1; };" % (name, hb))
            self.helpers.extend(sub.helpers)
            return "log(%s(sel) + %s(sel + 1));" % (name, name)
        if kind == "native-throw":
            # an exception that leaves script code run by a built-in and is caught outside it
            e = self.fresh("e")
            via = r.choice(["forEach", "map", "sort", "reduce", "getter", "valueOf", "call", "apply", "toString", "nested"])
            self.tags.add("throw through built-in: " + via)
            thrower = "function(x){ if (sel !== 9) throw 'N' + sel; return 0; }"
            if via in ("forEach", "map"):
                inner = "[1, 2].%s(%s);" % (via, thrower)
            elif via == "sort":
                inner = "[2, 1, 3].sort(%s);" % thrower
            elif via == "reduce":
                inner = "[1, 2].reduce(%s, 0);" % thrower
            elif via == "getter":
                inner = "var og%d = { get p(){ throw 'G' + sel; } }; og%d.p;" % (self.n, self.n)
            elif via == "valueOf":
                inner = "var ov%d = { valueOf: function(){ throw 'V' + sel; } }; ov%d + 1;" % (self.n, self.n)
            elif via == "toString":
                inner = "var ot%d = { toString: function(){ throw 'S' + sel; } }; '' + ot%d;" % (self.n, self.n)
            elif via == "call":
                inner = "(%s).call(null, 1);" % thrower
            elif via == "apply":
                inner = "(%s).apply(null, [1]);" % thrower
            else:
                inner = "[1].forEach(function(){ [2].map(%s); });" % thrower
            return "try { %s %s } catch (%s) { log(%s); }" % (self.log(), inner, e, e)
        # expression with pending operands around a throwing / catching call
        name = self.fresh("t")
        self.helpers.append("var %s = function(k){ if (k === 1) throw 'T'; return k; };" % name)
        self.tags.add("throw in mid-expression with pending operands")
        return "try { log([1, 2, %s(sel), 3].length + 10 * %s(0)); } catch (%s) { %s }" % (name, name, self.fresh("e"), self.log())


def gen_body(seed, in_function):
    rnd = random.Random(seed)
    g = BodyGen(rnd, in_function)
    body = g.block([], 3, rnd.randint(2, 4))
    return body, g.helpers, sorted(g.tags)


def programs(body, helpers, in_function, n):
    pre = " ".join(helpers)
    if in_function:
        fn = "var B = function(sel){ %s return 0; };" % body
        single = "%s %s B(0); B(1); B(2);" % (pre, fn)
        loop = "%s %s for (var it = 0; it < %d; it++) { B(0); B(1); B(2); } throw 'sentinel';" % (pre, fn, n)
    else:
        def one(sel):
            return "OUTER: for (var once%d = 0; once%d < 1; once%d++) { var sel = %d; %s }" % (sel, sel, sel, sel, body)
        single = "%s %s %s %s" % (pre, one(0), one(1), one(2))
        loop = "%s for (var it = 0; it < %d; it++) { %s %s %s } throw 'sentinel';" % (pre, n, one(0), one(1), one(2))
    return single, loop


def run_bounded(case):
    seed, in_function, n = case
    m = engine.load()
    body, helpers, tags = gen_body(seed, in_function)
    single, loop = programs(body, helpers, in_function, n)

    def run(src, mem):
        lg = []
        ctx = m.Context(memory_limit=mem, time_limit=None)  # no wall clock in this oracle
        ctx.set("log", lambda v=None: lg.append(engine.tv(v)))
        try:
            with pool.cpu_alarm(90):
                try:
                    ctx.eval(src)
                    return ("ok", None, lg)
                except pool.HarnessTimeout:
                    return ("hang", None, lg)
                except RecursionError as e:
                    return ("exc", engine.exc_info(e), lg)
                except Exception as e:
                    return ("exc", engine.exc_info(e), lg)
        except pool.HarnessTimeout:
            return ("hang", None, lg)

    base = run(single, 10 ** 7)
    if base[0] != "ok":
        return {"stage": "single", "res": base[:2], "tags": tags, "single": single}
    log1 = base[2]
    if len(log1) > 120:
        return {"stage": "too-big", "res": ("ok", None), "tags": tags, "single": single}
    m0 = 2000
    while m0 <= 10 ** 7:
        r = run(single, m0)
        if r[0] == "ok":
            break
        if r[0] == "exc" and r[1]["cls"] == "MemoryLimitError":
            m0 *= 2
            continue
        return {"stage": "single-under-M", "res": r[:2], "tags": tags, "single": single, "M": m0}
    if n * 100 < 8 * m0:  # one leaked operand slot (100 bytes) per iteration must exceed the limit
        n = 8 * m0 // 100 + 20
        single, loop = programs(body, helpers, in_function, n)
    big = run(loop, 4 * m0)
    return {"stage": "loop", "res": big[:2], "tags": tags, "M0": m0, "log1": len(log1), "logN_ok": big[2] == log1 * n,
            "logN_len": len(big[2]), "single": single, "loop": loop if big[0] != "exc" or big[1]["cls"] != "JSError" or big[2] != log1 * n else None}


def judge_bounded(chk, case, res):
    seed, in_function, n = case
    chk.count()
    casej = {"sub": "bounded", "seed": seed, "in_function": in_function, "N": n}
    if isinstance(res, (pool.HANG, pool.CRASH)):
        chk.violation("bounded|%r" % res, casej, "sentinel", repr(res), sub="bounded")
        return
    tags = res["tags"]
    for t in tags[:6]:
        chk.classify("exit: " + t)
    held = [t for t in tags if any(w in t for w in ("forin", "forof", "switch", "try", "pending operands"))]
    casej["tags"] = tags
    casej["single"] = res.get("single")
    st, info = res["res"]
    if res["stage"] == "too-big":
        chk.excluded["body logs more than 120 entries per run (cost bound)"] += 1
        return
    if res["stage"] != "loop":
        # the body itself fails even once: not a memory question (C05 judges meaning);
        # a host exception is still reported
        if st == "exc" and not info["family"]:
            chk.violation("bounded|single-run host exception %s" % info["cls"], casej, "runs", [info["cls"], (info.get("message") or "")[:80], info.get("frame")], sub="bounded")
        else:
            chk.classify("bounded: body fails on a single run (not judged here)")
        return
    casej["loop"] = res.get("loop")
    casej["M"] = 4 * res["M0"]
    if st == "hang":
        # the CPU budget of the harness ran out: inconclusive, never a verdict about memory
        chk.truncated = True
        chk.classify("bounded: inconclusive (CPU budget)")
        return
    if st == "ok":
        chk.violation("bounded|sentinel-swallowed", casej, "uncaught JSError('sentinel')", "eval returned normally", sub="bounded")
        return
    if info["cls"] == "MemoryLimitError":
        chk.violation("bounded|MemoryLimitError|%s" % (held[0] if held else tags[0] if tags else "?"), casej,
                      "N=%d iterations under M=%d (4x the single-run need)" % (n, 4 * res["M0"]), ["MemoryLimitError", "log entries %d of %d" % (res["logN_len"], res["log1"] * n)], sub="bounded")
        return
    if info["cls"] != "JSError" or "sentinel" not in ((info.get("message") or "") + (info.get("name") or "")):
        chk.violation("bounded|wrong-end:%s" % info["cls"], casej, "uncaught JSError('sentinel')", [info["cls"], (info.get("message") or "")[:80]], sub="bounded")
        return
    if not res["logN_ok"]:
        chk.violation("bounded|log-differs", casej, "N x single-run log (%d entries)" % (res["log1"] * n), "%d entries / different" % res["logN_len"], sub="bounded")
        return
    if held:
        chk.nontrivial("bounded|%d|%s" % (seed, in_function))
    chk.sample({"sub": "bounded", "tags": tags[:5], "N": n, "M": 4 * res["M0"], "log_entries": res["logN_len"], "single": (res.get("single") or "")[:200]},
               cls="b%d" % (seed % 7), per_class=1, total=24)


# ------------------------------------------------------- (a2) call-free growth
def _lit_nested_array(d):
    return "[1," * d + "1" + "]" * d


LITERALS = {
    # name -> (text of an expression that keeps ~d operands pending while it is evaluated, max d worth generating)
    "nested-array": (_lit_nested_array, 10 ** 6),
    "nested-array-mid": (lambda d: "[1," * d + "1" + ",2]" * d, 10 ** 6),
    "nested-array-3": (lambda d: "[1,2,3," * (d // 3) + "1" + "]" * (d // 3), 10 ** 6),
    "nested-object": (lambda d: "{a:1,b:" * d + "1" + "}" * d, 400),
    "array-object-alt": (lambda d: "[1,{a:" * (d // 2) + "1" + "}]" * (d // 2), 400),
    "flat-array": (lambda d: "[" + ",".join(["1"] * d) + "]", 1000),
    "flat-object": (lambda d: "{" + ",".join("k%d:1" % i for i in range(d)) + "}", 1000),
    "native-args": (lambda d: "Math.max(" + ",".join(["1"] * d) + ")", 1000),
    "method-args": (lambda d: "[].concat(" + ",".join(["1"] * d) + ")", 1000),
    "new-args": (lambda d: "new Array(" + ",".join(["1"] * d) + ")", 1000),
    "nested-native-args": (lambda d: "Math.max(1," * d + "1" + ")" * d, 400),
    "cond-in-array": (lambda d: "[1, true ? " * d + "1" + " : 0]" * d, 400),
    "plus-right": (lambda d: "1+(" * d + "1" + ")" * d, 100),
    "string-plus-array": (lambda d: "['a' + " * d + "1" + "]" * d, 400),
}
LITERAL_WRAPS = {
    "top": "var a = %s; 1;",
    "top-expression": "(%s);",
    "function": "var f = function(){ return %s; }; f();",
    "callback": "[1].map(function(x){ return %s; });",
    "getter": "var o = { get p(){ return %s; } }; o.p;",
    "argument": "var id = function(x){ return 1; }; id(%s);",
    "try": "var a = 0; try { a = %s; } catch (lim) { a = -1; } typeof a;",
    "loop": "for (var i = 0; i < 3; i++) { var a = %s; } 1;",
    "after-calls": "var g = function(n){ return n === 0 ? 0 : 1 + g(n - 1); }; g(3); g(2); var a = %s; 1;",
}
REFUSALS = ("Program too large", "too deeply nested")


def literal_cases(chk):
    cases = []
    for m in (500, 1000, 2000, 10000):
        for factor in (4, 40):
            d = m // 100 * factor
            for lname in sorted(LITERALS):
                mk, dmax = LITERALS[lname]
                if d > dmax:
                    continue
                for wname in sorted(LITERAL_WRAPS):
                    if chk.tier == "quick" and d > 1000 and wname not in ("top", "function", "callback"):
                        continue
                    cases.append(("grow", lname, wname, m, d))
            # control: the same nesting at the front holds one operand at a time - a bounded script
            for wname in ("top", "function", "try"):
                if m >= 1000:   # two frames and their operands need more than 500 bytes
                    cases.append(("front", "front-nested-array", wname, m, d))
    return cases


def literal_src(case):
    kind, lname, wname, m, d = case
    if kind == "front":
        return LITERAL_WRAPS[wname] % ("[" * d + "1" + ",1]" * d)
    return LITERAL_WRAPS[wname] % LITERALS[lname][0](d)


def run_literals(task):
    m = engine.load()
    out = []
    for case in task:
        src = literal_src(case)
        ctx = m.Context(memory_limit=case[3], time_limit=None)
        try:
            with pool.cpu_alarm(60):
                try:
                    ctx.eval(src)
                    out.append(("value", None))
                except pool.HarnessTimeout:
                    out.append(("hang", None))
                except BaseException as e:
                    if isinstance(e, (KeyboardInterrupt, SystemExit)):
                        raise
                    out.append(("exc", engine.exc_info(e)))
        except pool.HarnessTimeout:
            out.append(("hang", None))
    return out


def judge_literal(chk, case, res):
    kind, lname, wname, mem, d = case
    chk.count()
    chk.classify("literal %s %s" % (kind, lname))
    casej = {"sub": "literal", "kind": kind, "literal": lname, "wrap": wname, "M": mem, "d": d}
    sig = "literal|%s|%s|" % ("front-nested" if kind == "front" else "growth", "program-level" if wname in ("top", "top-expression", "try", "loop", "after-calls") else "in-activation")
    want = "MemoryLimitError" if kind == "grow" else "completes (one pending operand)"
    if isinstance(res, (pool.HANG, pool.CRASH)) or res[0] == "hang":
        chk.violation(sig + "not-stopped", casej, want, repr(res), sub="literal")
        return
    st, info = res
    if kind == "front":
        if st == "exc" and info["family"] and any(w in (info.get("message") or "") for w in REFUSALS):
            chk.classify("literal: text refused at compile time (documented program-size bound)")
        elif st != "value":
            chk.violation(sig + "bounded-stopped:" + info["cls"], casej, want, [info["cls"], (info.get("message") or "")[:80]], sub="literal")
        else:
            chk.nontrivial("literal|front|%s|%s|%s" % (wname, mem, d))
        return
    if st == "value":
        chk.violation(sig + "returned", casej, want, "eval returned (%d pending operands = %d bytes under M=%d)" % (d, 100 * d, mem), sub="literal")
        return
    if info["cls"] == "MemoryLimitError":
        chk.nontrivial("literal|%s|%s|%s|%s" % (lname, wname, mem, d))
        chk.sample({"sub": "literal", "literal": lname, "wrap": wname, "M": mem, "d": d, "outcome": "MemoryLimitError"}, cls="l" + lname, per_class=1, total=30)
        return
    if info["family"] and any(w in (info.get("message") or "") for w in REFUSALS):
        chk.classify("literal: text refused at compile time (documented program-size bound)")
        return
    chk.violation(sig + "class:" + info["cls"], casej, want, [info["cls"], (info.get("message") or "")[:80], info.get("frame")], sub="literal")


# ------------------------------------------- (b2) bounded try/catch/finally shapes
UNW_HEAD = "L: for (i = 0; i < 2; i++)"
UNW_M = 2000


def unwind_cases(chk):
    quick = chk.tier == "quick"
    descs = []
    per_shape = {}
    for d in c07gen.shapes_product():
        sid = (c07gen._shape_id(d["sh"]), bool(c07gen.shape_uses_loops(d["sh"])))
        per_shape[sid] = per_shape.get(sid, 0) + 1
        if quick and per_shape[sid] % 5 != 1:      # every 5th placement x site of a depth-1 shape
            continue
        descs.append(d)
    descs += list(c07gen.shapes2_product()) + list(c07gen.shapes3_product())
    descs = [d for d in descs if c07gen.shape_uses_loops(d["sh"]) or not d.get("top")]
    if quick:
        rnd = random.Random(core.shard_seed(chk.seed, "C02", "unwind"))
        # shapes with break / continue exits repeat inside one activation (the class (b) does not reach): 1 in 4;
        # the others repeat by calls of the handler function only: 1 in 8
        loops = [i for i, d in enumerate(descs) if c07gen.shape_uses_loops(d["sh"])]
        plain = [i for i, d in enumerate(descs) if not c07gen.shape_uses_loops(d["sh"])]
        keep = sorted(rnd.sample(loops, len(loops) // 4) + rnd.sample(plain, len(plain) // 8))
        descs = [descs[i] for i in keep]
    # every case: never MemoryLimitError; every 3rd (thorough: every) case also: same outcome and log as without limit
    return [(d, UNW_M // 100 + 5, UNW_M, (not quick) or i % 3 == 0) for i, d in enumerate(descs)]


def _unw_eval(m, src, mem):
    lg = []

    def host_log(*a):
        if len(lg) < 60000:
            lg.append([a[0] if a and isinstance(a[0], str) else repr(a[:1]), proglib.norm_host(a[1]) if len(a) > 1 else ["u"]])

    ctx = m.Context(memory_limit=mem, time_limit=None)
    ctx.set("log", host_log)
    try:
        with pool.cpu_alarm(60):
            try:
                r = ctx.eval(src)
                return ["value", engine.tv(r)], lg
            except pool.HarnessTimeout:
                return ["hang"], lg
            except BaseException as e:
                if isinstance(e, (KeyboardInterrupt, SystemExit)):
                    raise
                i = engine.exc_info(e)
                return ["exc", i["cls"], i["name"], (i["message"] or "")[:120] if isinstance(i["message"], str) else repr(i["message"])[:120]], lg
    except pool.HarnessTimeout:
        return ["hang"], lg


def unwind_sources(desc, n):
    """(mode, two-iteration program, n-iteration program) candidates of a recipe: the labelled loop around the
    handler statement run n times inside one activation, and the handler function called n more times."""
    d0 = dict(desc, twice=0)    # one call of the handler function: the repetition is the loop's / rep's
    d0.pop("rep", None)
    src = c07gen.to_source(c07gen.build(d0))
    out = []
    if src.count(UNW_HEAD) == 1:
        out.append(("loop", src, src.replace(UNW_HEAD, "L: for (i = 0; i < %d; i++)" % n)))
    if not d0.get("top"):
        out.append(("rep", c07gen.to_source(c07gen.build(dict(d0, rep=2))), c07gen.to_source(c07gen.build(dict(d0, rep=n)))))
    return out


def run_unwind1(m, case):
    desc, n, mem, full = case
    while True:
        chosen = None
        retry = False
        for mode, src2, srcn in unwind_sources(desc, n):
            lim, llog = _unw_eval(m, srcn, mem)
            small = None
            if lim[0] == "exc" and lim[1] == "MemoryLimitError":
                small, _ = _unw_eval(m, src2, mem)
                if small[0] == "exc" and small[1] == "MemoryLimitError" and mem < 40000:
                    retry = True        # the statement itself does not fit: not a statement about repetition
                    break
                chosen = (mode, srcn, lim, llog, -1, small)
                break
            tags = [e[0] for e in llog]
            rounds = tags.count("it") if mode == "loop" else tags.count("rr")
            chosen = (mode, srcn, lim, llog, rounds, small)
            if rounds >= n:
                break       # the repetition really happens (a shape that leaves the loop at once falls back to rep)
        if retry:
            mem *= 2
            n = mem // 100 + 5
            continue
        if chosen is None:
            return {"stage": "no-program"}
        mode, srcn, lim, llog, rounds, small = chosen
        res = {"mode": mode, "rounds": rounds, "N": n, "M": mem, "lim": lim, "lim_log_len": len(llog), "small": small, "stage": "judged"}
        if lim[0] == "hang":
            res["stage"] = "inconclusive"
            return res
        if full or rounds < 0:
            # the same program without memory limit: outcome and log must be the same
            free, flog = _unw_eval(m, srcn, None)
            if free[0] == "hang":
                res["stage"] = "inconclusive"
                return res
            res.update({"free": free, "log_len": len(flog), "same": lim == free and llog == flog})
            if not res["same"]:
                res["src"] = srcn
        return res


def run_unwind(task):
    m = engine.load()
    return [run_unwind1(m, c) for c in task]


def judge_unwind(chk, case, res):
    desc, n, mem, full = case
    chk.count()
    chk.classify("unwind " + desc.get("c", "?"))
    casej = {"sub": "unwind", "desc": desc, "N": n, "M": mem, "id": c07gen._desc_id(desc)}
    if isinstance(res, (pool.HANG, pool.CRASH)):
        chk.violation("unwind|%r" % res, casej, "same outcome as without memory limit", repr(res), sub="unwind")
        return
    if res["stage"] == "no-program":
        chk.classify("unwind: no loop and no handler function to repeat")
        return
    if res["stage"] == "inconclusive":
        chk.truncated = True
        chk.classify("unwind: inconclusive (CPU budget)")
        return
    mode, lim = res["mode"], res["lim"]
    casej.update({"mode": mode, "N": res["N"], "M": res["M"], "src": res.get("src")})
    if lim[0] == "exc" and lim[1] == "MemoryLimitError":
        small = res.get("small") or ["?"]
        if small[0] == "exc" and small[1] == "MemoryLimitError":
            chk.classify("unwind: statement needs more than 40000 bytes (not judged)")
            return
        chk.violation("unwind|MemoryLimitError|%s" % mode, casej,
                      "%d repetitions under M=%d (two repetitions fit) end like the run without limit: %r" % (res["N"], res["M"], (res.get("free") or ["?"])[:2]),
                      ["MemoryLimitError", "log entries %d of %d" % (res["lim_log_len"], res.get("log_len", -1))], sub="unwind")
        return
    chk.classify("unwind mode %s%s" % (mode, "" if res["rounds"] >= res["N"] else " (ends early)"))
    if "same" in res:
        chk.classify("unwind: compared with the run without limit")
        if not res["same"]:
            chk.violation("unwind|outcome-differs|%s" % mode, casej, [res["free"], "log %d" % res["log_len"]], [lim, "log %d" % res["lim_log_len"]], sub="unwind")
            return
    if res["rounds"] >= res["N"]:
        chk.nontrivial("unwind|" + casej["id"])
    chk.sample({"sub": "unwind", "id": casej["id"], "mode": mode, "N": res["N"], "M": res["M"], "log_entries": res["lim_log_len"], "outcome": lim[:2]},
               cls="u" + mode + desc.get("c", ""), per_class=2, total=36)


def main(chk):
    chk.rule = (
        "(a) recursion shapes (incl. every discovered callback-taking built-in, accessors, conversions, call/apply/bind, eval) x "
        "memory limits, non-trivial = depth >= 5 reached before MemoryLimitError; (b) seeded random bodies with abrupt exits "
        "run N times under 4x the single-run need, non-trivial = body with an abrupt exit out of for-in/for-of/switch/try or a "
        "throw with pending operands; distinct by (shape, M, T) / generator seed; (a2) call-free operand growth (literal x wrapper x M x "
        "4x/40x budget), non-trivial = stopped by MemoryLimitError (or front-nested control completed); (b2) c07gen try/catch/finally "
        "recipes repeated N > M/100 times in one activation or by N calls, non-trivial = all N repetitions happened, distinct by recipe id"
    )
    chk.assumptions = [
        "(b) is metamorphic: it needs no model of what the body means, only that N runs log N times what one run logs",
        "heap data is not accounted by the engine (documented) and not judged",
    ]
    for path, rec in core.saved_replays("C02"):
        r = replay(rec)
        chk.count()
        if r["fails"]:
            chk.violation("saved-replay|" + path, rec.get("case"), r["expected"], r["actual"], sub="replay")
    g = recursion_cases(chk)
    res = pool.run(run_growth, g, timeout=200)
    DEPTHS.clear()
    for c, r in zip(g, res):
        judge_growth(chk, c, r)
    depth_relations(chk)
    nb = 500 if chk.tier == "quick" else 2500
    n_iter = 300 if chk.tier == "quick" else 1000
    base = core.shard_seed(chk.seed, "C02", "bounded") % (10 ** 9)
    cases = [(base + i, i % 2 == 0, n_iter) for i in range(nb)]
    res = pool.run(run_bounded, cases, timeout=400)
    for c, r in zip(cases, res):
        judge_bounded(chk, c, r)
    lit = literal_cases(chk)
    tasks = pool.chunks(lit, 12)
    for t, rs in zip(tasks, pool.run(run_literals, tasks, timeout=400)):
        for i, c in enumerate(t):
            judge_literal(chk, c, rs if isinstance(rs, (pool.HANG, pool.CRASH)) else rs[i])
    unw = unwind_cases(chk)
    tasks = pool.chunks(unw, 8)
    for t, rs in zip(tasks, pool.run(run_unwind, tasks, timeout=600)):
        for i, c in enumerate(t):
            judge_unwind(chk, c, rs if isinstance(rs, (pool.HANG, pool.CRASH)) else rs[i])
    chk.exhaustive = False


def replay(rec):
    case = rec["case"]
    chk = core.Check("C02", "replay", 0)
    if case.get("sub") == "growth":
        c = (case["shape"], case["src"], case["M"], case.get("T"))
        judge_growth(chk, c, pool.run(run_growth, [c], timeout=200)[0])
    elif case.get("sub") == "literal":
        c = (case["kind"], case["literal"], case["wrap"], case["M"], case["d"])
        r = pool.run(run_literals, [[c]], timeout=400)[0]
        judge_literal(chk, c, r if isinstance(r, (pool.HANG, pool.CRASH)) else r[0])
    elif case.get("sub") == "unwind":
        c = (case["desc"], case["N"], case["M"], True)
        r = pool.run(run_unwind, [[c]], timeout=600)[0]
        judge_unwind(chk, c, r if isinstance(r, (pool.HANG, pool.CRASH)) else r[0])
    elif "loop_src" in case:
        # literal program: must end with the uncaught sentinel under the given M
        m = engine.load()
        try:
            with pool.cpu_alarm(90):
                ctx = m.Context(memory_limit=case["M"], time_limit=60)
                ctx.set("log", lambda v=None: None)
                ctx.eval(case["loop_src"])
            got = "returned"
        except Exception as e:
            got = "%s: %s" % (type(e).__name__, e)
        ok = got.startswith("JSError") and "sentinel" in got
        return {"fails": not ok, "expected": "uncaught JSError('sentinel')", "actual": got[:200]}
    else:
        c = (case["seed"], case["in_function"], case["N"])
        judge_bounded(chk, c, pool.run(run_bounded, [c], timeout=400)[0])
    if chk.violations:
        v = list(chk.violations.values())[0]
        return {"fails": True, "expected": v["expected"], "actual": v["actual"]}
    return {"fails": False, "expected": None, "actual": "ok"}
