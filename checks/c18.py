"""C18 - numbers print, parse and round as IEEE doubles the ECMAScript way.

Sub-campaigns (DESIGN.md C18):
  str    boundary doubles + seeded random bit patterns x every radix-10
         number->string path (String, concatenation, toString, join, JSON,
         property key, toString(10), toPrecision())
  fmt    toFixed / toExponential / toPrecision with digit counts 0..20 and
         the RangeError bounds, toString(radix) for every radix
  parse  numeric strings (grammar + mutations) x Number, unary +, arithmetic
         coercion, isNaN/isFinite, parseFloat, parseInt x every radix argument
  lit    numeric literals in source text (lexer)
  math   every Math function the engine defines x special grid for 0..3
         arguments + seeded random arguments; never raises

Oracles: oracles/prims.py (Number::toString, StringToNumber), oracles/numfmt.py,
oracles/numparse.py, oracles/mathref.py.  Doubles and strings enter the engine
through Context.set (public API), so that the lexer is only judged by `lit`.
Expected values are computed inside the workers; only mismatches travel back.
"""
import collections
import math
import os
import random

from gens import c18_gen as G
from oracles import mathref as MR
from oracles import numfmt as NF
from oracles import numparse as NP
from oracles import prims as P
from vf import core, engine, pool

INF = math.inf
GUARD_JSON = "c18.json_number_text"


# ------------------------------------------------------------------ encodings
def tag_arg(a):
    if a is P.UNDEF:
        return ["u"]
    if a is None:
        return ["z"]
    if isinstance(a, bool):
        return ["b", 1 if a else 0]
    if isinstance(a, float):
        return ["n", "NaN" if a != a else G.bits(a)]
    if isinstance(a, str):
        return ["s", a]
    raise TypeError(a)


def untag_arg(t):
    k = t[0]
    if k == "u" or k == "missing":
        return P.UNDEF
    if k == "z":
        return None
    if k == "b":
        return bool(t[1])
    if k == "n":
        return math.nan if t[1] == "NaN" else G.from_bits(t[1])
    if k == "s":
        return t[1]
    raise KeyError(k)


def arg_src(t):
    if t is None or t[0] == "missing":
        return ""
    return P.js_literal(untag_arg(t))


def tag_num(x, as_int=False):
    if as_int:
        return ["i", int(x)]
    return ["f", "NaN" if x != x else G.bits(x)]


def untag_num(t):
    if t[0] == "i":
        return t[1]
    return math.nan if t[1] == "NaN" else G.from_bits(t[1])


def numkey_of(v):
    """Typed rendering of a number the engine returned (None if not a number)."""
    if isinstance(v, bool) or not isinstance(v, (int, float)):
        return None
    return engine.tv(v)


# ------------------------------------------------------- engine-side evaluation
def _script(prelude, exprs, nrows, binds):
    body = []
    for e in exprs:
        body.append("try { r = %s; } catch (e) { r = ['T', e.name]; } out.push(r);" % e)
    return (
        "%s\nvar out = [];\nfor (var i = 0; i < %d; i++) { %s var r;\n%s\n}\nout"
        % (prelude, nrows, binds, "\n".join(body))
    )


def eval_cells(setup, prelude, binds, exprs, nrows):
    """Evaluate every expression for every row.  Returns rows x exprs matrix of
    raw Python values; a cell whose evaluation lets a host exception (or a JS
    error outside try) escape holds {"exc": [class, message]}."""
    m = engine.load()
    if nrows == 0 or not exprs:
        return [[] for _ in range(nrows)]
    try:
        with pool.cpu_alarm(60):
            ctx = m.Context(time_limit=40)
            for k, v in setup.items():
                ctx.set(k, v)
            out = ctx.eval(_script(prelude, exprs, nrows, binds))
        if isinstance(out, list) and len(out) == nrows * len(exprs):
            n = len(exprs)
            return [out[i * n : (i + 1) * n] for i in range(nrows)]
        err = {"exc": ["BadShape", repr(out)[:80]]}
    except pool.HarnessTimeout:
        err = {"exc": ["HANG", ""]}
    except Exception as e:  # noqa - any escaping exception is data here
        info = engine.exc_info(e)
        err = {"exc": [info["cls"], (info.get("message") or "")[:80], info.get("name")]}
    if len(exprs) > 1:
        cols = [eval_cells(setup, prelude, binds, [e], nrows) for e in exprs]
        return [[cols[j][i][0] for j in range(len(exprs))] for i in range(nrows)]
    if nrows > 1:
        h = nrows // 2
        a = eval_cells({k: v[:h] for k, v in setup.items()}, prelude, binds, exprs, h)
        b = eval_cells({k: v[h:] for k, v in setup.items()}, prelude, binds, exprs, nrows - h)
        return a + b
    return [[err]]


def show(raw):
    """JSON-able typed rendering of a raw cell."""
    if isinstance(raw, dict) and "exc" in raw:
        return ["exception"] + list(raw["exc"])
    if isinstance(raw, list) and len(raw) == 2 and raw[0] == "T":
        return ["throw", raw[1]]
    if isinstance(raw, int) and not isinstance(raw, bool) and raw.bit_length() > 1100:
        return ["bigint", "%s2^%d.." % ("-" if raw < 0 else "", raw.bit_length() - 1)]  # engine.tv cannot print it
    return engine.tv(raw)


class Acc:
    """What a worker sends back for one task."""

    def __init__(self):
        self.n = 0
        self.keys = []
        self.classes = {}
        self.mism = []
        self.samples = []
        self.excluded = {}

    def cls(self, label, n=1):
        self.classes[label] = self.classes.get(label, 0) + n

    def pack(self):
        return {"n": self.n, "keys": self.keys, "classes": self.classes, "mism": self.mism[:400],
                "mism_total": len(self.mism), "samples": self.samples[:3], "excluded": self.excluded}


# ----------------------------------------------------------------- num -> text
KEY_PRELUDE = "var KEY = function (v) { var o = {}; o[v] = 1; return Object.keys(o)[0]; };"
STR_PATHS = {
    "String": "String(x)",
    "concat": '"" + x',
    "concat2": 'x + ""',
    "toString": "x.toString()",
    "join": "[x].join()",
    "json": "JSON.stringify(x)",
    "key": "KEY(x)",
    "toString10": "x.toString(10)",
    "toPrecisionU": "x.toPrecision()",
}
FMT_METHODS = {"toFixed": NF.to_fixed, "toExponential": NF.to_exponential, "toPrecision": NF.to_precision,
               "radix": NF.to_string_radix}
FMT_JS = {"radix": "toString"}


def num_expr(path, argt):
    if path in STR_PATHS:
        return STR_PATHS[path]
    return "x.%s(%s)" % (FMT_JS.get(path, path), arg_src(argt))


def _fl(x):
    """The double a host number stands for (a host integer beyond 2^53 is the nearest double, or an infinity)."""
    return P.int_to_double(x) if isinstance(x, int) and not isinstance(x, bool) else float(x)


def host_big_ints(rnd, n_random):
    """Host integers that no double holds exactly or that lie beyond 2^53: what Context.set / an exposed callable hands in."""
    out = []
    for k in list(range(53, 72)) + [100, 127, 128, 1000, 1023, 1024, 1025, 1100]:
        out += [2 ** k, 2 ** k + 1, 2 ** k - 1, -(2 ** k) - 1]
    for k in list(range(15, 26)) + [100, 308, 309, 400]:
        out += [10 ** k, 10 ** k + 1, 10 ** k - 1, -(10 ** k)]
    out += [9007199254740993, 9007199254740995, 18446744073709551615, 18446744073709551616, 123456789012345678901234567890, (2 ** 53 + 1) * 1024,
            179769313486231570814527423731704356798070567525844996598917476803157260780028538760589558632766878171540458953514382464234321326889464182768467546703537516986049910576551282076245490090389328944075868508455133942304583236903222948165808559332123348274797826204144723168738177180919299881250404026184124858368,
            179769313486231580793728971405303415079934132710037826936173778980444968292764750946649017977587207096330286416692887910946555547851940402630657488671505820681908902000708383676273854845817711531764475730270069855571366959622842914819860834936475292719074168444365510704342711559699508093042880177904174497791]
    for _ in range(n_random):
        d = rnd.randint(16, 40)
        out.append(rnd.choice([1, -1]) * rnd.randrange(10 ** (d - 1), 10 ** d))
    seen, res = set(), []
    for n in out:
        if n not in seen:
            seen.add(n)
            res.append(["i", n])
    return res


def num_expected(path, argt, x):
    x = _fl(x)
    if path in STR_PATHS:
        if path == "json" and (x != x or abs(x) == INF):
            return ("s", "null")
        return ("s", P.num_to_str(x))
    return FMT_METHODS[path](x, untag_arg(argt))


def text_diff(exp, got):
    """Coarse kind of difference between two texts."""
    if not isinstance(got, str):
        return "not a string"
    try:
        a, b = float(exp), float(got)
    except ValueError:
        if exp in ("NaN", "Infinity", "-Infinity", "null") or got.lower() in ("nan", "inf", "-inf", "infinity", "-infinity"):
            return "non-finite name"
        return "digits"
    if a == b or (a != a and b != b):
        if ("e" in exp) != ("e" in got.lower()):
            return "notation"
        return "layout"
    if ("e" in exp) != ("e" in got.lower()):
        return "notation+value"
    return "rounding" if abs(a - b) <= abs(a) * 1e-3 + 1e-300 else "value"


def judge_num(path, argt, xt, raw):
    """-> (ok, expected, actual, kind)"""
    x = untag_num(xt)
    exp = num_expected(path, argt, x)
    act = show(raw)
    if act[0] == "exception":
        return False, list(exp[:2]) if exp[0] != "pred" else ["pred", exp[1]], act, "exc:%s" % act[1]
    if exp[0] == "throw":
        if act == ["throw", exp[1]]:
            return True, None, None, ""
        kind = ("throws %s" % act[1]) if act[0] == "throw" else "no throw"
        return False, ["throw", exp[1]], act, kind + " want " + exp[1]
    if act[0] == "throw":
        return False, list(exp[:2]), act, "throws %s want text" % act[1]
    if exp[0] == "pred":
        if act[0] == "s" and NF.radix_text_ok(act[1], exp[1], _fl(x)):
            return True, None, None, ""
        return False, ["radix text within 1 ulp", exp[1]], act, "radix text"
    if act == ["s", exp[1]]:
        return True, None, None, ""
    return False, ["s", exp[1]], act, text_diff(exp[1], act[1] if act[0] == "s" else None)


def run_num_task(task):
    _, origin, xts, calls, skip_json = task
    acc = Acc()
    xs = [untag_num(t) for t in xts]
    calls = [c for c in calls if not (skip_json and c[0] == "json")]
    if skip_json:
        acc.excluded[GUARD_JSON] = len(xs)
    for chunk in pool.chunks(calls, 30):
        exprs = [num_expr(p, a) for p, a in chunk]
        rows = eval_cells({"X": xs}, KEY_PRELUDE, "var x = X[i];", exprs, len(xs))
        for xt, x, row in zip(xts, xs, rows):
            nt = G.nontrivial_double(_fl(x))
            for (path, argt), raw in zip(chunk, row):
                acc.n += 1
                sub = "str" if path in STR_PATHS else "fmt"
                acc.cls("%s %s" % (sub, path))
                if nt:
                    acc.keys.append(hash((sub, path, core.jdump(argt), xt[0], xt[1])))
                ok, exp, act, kind = judge_num(path, argt, xt, raw)
                if not ok:
                    case = {"sub": sub, "path": path, "arg": argt, "x": xt, "js": num_expr(path, argt), "x_repr": repr(x)}
                    key = "%s|%s|%s|%s%s" % (sub, path, arg_src(argt), xt[0], xt[1])
                    acc.mism.append([origin, key, exp, act, case, "%s|%s|%s" % (sub, path, kind)])
                elif nt and len(acc.samples) < 3 and (acc.n % 97 == 5):
                    acc.samples.append({"sub": sub, "js": num_expr(path, argt), "x": repr(x),
                                        "expected": list(num_expected(path, argt, x))[:2], "actual": show(raw)})
    return acc.pack()


# ----------------------------------------------------------------- text -> num
PARSE_PATHS = {
    "Number": "Number(s)",
    "plus": "+s",
    "minus0": "s - 0",
    "times1": "s * 1",
    "div1": "s / 1",
    "neg": "-s",
    "isNaN": "isNaN(s)",
    "isFinite": "isFinite(s)",
    "parseFloat": "parseFloat(s)",
    "Number.parseFloat": "Number.parseFloat(s)",
    "parseInt1": "parseInt(s)",
}


def parse_expr(path, argt):
    if path in PARSE_PATHS:
        return PARSE_PATHS[path]
    return "%s(s, %s)" % (path, arg_src(argt))  # parseInt / Number.parseInt


def judge_parse(path, argt, s, raw):
    act = show(raw)
    if path in ("isNaN", "isFinite"):
        v = P.str_to_number(s) if isinstance(s, str) else P.to_number(s)
        e = (v != v) if path == "isNaN" else (v == v and abs(v) != INF)
        exp = ["b", 1 if e else 0]
        if act == exp:
            return True, None, None, ""
        return False, exp, act, ("exc:%s" % act[1]) if act[0] == "exception" else "value"
    st = s if isinstance(s, str) else P.to_string(s)
    if path in ("parseFloat", "Number.parseFloat"):
        accepted, approx = [NP.parse_float(st)], None
    elif path in ("parseInt", "Number.parseInt", "parseInt1"):
        m = NP.parse_int(st, untag_arg(argt) if argt else P.UNDEF)
        accepted, approx = (m[1], None) if m[0] == "exact" else ([m[1]], m[1])
    else:
        v = P.str_to_number(s) if isinstance(s, str) else P.to_number(s)
        accepted, approx = [-v if path == "neg" else v], None
    exp = [P.tv(v) for v in accepted]
    if act[0] == "exception":
        return False, exp[0], act, "exc:%s" % act[1]
    if act[0] == "throw":
        return False, exp[0], act, "throws %s" % act[1]
    if act in exp:
        return True, None, None, ""
    if approx is not None and act[0] == "n" and isinstance(raw, (int, float)) and not isinstance(raw, bool):
        try:
            if NP.within_ulps(float(raw), approx, 1):
                return True, None, None, ""
        except OverflowError:
            pass
    return False, exp[0], act, _num_diff(exp[0], act)


def _num_diff(exp, act):
    if act[0] == "bigint":
        return "bigint"
    if act[0] != "n":
        return "type %s" % act[0]
    special = ("NaN", "Infinity", "-Infinity", "0", "-0")
    e, a = exp[1], act[1]
    if e in special or a in special:
        return "%s->%s" % (e if e in special else "v", a if a in special else "v")
    try:
        if abs(float(e) - float(a)) <= 4 * math.ulp(float(e)):
            return "rounding"
    except (ValueError, OverflowError):
        pass
    return "value"


def run_parse_task(task):
    _, origin, strs, calls = task
    acc = Acc()
    for chunk in pool.chunks(calls, 30):
        exprs = [parse_expr(p, a) for p, a in chunk]
        rows = eval_cells({"S": strs}, "", "var s = S[i];", exprs, len(strs))
        for s, row in zip(strs, rows):
            nt = (not isinstance(s, str)) or G.nontrivial_string(s)
            for (path, argt), raw in zip(chunk, row):
                acc.n += 1
                acc.cls("parse %s" % path)
                if nt:
                    acc.keys.append(hash(("parse", path, core.jdump(argt), core.jdump(s))))
                ok, exp, act, kind = judge_parse(path, argt, s, raw)
                if not ok:
                    case = {"sub": "parse", "path": path, "arg": argt, "s": s, "js": parse_expr(path, argt)}
                    key = "parse|%s|%s|%s" % (path, arg_src(argt) if argt else "", core.jdump(s))
                    acc.mism.append([origin, key, exp, act, case, "parse|%s|%s" % (path, kind)])
                elif nt and len(acc.samples) < 3 and (acc.n % 89 == 7):
                    acc.samples.append({"sub": "parse", "js": parse_expr(path, argt), "s": s, "actual": act})
    return acc.pack()


# ------------------------------------------------------------------- literals
def lit_value(src):
    t = src.lower()
    if t[:2] == "0x":
        return P.int_to_double(int(t[2:], 16))
    if t[:2] == "0o":
        return P.int_to_double(int(t[2:], 8))
    if t[:2] == "0b":
        return P.int_to_double(int(t[2:], 2))
    return float(src)  # DecimalLiteral incl. "5." ".5" "5.e1": correctly rounded


def run_lit_task(task):
    _, origin, lits = task
    acc = Acc()
    # one expression per literal, single row; the literal sits in several
    # syntactic positions so that a trailing '.' meets ')' ',' ';' and ' '
    forms = ["(%s)", "[%s, 1][0]", "(function () { var v = %s; return v; })()", "0 + %s "]
    for chunk in pool.chunks(lits, 25):
        exprs = [forms[(i + len(l)) % len(forms)] % l for i, l in enumerate(chunk)]
        rows = eval_cells({}, "", "", exprs, 1)
        for l, e, raw in zip(chunk, exprs, rows[0]):
            acc.n += 1
            acc.cls("lit %s" % ("radix" if l[:2].lower() in ("0x", "0o", "0b") else "decimal"))
            acc.keys.append(hash(("lit", l)))
            exp = P.tv(lit_value(l))
            act = show(raw)
            if act != exp:
                kind = ("exc:%s" % act[1]) if act[0] == "exception" else _num_diff(exp, act) if act[0] in ("n", "bigint") else act[0]
                if l.rstrip("0123456789+-eE").endswith(".") and act[0] == "exception":
                    kind = "trailing dot " + kind
                acc.mism.append([origin, "lit|%s" % l, exp, act, {"sub": "lit", "lit": l, "js": e}, "lit|%s" % kind])
            elif len(acc.samples) < 2 and acc.n % 13 == 1:
                acc.samples.append({"sub": "lit", "js": e, "actual": act})
    return acc.pack()


# ----------------------------------------------------------------------- Math
def math_expected(name, argts):
    """Model result after ToNumber of every argument."""
    return MR.ref(name, [P.to_number(untag_arg(t)) for t in argts])


def judge_math(name, argts, raw):
    model = math_expected(name, argts)
    act = show(raw)
    if model[0] == "unit":
        exp = ["n in [0,1)"]
    else:
        exp = [model[0], P.numkey(model[1])]
    if act[0] == "exception":
        return False, exp, act, "exc:%s" % act[1]
    if act[0] == "throw":
        return False, exp, act, "throws %s" % act[1]
    if act[0] != "n" or isinstance(raw, bool):
        return False, exp, act, "bigint" if act[0] == "bigint" else "type %s" % act[0]
    if MR.accepts(model, float(raw)):
        return True, None, None, ""
    if model[0] == "exact":
        return False, exp, act, _num_diff(["n", P.numkey(model[1])], act)
    act = act + ["%d ulps" % min(MR.ulps_apart(model[1], float(raw)), 1 << 53)]
    return False, exp, act, "beyond 1 ulp"


def run_math_task(task):
    _, origin, name, arglists = task
    acc = Acc()
    numeric, other = [], []
    for a in arglists:
        (numeric if all(t[0] in ("n", "i") for t in a) else other).append(a)
    by_n = {}
    for a in numeric:
        by_n.setdefault(len(a), []).append(a)
    results = []
    for n, lst in sorted(by_n.items()):
        setup = {"A%d" % j: [untag_num(a[j]) if a[j][0] == "i" else untag_arg(a[j]) for a in lst] for j in range(n)}
        call = "Math.%s(%s)" % (name, ", ".join("A%d[i]" % j for j in range(n)))
        if n == 0:
            rows = eval_cells({}, "", "", [call], len(lst))
        else:
            rows = eval_cells(setup, "", "", [call], len(lst))
        results += [(a, row[0]) for a, row in zip(lst, rows)]
    if other:
        exprs = ["Math.%s(%s)" % (name, ", ".join(arg_src(t) for t in a)) for a in other]
        for chunk_a, chunk_e in zip(pool.chunks(other, 25), pool.chunks(exprs, 25)):
            rows = eval_cells({}, "", "", chunk_e, 1)
            results += list(zip(chunk_a, rows[0]))
    grid_bits = _grid_bits()
    for a, raw in results:
        acc.n += 1
        acc.cls("math %s/%d" % (name, len(a)))
        a_norm = [(["n", G.bits(float(t[1]))] if t[0] == "i" else t) for t in a]
        if all(t[0] != "n" or t[1] in grid_bits for t in a_norm):
            acc.keys.append(hash(("math", name, core.jdump(a))))
        ok, exp, act, kind = judge_math(name, a_norm, raw)
        if not ok:
            js = "Math.%s(%s)" % (name, ", ".join(str(t[1]) if t[0] == "i" else arg_src(t) for t in a))
            case = {"sub": "math", "fn": name, "args": a, "js": js}
            acc.mism.append([origin, "math|%s|%s" % (name, core.jdump(a)), exp, act, case, "math|%s|%s" % (name, kind)])
        elif len(acc.samples) < 2 and acc.n % 53 == 3:
            acc.samples.append({"sub": "math", "fn": name, "args": [arg_src(t) if t[0] != "i" else t[1] for t in a], "actual": act})
    return acc.pack()


_GB = None


def _grid_bits():
    global _GB
    if _GB is None:
        _GB = set("NaN" if v != v else G.bits(v) for v in G.MATH_GRID)
    return _GB


def run_const_task(task):
    acc = Acc()
    names = sorted(MR.CONSTANTS)
    rows = eval_cells({}, "", "", ["Math.%s" % n for n in names], 1)
    for n, raw in zip(names, rows[0]):
        acc.n += 1
        acc.cls("math constant")
        acc.keys.append(hash(("const", n)))
        exp = P.tv(MR.CONSTANTS[n])
        act = show(raw)
        if act != exp:
            acc.mism.append(["grid", "const|%s" % n, exp, act, {"sub": "const", "name": n, "js": "Math." + n}, "math|constant|%s" % n])
    return acc.pack()


RUNNERS = {"num": run_num_task, "parse": run_parse_task, "lit": run_lit_task, "math": run_math_task, "const": run_const_task}


def run_task(task):
    return RUNNERS[task[0]](task)


# ---------------------------------------------------------------- task building
def discover_math():
    m = engine.load()
    with pool.cpu_alarm(20):
        ctx = m.Context(time_limit=10)
        names = ctx.eval(
            "var ks = Object.keys(Math), fs = [], cs = [];"
            "for (var i = 0; i < ks.length; i++) { if (typeof Math[ks[i]] === 'function') fs.push(ks[i]); else cs.push(ks[i]); }"
            "[fs, cs]"
        )
    return sorted(names[0]), sorted(names[1])


def with_int_reps(xs):
    """tagged doubles; integer-valued ones within +-2^53 also as host ints."""
    out = []
    for x in xs:
        out.append(tag_num(x))
        if x == x and abs(x) <= 2 ** 53 and float(x).is_integer() and not (x == 0 and math.copysign(1, x) < 0):
            out.append(tag_num(x, as_int=True))
    return out


def fmt_calls():
    calls = []
    for m in ("toFixed", "toExponential", "toPrecision"):
        calls.append((m, ["missing"]))
        for a in G.DIGIT_ARGS:
            calls.append((m, tag_arg(a)))
    for a in G.RADIX_ARGS:
        calls.append(("radix", tag_arg(a)))
    return calls


def build_tasks(chk):
    quick = chk.tier == "quick"
    rnd = random.Random(core.shard_seed(chk.seed, "C18", "select"))
    tasks = []
    skip_json = chk.extra.get("json_guard_active", False)
    str_calls = [(p, None) for p in STR_PATHS]
    all_fmt = fmt_calls()

    # --- str: boundary grid x every path
    bd = G.boundary_doubles()
    bdt = with_int_reps(bd)
    for ch in pool.chunks(bdt, 120):
        tasks.append(("num", "grid", ch, str_calls, skip_json))
    # --- fmt: core doubles x every digit count / radix
    coret = with_int_reps(G.core_doubles())
    for ch in pool.chunks(coret, 40):
        for cc in pool.chunks(all_fmt, 60):
            tasks.append(("num", "grid", ch, cc, skip_json))
    # --- fmt: whole boundary grid x a seeded selection of calls
    per = 6 if quick else 30
    for ch in pool.chunks(bdt, 120):
        tasks.append(("num", "grid", ch, rnd.sample(all_fmt, per), skip_json))
    # --- random doubles: every string path + a selection of formatting calls
    nrand = 12000 if quick else 400000
    rd = [G.random_double(rnd) for _ in range(nrand)]
    rdt = with_int_reps(rd)
    for ch in pool.chunks(rdt, 150):
        tasks.append(("num", "rand", ch, str_calls + rnd.sample(all_fmt, 8), skip_json))
    # --- host integers beyond 2^53 (handed in with Context.set): every string path + every formatting call
    hbi = host_big_ints(rnd, 150 if quick else 5000)
    for ch in pool.chunks(hbi, 60):
        tasks.append(("num", "grid", ch, str_calls + (rnd.sample(all_fmt, 12) if quick else all_fmt), skip_json))
    chk.extra["doubles"] = {"boundary": len(bd), "random": nrand, "core": len(G.core_doubles()), "host_big_ints": len(hbi)}

    # --- parse
    bs = G.boundary_strings()
    base_calls = [(p, None) for p in PARSE_PATHS]
    pi_calls = [(fn, tag_arg(r)) for r in G.PARSEINT_RADICES for fn in ("parseInt",)] + [
        ("Number.parseInt", tag_arg(r)) for r in (P.UNDEF, 2.0, 8.0, 10.0, 16.0, 36.0, 37.0, 0.0)
    ]
    for ch in pool.chunks(bs, 60):
        tasks.append(("parse", "grid", ch, base_calls + pi_calls))
    for r in range(2, 37):
        strs = G.parseint_strings_for(r, rnd)
        radices = [float(r), P.UNDEF, 16.0, 10.0, 36.0, float(2 + (r * 7) % 35)]
        tasks.append(("parse", "grid", strs, [("parseInt", tag_arg(v)) for v in radices] + [("Number.parseInt", tag_arg(float(r)))]))
    nonstr = [0.0, -0.0, 1e21, 1e-7, 5e-7, 0.000001, 1.5, 123456789012345680000.0, INF, -INF, math.nan, 255.0, 0.5, -1e21, 1e300]
    tasks.append(("parse", "grid", nonstr, [("parseInt1", None), ("parseFloat", None), ("parseInt", tag_arg(16.0)),
                                             ("parseInt", tag_arg(2.0)), ("Number", None), ("isNaN", None), ("isFinite", None)]))
    nstr = 8000 if quick else 250000
    rs = []
    seen = set(bs)
    while len(rs) < nstr:
        s = G.random_numeric_string(rnd)
        if s not in seen:
            seen.add(s)
            rs.append(s)
    for ch in pool.chunks(rs, 150):
        sel = rnd.sample(pi_calls, 4)
        tasks.append(("parse", "rand", ch, base_calls + sel))
    chk.extra["strings"] = {"boundary": len(bs), "random": nstr}

    # --- literals
    tasks.append(("lit", "grid", G.LITERALS))
    nlit = 2000 if quick else 60000
    lits = []
    for _ in range(nlit):
        lits.append(G.random_literal(rnd))
    for ch in pool.chunks(lits, 250):
        tasks.append(("lit", "rand", ch))

    # --- Math
    fns, consts = discover_math()
    chk.extra["math_functions"] = fns
    chk.extra["math_without_model"] = [f for f in fns if f not in MR.ARITY]
    tasks.append(("const", "grid"))
    grid = [tag_arg(v) for v in G.MATH_GRID]
    # a few integers also in host-int representation
    grid_i = [["i", n] for n in (0, 1, -1, 2, 3, -8, 27, 2 ** 31, -(2 ** 31), 2 ** 32 + 5, 2 ** 53, 16777217)]
    small = [tag_arg(v) for v in G.MATH_GRID_SMALL]
    nonnum = [tag_arg(v) for v in G.MATH_NONNUM]
    for f in fns:
        if f not in MR.ARITY:
            continue
        if f == "random":
            tasks.append(("math", "grid", f, [[] for _ in range(50)] + [[grid[0]], [grid[1], grid[2]]]))
            continue
        lists = [[]]
        lists += [[a] for a in grid + grid_i + nonnum]
        two = MR.ARITY[f] == 2 or f in MR.VARIADIC
        if two:
            lists += [[a, b] for a in grid for b in grid]
            lists += [[a, b] for a in grid_i for b in grid_i]
            lists += [[a, b] for a in nonnum for b in nonnum[:5]] + [[a, grid[5]] for a in nonnum] + [[grid[7], b] for b in nonnum]
            lists += [[a, b, c] for a in small for b in small for c in small]
        else:
            lists += [[a, b] for a in small for b in small]
            lists += [[a, b, c] for a in small[:6] for b in small[:3] for c in small[:3]]
        for ch in pool.chunks(lists, 1500):
            tasks.append(("math", "grid", f, ch))
    nmath = 10000 if quick else 400000
    per_fn = {}
    usable = [f for f in fns if f in MR.ARITY and f != "random"]
    for _ in range(nmath):
        f = rnd.choice(usable)
        k = MR.ARITY[f] if f not in MR.VARIADIC else rnd.randint(0, 3)
        per_fn.setdefault(f, []).append([tag_arg(G.random_math_arg(rnd)) for _ in range(k)])
    for f, lst in sorted(per_fn.items()):
        for ch in pool.chunks(lst, 1500):
            tasks.append(("math", "rand", f, ch))
    return tasks


# ------------------------------------------------------------------ known guard
def json_guard(chk):
    """Known finding 'JSON.stringify(number) prints host repr' (repaired by the
    C19 stringify patch).  Active only while its repro still fails as recorded."""
    if not chk.guard_listed(GUARD_JSON):
        return False
    e = chk.guards[GUARD_JSON]
    try:
        rec = core.load_json(os.path.join(core.ROOT, e["repro"]))
    except OSError:
        return False
    r = replay(rec)
    if r["fails"] and r["actual"] == rec.get("actual"):
        chk.known_hit(e["id"])
        return True
    return False


# ------------------------------------------------------------------------ main
def main(chk):
    chk.rule = (
        "double with >= 15 significant digits, or non-finite / zero, or within 2 ulps of a notation threshold, or a decimal "
        "halfway candidate; string that is not a plain decimal integer; Math call whose number arguments all lie in the "
        "special grid; distinct by (path, argument, input)"
    )
    chk.assumptions = [
        "oracles/prims.py, numfmt.py, numparse.py, mathref.py transcribe ECMAScript (agreement with node 20 recorded in oracle_validation/)",
        "Context.set hands Python floats/ints/strings to scripts unchanged and eval returns script numbers/strings unchanged (C11)",
        "toString(radix) of values without a finite expansion and parseInt beyond 2^53 in radices other than 2,4,8,10,16,32 are "
        "implementation-approximated: accepted within one ulp",
        "Math results outside the specification's special points are accepted within one ulp of the host libm",
        "legacy octal-like literals (010) and numeric separators are not generated",
    ]
    for path, rec in core.saved_replays("C18"):
        r = replay(rec)
        chk.count()
        if r["fails"]:
            chk.violation("saved-replay|" + os.path.basename(path), rec.get("case"), r["expected"], r["actual"], sub="replay")
    chk.extra["json_guard_active"] = json_guard(chk)
    tasks = build_tasks(chk)
    res = pool.run(run_task, tasks, timeout=600)
    per_sub = collections.Counter()
    for task, r in zip(tasks, res):
        if isinstance(r, (pool.HANG, pool.CRASH)):
            raise engine.HarnessError("C18 task %s %r" % (task[0], r))
        chk.count(r["n"])
        chk.nontrivial_many(r["keys"])
        for k, v in r["classes"].items():
            chk.classify(k, v)
        for k, v in r["excluded"].items():
            chk.excluded[k] += v
        for s in r["samples"]:
            if per_sub[s.get("sub", "")] < 8:
                before = len(chk.samples)
                chk.sample(s, cls=s.get("sub", "") + s.get("js", "")[:14], per_class=1)
                per_sub[s.get("sub", "")] += len(chk.samples) - before
        for origin, key, exp, act, case, sig in r["mism"]:
            if origin == "grid":
                chk.cell(key, exp, act, case, sub=case["sub"], signature=sig)
            else:
                chk.violation(sig, case, exp, act, sub=case["sub"])
        extra = r["mism_total"] - len(r["mism"])
        if extra > 0:
            chk.violation_count += extra
    chk.exhaustive = False


# ---------------------------------------------------------------------- replay
def replay(rec):
    case = rec["case"]
    sub = case["sub"]
    if sub in ("str", "fmt"):
        rows = eval_cells({"X": [untag_num(case["x"])]}, KEY_PRELUDE, "var x = X[i];", [num_expr(case["path"], case["arg"])], 1)
        ok, exp, act, _ = judge_num(case["path"], case["arg"], case["x"], rows[0][0])
    elif sub == "parse":
        rows = eval_cells({"S": [case["s"]]}, "", "var s = S[i];", [parse_expr(case["path"], case["arg"])], 1)
        ok, exp, act, _ = judge_parse(case["path"], case["arg"], case["s"], rows[0][0])
    elif sub == "lit":
        rows = eval_cells({}, "", "", [case.get("js") or "(%s)" % case["lit"]], 1)
        exp = P.tv(lit_value(case["lit"]))
        act = show(rows[0][0])
        ok = act == exp
    elif sub == "math":
        r = run_math_task(("math", "grid", case["fn"], [case["args"]]))
        if r["mism"]:
            _, _, exp, act, _, _ = r["mism"][0]
            ok = False
        else:
            ok, exp, act = True, None, None
    elif sub == "const":
        rows = eval_cells({}, "", "", ["Math.%s" % case["name"]], 1)
        exp = P.tv(MR.CONSTANTS[case["name"]])
        act = show(rows[0][0])
        ok = act == exp
    else:
        raise KeyError(sub)
    if ok:
        return {"fails": False, "expected": rec.get("expected"), "actual": rec.get("expected")}
    return {"fails": True, "expected": exp, "actual": act}
