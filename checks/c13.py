"""C13 - parsing respects the grammar: precedence, layout, round trip, literal spellings, rejection.

Five sub-campaigns (DESIGN C13), all metamorphic / round trip on the engine alone, with the ECMAScript expression
grammar (gens/exprs.py: precedence table, minimal-parenthesis printer) as the fixed reference:

 prec     every expression tree with 2 and 3 operators (exhaustive) and random trees to depth 6 is printed with
          minimal parentheses and fully parenthesised, inside one of twelve syntactic contexts (statement start,
          for-init, argument, arrow body, ...): both renderings must parse to exactly that tree, and evaluating
          both on concrete bindings gives the same typed outcome.
 layout   generated programs, generated expressions and corpus programs re-rendered with random trivia (spaces,
          tabs, LF, CRLF, CR, VT, FF, block and line comments with quotes / brackets / comment look-alikes; never a
          line break in a restricted position, never inside a token) and with redundant parentheses: same tree,
          same outcome.
 round    parse(print(parse(s))) == parse(s) for corpus and generated programs (printer works on the engine's AST).
 literal  every spelling of a number (decimal, fraction, leading/trailing dot, exponent, hex/octal/binary, long
          mantissas, boundary doubles) has the value float(text) / exact integer rounded to double (oracles.prims);
          every spelling of a string (raw, \\n.., \\xNN, \\uNNNN, \\u{N}, identity escapes, both quotes, line
          continuations) denotes the same string.
 reject   programs made invalid *by construction of the grammar* from valid ones (each operator below carries its
          proof sketch) must raise JSSyntaxError.

The engine's tolerance of missing statement separators is a superset-grammar choice and is not judged: no
sub-campaign relies on automatic semicolon insertion or on its absence.
"""
import copy
import json
import math
import os
import random
import re

from gens import exprs as E
from oracles import prims as P
from vf import core, engine, pool

CORPUS = os.path.join(core.ROOT, "corpus", "corpus.json")

PRELUDE = (
    "var a=7,b=3,c=2,d=5,e=1,g=4,h=6,i=8,x=9,y=11,z=0,k=1,v=0,p=2,q=3,$=1,_=2,a1=3,of_=4,get=5,set=6,async=7,"
    "arguments_=8,é=9;var o={p:1,q:2,k:3};var f=function(u){return u===undefined?1:u+1};"
    "var F=function(u){this.p=u};"
)
STATE = "[a,b,c,d,e,g,h,i,x,y,z,k,p,q,typeof o,typeof f,typeof F]"

GUARD_NAMES = {
    # guard name -> generator switch (see known findings; a guard is active only while its repro still fails)
    "layout.lone-cr": "lone_cr",
    "layout.vt-ff": "vt_ff",
    "string.continuation": "continuation",
}


# ----------------------------------------------------------------------------
# engine access (worker side)


def _mods():
    m = engine.load()
    import importlib

    return m, importlib.import_module("microjs.parser").Parser


def parse(src):
    """('ok', dict) | ('syntax', message, line, column) | ('exc', class, message) | ('hang',)"""
    m, Parser = _mods()
    try:
        with pool.cpu_alarm(10):
            return ("ok", Parser(src).parse().to_dict())
    except pool.HarnessTimeout:
        return ("hang",)
    except m.JSSyntaxError as e:
        return ("syntax", _msg(e), getattr(e, "line", None), getattr(e, "column", None))
    except RecursionError:
        return ("exc", "RecursionError", "")
    except Exception as e:
        return ("exc", type(e).__name__, str(e)[:120])


_POS = re.compile(r"\s*\(line \d+, column \d+\)|\s*at line \d+(, column \d+)?|line \d+")


def _msg(e):
    return _POS.sub("", getattr(e, "message", None) or str(e))[:120]


def evaluate(srcs, time_limit=1.0):
    """Evaluate the sources one after the other on one fresh context.
    Outcome of each: ['value', typed] | ['throw', name, message] | ['syntax', message] | ['exc', class, message] |
    ['timeout'] (time/memory limit or watchdog: not compared)."""
    m, _ = _mods()
    out = []
    try:
        ctx = m.Context(time_limit=time_limit)
        ctx.set("console", {"log": lambda *a: None})  # corpus programs print; keep the check's stdout clean
    except Exception as e:  # pragma: no cover
        return [["exc", type(e).__name__, str(e)[:80]]] * len(srcs)
    for s in srcs:
        try:
            with pool.cpu_alarm(time_limit * 4 + 4):
                r = ctx.eval(s)
            out.append(["value", engine.tv(r)])
        except pool.HarnessTimeout:
            out.append(["timeout"])
            break
        except (m.TimeLimitError, m.MemoryLimitError):
            out.append(["timeout"])
            break
        except m.JSSyntaxError as e:
            out.append(["syntax", _msg(e)])
        except m.JSError as e:
            out.append(["throw", getattr(e, "name", None), _msg(e)])
        except RecursionError:
            out.append(["exc", "RecursionError", ""])
        except Exception as e:
            out.append(["exc", type(e).__name__, str(e)[:80]])
    while len(out) < len(srcs):
        out.append(["timeout"])
    return out


def has_timeout(o):
    return any(x[0] == "timeout" for x in o)


class Acc:
    """What a worker task reports back."""

    def __init__(self):
        self.count = 0
        self.classes = {}
        self.nontrivial = []
        self.violations = []
        self.samples = []
        self.excluded = {}
        self.extra = {}

    def cls(self, label, n=1):
        self.classes[label] = self.classes.get(label, 0) + n

    def viol(self, sig, case, expected, actual, sub):
        if not any(v[0] == sig for v in self.violations):
            self.violations.append((sig, case, expected, actual, sub))
        else:
            self.extra["more:" + sig] = self.extra.get("more:" + sig, 0) + 1

    def pack(self):
        return {"count": self.count, "classes": self.classes, "nontrivial": self.nontrivial, "violations": self.violations,
                "samples": self.samples[:6], "excluded": self.excluded, "extra": self.extra}


def merge(chk, results, what):
    for r in results:
        if isinstance(r, (pool.HANG, pool.CRASH)) or r is None:
            raise engine.HarnessError("C13 %s task %r" % (what, r))
        chk.count(r["count"])
        for k, v in r["classes"].items():
            chk.classify(k, v)
        chk.nontrivial_many(r["nontrivial"])
        for sig, case, exp, act, sub in r["violations"]:
            chk.violation(sig, case, exp, act, sub=sub)
        for k, v in r["extra"].items():
            if k.startswith("more:") and k[5:] in chk.violations:
                chk.violations[k[5:]]["count"] += v
                chk.violation_count += v
            elif not k.startswith("more:"):
                chk.extra[k] = chk.extra.get(k, 0) + v
        for s in r["samples"]:
            chk.sample(s, cls=s.get("sub", ""), per_class=3)
        for k, v in r["excluded"].items():
            chk.excluded[k] += v


# ----------------------------------------------------------------------------
# sub-campaign 1: precedence and associativity


def _short(t):
    return t["type"].replace("Expression", "").replace("Literal", "")


def _diff_sig(want, got):
    """Coarse kind of the first structural difference (for bucketing)."""
    d = E.first_diff(want, got) or "?"
    path, _, what = d.partition(": ")
    m = re.match(r"^(\w+) != (\w+)$", what)
    if m and m.group(1)[:1].isupper() and m.group(1) not in ("True", "False", "None"):
        return what  # node types
    if what.startswith("length"):
        return "number of children"
    key = re.sub(r"\[\d+\]", "", path).rsplit(".", 1)[-1]
    return "field " + (key or "?")


def check_tree(acc, t, ctx, origin, do_eval=True):
    """The oracle of sub-campaign 1 for one tree in one context."""
    srcs = {}
    ok = True
    for mode in ("min", "full"):
        toks, path = E.print_expr(t, mode, ctx)
        src = E.join_min(toks)
        srcs[mode] = src
        if _tree_failure(t, ctx, mode, src) is None:
            continue
        ok = False
        sub_t, sub_ctx = shrink_tree(t, ctx, mode)
        kind, what, actual = _tree_failure(sub_t, sub_ctx, mode)
        toks2, _ = E.print_expr(sub_t, mode, sub_ctx)
        acc.viol("prec|%s|%s|%s" % (mode, kind, what),
                 {"sub": "prec", "tree": sub_t, "ctx": sub_ctx, "mode": mode, "src": E.join_min(toks2), "from": src[:300], "origin": origin},
                 {"parses_to": "the printed tree"}, actual, "prec")
    if ok and do_eval and ctx not in ("ret", "arrowbody"):
        o1 = evaluate([PRELUDE, srcs["min"], STATE])
        o2 = evaluate([PRELUDE, srcs["full"], STATE])
        if has_timeout(o1) or has_timeout(o2):
            acc.cls("prec eval: limit reached (not compared)")
        elif o1 != o2:
            acc.viol("prec|eval|min-vs-full|%s" % _short(t), {"sub": "prec-eval", "tree": t, "ctx": ctx, "src_min": srcs["min"], "src_full": srcs["full"],
                                                             "origin": origin}, o2[1:], o1[1:], "prec")
            ok = False
        else:
            acc.cls("prec eval: " + ("value" if o1[1][0] == "value" else o1[1][0] + " " + str(o1[1][1])))
    return ok, srcs


def _tree_failure(t, ctx, mode, src=None):
    """None when the rendering of t parses to t; else (kind, bucket, actual)."""
    toks, path = E.print_expr(t, mode, ctx)
    r = parse(src if src is not None else E.join_min(toks))
    if r[0] != "ok":
        return ("rejected", r[1] if r[0] in ("syntax", "exc") else r[0], list(r)[:4])
    want = E.strip(t)
    try:
        got = E.get_path(r[1], path)
    except (KeyError, IndexError, TypeError):
        got = {"type": "?"}
    if E.tree_eq(got, want):
        return None
    return ("shape", _diff_sig(want, got), {"parses_to": got, "difference": E.first_diff(want, got)})


def _tree_fails(t, ctx, mode):
    return _tree_failure(t, ctx, mode) is not None


def shrink_tree(t, ctx, mode):
    """Smallest failing expression sub-tree (greedy descent); a sub-tree is first tried in the plain
    parenthesised-free context 'rhs'."""
    cur, cctx = t, ctx
    for _ in range(40):
        for s in E.subexprs(cur)[1:]:
            if s["type"] in E.LEAF_TYPES:
                continue
            for c2 in ("rhs", cctx):
                if _tree_fails(s, c2, mode):
                    cur, cctx = s, c2
                    break
            else:
                continue
            break
        else:
            break
    return cur, cctx


def task_prec_shapes(task):
    acc = Acc()
    base, shapes, do_eval = task
    for k, sh in enumerate(shapes):
        t = E.build_shape(sh)
        ctx = E.CONTEXTS[(base + k) % len(E.CONTEXTS)]
        ok, srcs = check_tree(acc, t, ctx, "exhaustive", do_eval)
        acc.count += 1
        nops = E.count_ops(t)
        acc.cls("prec %d operators (exhaustive)" % nops)
        acc.cls("prec context " + ctx)
        if nops >= 2:
            acc.nontrivial.append(core.h16("p|" + ctx + "|" + srcs["min"]))
        if ok and "(" in srcs["min"] and (base + k) % 997 == 0:
            acc.samples.append({"sub": "prec", "min": srcs["min"], "full": srcs["full"], "result": "both parse to the printed tree"})
    return acc.pack()


def task_prec_random(task):
    acc = Acc()
    seed, n = task
    rnd = random.Random(seed)
    g = E.ExprGen(rnd)
    for k in range(n):
        d = rnd.choice((2, 3, 3, 4, 4, 5, 6))
        t = g.expr(d)
        while t["type"] in E.LEAF_TYPES:
            t = g.expr(d)
        ctx = rnd.choice(E.CONTEXTS)
        ok, srcs = check_tree(acc, t, ctx, "random", do_eval=(k % 2 == 0))
        acc.count += 1
        acc.cls("prec random depth %d" % min(E.depth(t), 7))
        if E.count_ops(t) >= 2:
            acc.nontrivial.append(core.h16("p|" + ctx + "|" + srcs["min"]))
        if ok and k == 0:
            acc.samples.append({"sub": "prec", "min": srcs["min"][:200], "full": srcs["full"][:300], "result": "both parse to the printed tree"})
    return acc.pack()


def run_prec(chk):
    quick = chk.tier == "quick"
    shapes2 = E.enum_shapes(2, E.OPS)
    reps = [E.OPS_BY_NAME[n] for n in E.REP_NAMES]
    if quick:
        shapes3 = E.enum_shapes(3, reps)
        # a third of the triples per run, rotated by the seed (all of them over three consecutive seeds)
        shapes3 = [s for i, s in enumerate(shapes3) if i % 3 == chk.seed % 3]
    else:
        shapes3 = E.enum_shapes(3, E.OPS if os.environ.get("VERIF_C13_ALLOPS") else reps)
    chk.extra["prec_pairs"] = len(shapes2)
    chk.extra["prec_triples"] = len(shapes3)
    tasks = []
    allsh = shapes2 + shapes3
    for i in range(0, len(allsh), 400):
        tasks.append((i + chk.seed, allsh[i:i + 400], True))
    merge(chk, pool.run(task_prec_shapes, tasks, timeout=600), "prec-exhaustive")
    n = 6000 if quick else 120000
    tasks = [(core.shard_seed(chk.seed, "C13", "prec-random", s), 250) for s in range(n // 250)]
    merge(chk, pool.run(task_prec_random, tasks, timeout=600), "prec-random")


# ----------------------------------------------------------------------------
# sub-campaigns 2 and 3: layout independence, print/parse round trip


def _layouts(rnd, sw):
    r = rnd.random()
    if r < 0.25:
        return E.Layout(density=rnd.choice((0.2, 0.5, 0.9)), lone_cr=sw["lone_cr"], vt_ff=sw["vt_ff"])
    if r < 0.4:
        return E.Layout(density=0.6, newlines=("\r\n",))
    if r < 0.55:
        return E.Layout(density=0.5, newlines=("\n",), comments=False)
    if r < 0.7:
        return E.Layout(density=0.8, spaces=(" ",), newlines=("\n", "\r\n"))
    if r < 0.85 and sw["lone_cr"]:
        return E.Layout(density=0.5, newlines=("\r",))
    return E.Layout(density=0.4)


def compare_renderings(acc, base_src, var_src, kind, origin, stats, do_eval, base_parse=None, base_out=None, prelude=None):
    """base and variant must parse to the same tree and evaluate to the same outcome."""
    rb = base_parse or parse(base_src)
    rv = parse(var_src)
    case = {"sub": "layout", "kind": kind, "base": base_src, "variant": var_src, "origin": origin, "prelude": prelude}
    if rv[0] != "ok":
        # one bucket per kind of layout change: the parser's message depends on where the damage surfaces
        acc.viol("layout|%s|variant rejected" % kind, case, "accepted like the base rendering", list(rv)[:4], "layout")
        return False
    if not E.tree_eq(rb[1], rv[1]):
        acc.viol("layout|%s|different tree" % kind, case, "same tree", E.first_diff(rb[1], rv[1]), "layout")
        return False
    if do_eval:
        pre = [prelude] if prelude else []
        ob = base_out or evaluate(pre + [base_src])
        ov = evaluate(pre + [var_src])
        if has_timeout(ob) or has_timeout(ov):
            acc.cls("layout eval: limit reached (not compared)")
        elif ob != ov:
            acc.viol("layout|%s|different outcome" % kind, case, ob[-1], ov[-1], "layout")
            return False
    return True


def roundtrip(acc, src, origin, parsed=None):
    r1 = parsed or parse(src)
    if r1[0] != "ok":
        return None
    try:
        s2 = E.join_min(E.print_program(r1[1], quote='"'))
    except (ValueError, KeyError, TypeError) as e:
        acc.cls("round: tree not printable (%s)" % type(e).__name__)
        acc.extra["unprintable"] = acc.extra.get("unprintable", 0) + 1
        return None
    r2 = parse(s2)
    case = {"sub": "round", "src": src, "printed": s2, "origin": origin}
    if r2[0] != "ok":
        t, c = _shrink_round(r1[1])
        acc.viol("round|printed tree rejected|%s" % (r2[1] if len(r2) > 1 else r2[0]), dict(case, minimal=t), "accepted", list(r2)[:4], "round")
        return False
    if not E.tree_eq(r1[1], r2[1]):
        acc.viol("round|different tree|%s" % _diff_sig(r1[1], r2[1]), case, "same tree", E.first_diff(r1[1], r2[1]), "round")
        return False
    return True


def _shrink_round(prog):
    """Smallest statement of prog whose printed form is not accepted / not the same tree."""
    best = None
    for s in prog.get("body", []):
        p = E.Prog([s])
        try:
            src = E.join_min(E.print_program(p, quote='"'))
        except Exception:
            continue
        r = parse(src)
        if r[0] != "ok" or not E.tree_eq(r[1], p):
            if best is None or len(src) < len(best):
                best = src
    return best, None


def task_layout_generated(task):
    acc = Acc()
    seed, n, sw = task
    rnd = random.Random(seed)
    for k in range(n):
        if k % 3 == 2:
            g = E.ExprGen(rnd)
            t = g.expr(rnd.choice((2, 3, 4)))
            ctx = rnd.choice(E.CONTEXTS)
            mk = lambda **kw: E.print_expr(t, "min", ctx, quote='"', **kw)[0]  # noqa
            origin = "generated expression"
            prelude = PRELUDE
        else:
            pr = E.ProgGen(rnd, size=rnd.choice((3, 6, 10, 16))).program()
            mk = lambda **kw: E.print_program(pr, quote='"', **kw)  # noqa
            origin = "generated program"
            prelude = None
        toks = mk()
        base = E.join_min(toks)
        rb = parse(base)
        acc.count += 1
        if rb[0] != "ok":
            acc.viol("layout|base rendering rejected|%s" % (rb[1] if len(rb) > 1 else rb[0]), {"sub": "parse-ok", "src": base, "origin": origin},
                     "accepted", list(rb)[:4], "layout")
            continue
        ob = evaluate(([prelude] if prelude else []) + [base])
        if origin == "generated program":
            # the parser's tree is the tree the text was printed from (statements lost, duplicated or
            # re-attached elsewhere survive a print/parse round trip of the parser's own tree)
            want = E.strip(pr)
            if not E.tree_eq(rb[1], want):
                acc.viol("layout|generated program parses to another tree|%s" % _diff_sig(rb[1], want),
                         {"sub": "gen-tree", "src": base, "origin": origin, "tree": want}, {"parses_to": "the generated tree"},
                         {"difference": E.first_diff(rb[1], want)}, "layout")
                continue
        roundtrip(acc, base, origin, rb)
        acc.cls("round: " + origin)
        for j in range(3):
            stats = {}
            kind = "trivia"
            if j == 2:
                p = E.Printer(mode="min", rnd=rnd, extra=rnd.choice((0.1, 0.3)), extra_targets=(rnd.random() < 0.3), quote='"')
                if origin == "generated program":
                    vt = p.program(pr)
                else:
                    E.emit_in_context(p, t, ctx)
                    vt = p.o
                kind = "parens+targets" if p.extra_targets else "parens"
                var = E.render(vt, rnd, E.Layout(density=0.15), stats=stats) if rnd.random() < 0.5 else E.join_min(vt)
                stats["parens"] = p.extra_count
                if not p.extra_count:
                    continue
            else:
                lay = _layouts(rnd, sw)
                var = E.render(toks, rnd, lay, stats=stats)
                if "\v" in var or "\f" in var:
                    kind = "trivia+vt/ff"
                elif re.search(r"\r(?!\n)", var):
                    kind = "trivia+cr"
            good = compare_renderings(acc, base, var, kind, origin, stats, True, rb, ob, prelude)
            acc.count += 1
            acc.cls("layout %s: %s" % (origin, kind))
            if kind.startswith("parens") or (stats.get("trivia", 0) >= 3 and stats.get("comments") and stats.get("newlines")):
                acc.nontrivial.append(core.h16("l|" + var))
            if good and k % 40 == 0 and j == 0:
                acc.samples.append({"sub": "layout", "base": base[:160], "variant": var[:260], "result": "same tree, same outcome"})
    return acc.pack()


def engine_token_positions(src):
    """[(line, column)] of the engine lexer's tokens (public Lexer.tokenize), or None."""
    engine.load()
    import importlib

    try:
        lx = importlib.import_module("microjs.lexer").Lexer
        with pool.cpu_alarm(10):
            return [(t.line, t.column) for t in lx(src).tokenize()][:-1]
    except BaseException:
        return None


def task_layout_corpus(task):
    acc = Acc()
    seed, items, sw = task
    rnd = random.Random(seed)
    for src, origin in items:
        acc.count += 1
        rb = parse(src)
        if rb[0] != "ok":
            acc.cls("corpus: not accepted by the engine (skipped)")
            continue
        rt = roundtrip(acc, src, origin, rb)
        acc.cls("round: corpus")
        if rt:
            acc.nontrivial.append(core.h16("r|" + src))
        try:
            toks = E.tokenize(src)
        except (E.TokenizeError, IndexError):
            acc.cls("corpus: outside my tokenizer (templates, ...) (skipped)")
            continue
        # cross-check the split with the engine's lexer (regex literals masked: its lexer needs the parser for them)
        masked = list(src)
        for t in toks:
            if t.kind == "regex":
                for i in range(t.start, t.end):
                    masked[i] = "_"
        pos = engine_token_positions("".join(masked))
        mine = [(t.line, t.col) for t in toks]
        if pos is not None and pos != mine and "\r" not in src:
            acc.cls("corpus: tokenizers split differently (harness disagreement, skipped)")
            acc.extra["tokenizer_disagreement"] = acc.extra.get("tokenizer_disagreement", 0) + 1
            continue
        if not toks:
            continue
        texts = [t.text for t in toks]
        nonl, must = E.corpus_layout_constraints(toks)
        # programs that look at their own source positions legitimately depend on the layout
        do_eval = len(src) < 3000 and not re.search(r"lineNumber|columnNumber|\.stack\b", src)
        ob = evaluate([src]) if do_eval else None
        for j in range(2):
            stats = {}
            lay = _layouts(rnd, sw)
            var = E.render(texts, rnd, lay, nonl=nonl, must_nl=must, stats=stats)
            kind = "trivia"
            if "\v" in var or "\f" in var:
                kind = "trivia+vt/ff"
            elif re.search(r"\r(?!\n)", var):
                kind = "trivia+cr"
            good = compare_renderings(acc, src, var, kind, origin, stats, do_eval, rb, ob)
            acc.count += 1
            acc.cls("layout corpus: " + kind)
            if stats.get("trivia", 0) >= 3 and stats.get("comments") and stats.get("newlines"):
                acc.nontrivial.append(core.h16("l|" + var))
    return acc.pack()


def load_corpus():
    with open(CORPUS, encoding="utf-8") as f:
        return [(c["src"], c["origin"]) for c in json.load(f)]


def run_layout(chk, sw):
    quick = chk.tier == "quick"
    n = 1600 if quick else 40000
    tasks = [(core.shard_seed(chk.seed, "C13", "layout", s), 50, sw) for s in range(n // 50)]
    merge(chk, pool.run(task_layout_generated, tasks, timeout=600), "layout-generated")
    corpus = load_corpus()
    reps = 1 if quick else 6
    tasks = []
    for r in range(reps):
        for i in range(0, len(corpus), 12):
            tasks.append((core.shard_seed(chk.seed, "C13", "corpus", r, i), corpus[i:i + 12], sw))
    merge(chk, pool.run(task_layout_corpus, tasks, timeout=600), "layout-corpus")


# ----------------------------------------------------------------------------
# sub-campaign 4: literal spellings

BOUNDARY_NUMBERS = [
    "0", "0.0", "0e0", "0.", ".0", "0E-0", "1", "9007199254740991", "9007199254740992", "9007199254740993", "9007199254740995",
    "18014398509481985", "9007199254740993.0", "9007199254740992.5", "9007199254740993e0", "1e21", "1e22", "1e23", "8.41e21",
    "123456789012345678901234567890", "1.7976931348623157e308", "1.7976931348623158e308", "1.7976931348623159e308",
    "179769313486231570000000000000000000000000000000000000000000000000000000000000000000000000000000000000000000000000000000"
    "000000000000000000000000000000000000000000000000000000000000000000000000000000000000000000000000000000000000000000000000"
    "000000000000000000000000000000000000000000000000000000000000000000000", "1e308", "1e309", "2e308", "1E400", "5e-324", "4.9e-324", "3e-324",
    "2.4703282292062327e-324", "2.4703282292062328e-324", "2.5e-324", "1e-323", "1e-400", "2.2250738585072014e-308", "2.2250738585072011e-308",
    "0.1", "0.2", "0.30000000000000004", "0.1e1", "100e-2", ".1e+1", "5.e-1", "1.0000000000000001", "1.0000000000000002",
    "1.00000000000000011102230246251565404236316680908203125", "1.00000000000000011102230246251565404236316680908203126",
    "0.000001", "0.0000001", "123456789.123456789", "4294967295", "4294967296", "2147483648", "0x0", "0xff", "0XFF", "0xFf", "0x7fffffff",
    "0x80000000", "0xffffffff", "0x100000000", "0x1fffffffffffff", "0x20000000000001", "0x20000000000002", "0x20000000000003",
    "0xfffffffffffff800", "0xfffffffffffffbff", "0xfffffffffffffc00", "0o0", "0o7", "0O17", "0o777777777777777777", "0o400000000000000001",
    "0b0", "0b1", "0B101", "0b11111111111111111111111111111111111111111111111111111", "0b100000000000000000000000000000000000000000000000000001",
    "0x" + "f" * 256, "0x" + "f" * 255 + "8", "0x1" + "0" * 256, "0b" + "1" * 1030, "0o" + "7" * 342,
    "1" + "0" * 400, "1" + "0" * 308, "9" * 309, "0." + "0" * 400 + "1", "1e0000000000000000000001", "1e+000", "12e-0001",
]
NUM_CONTEXTS = ["%s", "(%s)", "-%s", "[%s][0]", "%s\n", "+%s", "%s*1", "MEMBER"]


def number_context(lit, ci):
    """(source text, sign) of literal lit in one of the contexts."""
    tpl = NUM_CONTEXTS[ci % len(NUM_CONTEXTS)]
    if tpl == "MEMBER":
        # a member access directly after a literal needs no blank when the literal already contains a dot, an
        # exponent or a radix prefix ('1.5.valueOf()', '5..valueOf()', '0x1f.valueOf()'); a plain integer followed
        # by '.' would be read as a fraction, so it gets a blank or a second dot
        if re.match(r"^0[xXoObB]", lit) or "." in lit or "e" in lit.lower():
            return lit + ".valueOf()", 1
        return (lit + " .valueOf()" if ci % 2 else lit + "..valueOf()"), 1
    return tpl % lit, (-1 if tpl.startswith("-") else 1)


def task_numbers(task):
    acc = Acc()
    seed, fixed, n = task
    rnd = random.Random(seed)
    cases = [(s, "boundary") for s in fixed]
    for _ in range(n):
        cases.append(E.spell_number(rnd))
    items = []
    for idx, (lit, kind) in enumerate(cases):
        ci = rnd.randrange(len(NUM_CONTEXTS)) if kind != "boundary" else idx
        src, sign = number_context(lit, ci)
        val = P.str_to_number(lit)
        exp = ["number", P.tv(-val if sign < 0 else val)]
        items.append((lit, kind, src, exp))
    # batch: one script returns every value with its typeof
    for i in range(0, len(items), 40):
        chunk = items[i:i + 40]
        script = "[" + ",\n".join("[typeof (%s), (%s)]" % (s, s) for _, _, s, _ in chunk) + "]"
        o = evaluate([script])[0]
        got = None
        if o[0] == "value" and o[1][0] == "a" and len(o[1][1]) == len(chunk):
            got = [[x[1][0][1], x[1][1]] if x[0] == "a" and len(x[1]) == 2 else x for x in o[1][1]]
        for j, (lit, kind, src, exp) in enumerate(chunk):
            acc.count += 1
            acc.cls("number " + kind)
            if kind in ("boundary", "long-mantissa", "hex", "octal", "binary", "exp", "leading-dot", "trailing-dot"):
                acc.nontrivial.append(core.h16("n|" + src))
            if got is not None:
                g = got[j]
            else:
                o1 = evaluate(["var r = (%s); [typeof r, r]" % src])[0]
                g = [o1[1][1][0][1], o1[1][1][1]] if o1[0] == "value" and o1[1][0] == "a" else o1
            if g != exp:
                acc.viol("literal|number|%s|%s" % (kind, _numdiff(exp, g)), {"sub": "number", "literal": lit, "src": src}, exp, g, "literal")
            elif j == 0 and i % 400 == 0:
                acc.samples.append({"sub": "literal", "src": src[:80], "expected": exp, "actual": g})
    return acc.pack()


def _numdiff(exp, g):
    if not (isinstance(g, list) and len(g) == 2 and isinstance(g[1], list)):
        return "outcome %s" % (g[0] if isinstance(g, list) and g else "?")
    if g[0] != "number":
        return "type " + str(g[0])
    if g[1][0] == "bigint":
        return "not a double"
    if g[1][1] in ("Infinity", "NaN", "0", "-0") or exp[1][1] in ("Infinity", "NaN", "0", "-0"):
        return "%s -> %s" % (exp[1][1] if len(exp[1][1]) < 9 else "finite", g[1][1] if len(g[1][1]) < 9 else "finite")
    return "value"


FIXED_STRINGS = [
    "", "a", "'", '"', "\\", "\n", "\r\n", "\t\b\f\v", "\0", "\0a", "a\0b", "\x7f", "\u00a0", "\u2028", "\u2029", "\ufeff", "\U0001f600",
    "line1\nline2", "*/", "/*", "//", "</script>", "${x}", "\\n", "\\\\", "x'y\"z", "e\u0301", "\uffff", "0", "\x01\x02",
]


def task_strings(task):
    acc = Acc()
    seed, n, sw = task
    rnd = random.Random(seed)
    cont = 0.15 if sw["continuation"] else 0
    items = []
    for v in FIXED_STRINGS:
        for _ in range(3):
            items.append(E.spell_string(rnd, v, continuations=cont))
    for _ in range(n):
        items.append(E.spell_string(rnd, None, continuations=cont, maxlen=rnd.choice((1, 3, 8, 20))))
    for i in range(0, len(items), 40):
        chunk = items[i:i + 40]
        script = "[" + ",\n".join(src for _, src, _ in chunk) + "]"
        o = evaluate([script])[0]
        got = None
        if o[0] == "value" and o[1][0] == "a" and len(o[1][1]) == len(chunk):
            got = o[1][1]
        for j, (val, src, forms) in enumerate(chunk):
            acc.count += 1
            for f in sorted(forms):
                acc.cls("string form " + f)
            if forms - {"raw"}:
                acc.nontrivial.append(core.h16("s|" + src))
            if got is not None:
                g = got[j]
            else:
                g = evaluate(["(%s)" % src])[0]
                g = g[1] if g[0] == "value" else g
            exp = ["s", val]
            if g != exp:
                form = _blame_form(val, src, forms)
                acc.viol("literal|string|%s" % form, {"sub": "string", "src": src, "value": val}, exp, g, "literal")
            elif j == 0 and i % 400 == 0:
                acc.samples.append({"sub": "literal", "src": src[:80], "expected": exp, "actual": g})
    return acc.pack()


def _blame_form(val, src, forms):
    """Which spelling form is responsible (re-spell with one form at a time is not possible in general:
    report the rarest form present)."""
    for f in ("continuation", "identity", "nul", "u{}", "u4", "x", "simple", "raw"):
        if f in forms:
            return f
    return "empty"


def run_literals(chk, sw):
    quick = chk.tier == "quick"
    n = 20000 if quick else 200000
    tasks = [(core.shard_seed(chk.seed, "C13", "num", s), BOUNDARY_NUMBERS if s == 0 else [], 500) for s in range(n // 500)]
    merge(chk, pool.run(task_numbers, tasks, timeout=600), "numbers")
    tasks = [(core.shard_seed(chk.seed, "C13", "str", s), 500, sw) for s in range(n // 500)]
    merge(chk, pool.run(task_strings, tasks, timeout=600), "strings")
    if not sw["continuation"]:
        chk.excluded["string.continuation"] += 1


# ----------------------------------------------------------------------------
# sub-campaign 5: rejection
#
# Every mutation operator produces a text that no ECMAScript parser can accept, by construction:
#
#  closer    one closing bracket token ) ] } is replaced by a blank.  Every production of the grammar that
#            contains an opening bracket token contains its closing partner, so the bracket tokens of any
#            derivable token sequence are balanced; the mutant has one closer less than openers.  The mutant's
#            token sequence is the original one minus that token because (1) the closer is replaced by a blank, so
#            its neighbours cannot merge, and (2) no `/` token (division, regex) follows the site, the only tokens
#            whose reading depends on what precedes them.
#  stray     one extra closing bracket token is inserted between two tokens (same argument, one closer too many).
#  quote     the closing quote of a string literal is removed where the rest of the *line* contains neither that
#            quote character nor a backslash: the literal now runs into the line terminator or the end of input,
#            which StringLiteral does not admit (no LineContinuation is possible without a backslash).
#            The same mutant with further lines appended that contain that quote character again (in a comment, in a
#            string of the other quote kind, ...) stays invalid: what follows the line terminator cannot close it.
#  string-break / string-unclosed  (run_reject_strings) a literal built element by element (raw characters and complete
#            escape sequences, so the element before the break never is a lone backslash) with a raw LF, CR or CRLF
#            between two elements, or without its closing quote before the end of the line; the opening quote stands
#            where a token starts, StringLiteral is the only token starting with a quote, and its characters exclude
#            LF and CR except in a LineContinuation (backslash directly before).  Whatever follows - a closing quote on
#            a later line, quotes in comments, other literals - is irrelevant.  U+2028 / U+2029 at the same places are
#            string characters since ES2019: those literals are accepted and contain the character (judged as spellings).
#  comment   a block comment is appended / inserted without its `*/` and no `*/` occurs later in the text: a
#            MultiLineComment needs the terminator.
#  regex     the closing `/` of a regular expression literal is removed where the rest of the line contains no `/`:
#            RegularExpressionLiteral cannot contain a line terminator and cannot end without `/`.
#  target    (tree level) the target of an assignment, compound assignment, ++/-- or for-in/of head is replaced by
#            an expression whose AssignmentTargetType is invalid (a literal, this, a binary / unary / update /
#            call / new / conditional / sequence expression; never an array or object literal, which are patterns,
#            never an arrow function).  Printed parenthesised `(a + b) = 1` the early error applies; printed bare
#            (`a + b = 1`, only for targets where no other derivation exists) the grammar has no production.
#  unary-base-of-**  `-a ** b` (any unary operator): the base of ** must be an UpdateExpression, and `a ** b` is not
#            a UnaryExpression, so neither (-a) ** b nor -(a ** b) is a derivation of the unparenthesised text.
#  bare-in   `for (a || "p" in o; ...; ...)`: the first clause of a three-clause for statement is Expression[~In], which
#            has no production for the `in` operator outside brackets; the other reading, a for-in head, needs a
#            LeftHandSideExpression directly before `in` and `)` after the object expression, but a `;` follows at
#            bracket depth 0.  (Arrow functions are not used: the engine does not carry the restriction into arrow bodies.)
#  ternary   the `:` of a conditional expression is replaced by `;` (a `?` then has no `:` before the expression
#            ends: `;` cannot occur inside an expression outside brackets), or removed where both neighbours are
#            identifiers / numbers of my own pool (two operands in a row on one line).

NONREF = [
    lambda: E.Num(1), lambda: E.Str("s"), lambda: E.This(), lambda: E.Null(), lambda: E.Bool(True),
    lambda: E.Bin("+", E.Id("a"), E.Id("b")), lambda: E.Bin("*", E.Id("a"), E.Num(2)), lambda: E.Call(E.Id("f0"), []),
    lambda: E.Call(E.Mem(E.Id("o"), "p"), [E.Id("a")]), lambda: E.Upd("++", E.Id("a"), False), lambda: E.Upd("--", E.Id("b"), True),
    lambda: E.Seq([E.Id("a"), E.Id("b")]), lambda: E.Un("-", E.Id("a")), lambda: E.Un("typeof", E.Id("a")),
    lambda: E.Cond(E.Id("a"), E.Id("b"), E.Id("c")), lambda: E.New(E.Id("Object"), [], noargs=True), lambda: E.Regex("a", "g"),
    lambda: E.Bin("&&", E.Id("a"), E.Id("b")), lambda: E.Asg("=", E.Id("a"), E.Num(1)),
]
# targets that may also be printed without parentheses (no alternative derivation exists): not sequence,
# conditional, assignment (a, b = 1 / a ? b : c = 1 / a = 1 = 2 are or may be valid)
RAW_OK = {"NumericLiteral", "StringLiteral", "ThisExpression", "NullLiteral", "BooleanLiteral", "BinaryExpression", "LogicalExpression",
          "CallExpression", "UpdateExpression", "UnaryExpression", "NewExpression", "RegexLiteral"}


def _target_sites(node, out):
    if isinstance(node, list):
        for x in node:
            _target_sites(x, out)
    elif isinstance(node, dict):
        t = node.get("type")
        if t == "AssignmentExpression":
            out.append((node, "left", "assign"))
        elif t == "UpdateExpression":
            out.append((node, "argument", "update"))
        elif t in ("ForInStatement", "ForOfStatement") and node["left"]["type"] != "VariableDeclaration":
            out.append((node, "left", "for-in/of"))
        for k, v in node.items():
            if not k.startswith("_"):
                _target_sites(v, out)


def join_lines(toks, nl="\n"):
    """Source with one statement-ish piece per line: a line break after ; { } where allowed."""
    t = toks.toks if isinstance(toks, E.Toks) else toks
    nonl = toks.nonl if isinstance(toks, E.Toks) else set()
    out = []
    prev = None
    depth = 0
    for i, x in enumerate(t):
        if prev is not None:
            if prev in (";", "{", "}") and i not in nonl and depth == 0:
                out.append(nl)
            elif E.need_space(prev, x):
                out.append(" ")
        if x == "(":
            depth += 1
        elif x == ")":
            depth -= 1
        out.append(x)
        prev = x
    return "".join(out)


def _no_slash_after(toks, i):
    return not any(t[0] == "/" for t in toks[i:])


def mutants_from_tokens(rnd, toks, nonl, marks, own):
    """[(kind, mutated source)] from a token list.  own: the tokens come from my printer (identifier pool known)."""
    out = []
    T = list(toks)
    n = len(T)
    nl = rnd.choice(("\n", "\n", "\r\n"))

    def src_of(tokens, nonl_=nonl):
        tk = E.Toks()
        tk.toks = tokens
        tk.nonl = nonl_
        return join_lines(tk, nl)

    def finish(text):
        return text.replace("\x00", " ")

    closers = [i for i, t in enumerate(T) if t in (")", "]", "}") and _no_slash_after(T, i + 1)]
    if closers:
        for i in rnd.sample(closers, min(2, len(closers))):
            # the closer becomes a blank (placeholder token, so that its neighbours cannot merge)
            out.append(("closer " + T[i], finish(src_of(T[:i] + ["\x00"] + T[i + 1:]))))
    gaps = [i for i in range(n + 1) if _no_slash_after(T, i)]
    if gaps:
        i = rnd.choice(gaps)
        c = rnd.choice(")]}")
        out.append(("stray " + c, finish(src_of(T[:i] + ["\x00" + c + "\x00"] + T[i:], {j + 1 if j >= i else j for j in nonl}))))
    full = src_of(T)
    # positions of tokens in `full`
    pos = []
    p = 0
    for t in T:
        p = full.index(t, p)
        pos.append(p)
        p += len(t)
    strs = [i for i, t in enumerate(T) if t[0] in "\"'" and len(t) >= 2]
    rnd.shuffle(strs)
    for i in strs[:3]:
        q = T[i][0]
        end = pos[i] + len(T[i])
        rest = re.split(r"[\n\r]", full[end:], 1)[0]
        if q in rest or "\\" in rest:
            continue
        out.append(("quote " + q, full[:end - 1] + full[end:]))
        out.append(("quote+later-quote " + q, full[:end - 1] + full[end:] + later_quote(rnd, q, nl)))
        break
    regs = [i for i, t in enumerate(T) if E.tok_kind(t) == "regex"]
    rnd.shuffle(regs)
    for i in regs[:2]:
        body_end = pos[i] + T[i].rindex("/")
        rest = re.split(r"[\n\r]", full[body_end + 1:], 1)[0]
        if "/" in rest:
            continue
        out.append(("regex", full[:body_end] + full[body_end + 1:]))
        break
    # unterminated comment at a random gap / at the end
    if "*/" not in full:
        g = rnd.randrange(n + 1)
        cut = pos[g] if g < n else len(full)
        if "*/" not in full[cut:]:
            txt = E.comment_text(rnd, True)
            out.append(("comment", full[:cut] + " /*" + txt + " " + full[cut:]))
        out.append(("comment at end", full + nl + "/* " + E.comment_text(rnd, True)))
    for i in marks.get("cond:", [])[:]:
        if rnd.random() < 0.5:
            m = T[:i] + [";"] + T[i + 1:]
            out.append(("ternary : -> ;", src_of(m)))
        elif own and i > 0 and i + 1 < n and re.match(r"^[a-z]\d?$|^\d+$", T[i - 1]) and re.match(r"^[a-z]\d?$|^\d+$", T[i + 1]) \
                and T[i - 1] not in E.KEYWORDS and T[i + 1] not in E.KEYWORDS:
            m = T[:i] + T[i + 1:]
            out.append(("ternary : removed", src_of(m, {j - 1 if j > i else j for j in nonl} | {i})))
        if len(out) > 12:
            break
    return out


def judge_reject(acc, kind, src, origin):
    acc.count += 1
    acc.cls("reject " + kind.split(" ")[0])
    acc.nontrivial.append(core.h16("x|" + src))
    r = parse(src)
    case = {"sub": "reject", "kind": kind, "src": src, "origin": origin}
    if r[0] == "syntax":
        nlines = len(re.split(r"\r\n|\n|\r", src))
        line = r[2]
        if isinstance(line, int) and line > 0 and not (1 <= line <= nlines + 1):
            acc.viol("reject|position outside the source|%s" % kind.split(" ")[0], case, "1 <= line <= %d" % (nlines + 1), [r[2], r[3], r[1]], "reject")
        return True
    if r[0] == "ok":
        o = evaluate([src])[0]
        if o[0] == "syntax":
            acc.cls("reject: refused by the compiler, not the parser")
            return True
        acc.viol("reject|%s|accepted" % kind, case, "JSSyntaxError", ["accepted", o[:2]], "reject")
        return False
    acc.viol("reject|%s|%s" % (kind, r[1] if len(r) > 1 else r[0]), case, "JSSyntaxError", list(r)[:3], "reject")
    return False


def later_quote(rnd, q, nl):
    """Further lines containing the quote character q an odd number of times outside any literal of kind q."""
    o = "'" if q == '"' else '"'
    return nl + rnd.choice((
        "// say %shi" % q, "/* the 5.25%s disk */" % q, "var t_ = %sit%ss%s;" % (o, q, o), "var r_ = /%s/;" % q,
        "// %s%s%s" % (q, nl, "var t_ = %sdef%s;" % (q, q)), "var t_ = 1; // %s %s %s" % (q, o, q),
    )) + rnd.choice(("", nl, nl + "t_"))


# string literals broken by a raw line terminator / left open on their line, with every quote parity afterwards

LT_NAMES = {"\n": "LF", "\r": "CR", "\r\n": "CRLF", "\u2028": "LS", "\u2029": "PS"}
STR_PREFIXES = [("var s = ", ";"), ("", ";"), ("", ""), ("x = [", "];"), ("f(", ");"), ("var o = {k: ", "};"), ("s = %(o)sz%(o)s + ", ";"),
                ("var z = %(q)sok%(q)s;%(nl)svar s = ", ";"), ("/* %(o)s */ s = ", ";"), ("if (a) { s = ", "; }")]
# (text after the statement, number of q characters in it, starts on the same line)
STR_TAILS = [
    ("", 0), (" // say %(q)shi", 1), ("%(nl)s// don%(q)st", 1), ("%(nl)s/* the 5.25%(q)s disk */", 1), ("%(nl)svar t = %(o)sit%(q)ss%(o)s;", 1),
    ("%(nl)svar t = %(q)sdef%(q)s;", 2), ("%(nl)svar r = /%(q)s/;", 1), ("%(nl)svar t = %(q)sa\\%(q)sb%(q)s;", 3),
    ("%(nl)svar t = 1; // %(q)s%(nl)svar u = 2; /* %(q)s */", 2), ("%(nl)st = %(q)s%(q)s + %(q)s%(q)s;", 4),
    ("%(nl)s// %(q)s%(nl)svar t = %(q)sdef%(q)s;", 3), ("%(nl)svar hi = 1;%(nl)s// say %(q)shi%(nl)svar t = 2;%(nl)shi", 1),
    ("%(nl)s%(q)s", 1), ("%(nl)s%(q)s;", 1), (" %(q)s", 1),
]
_PLAIN = list("abcXYZ019 _-+*=<>()[]{};:,.?!#@$") + ["é", "€"]
_ESCV = _PLAIN + ["\\", "\n", "\r", "\t", "\0", "'", '"', "\u2028", "\U0001f600", "n", "u", "x"]


def string_pieces(rnd, q, mode, cont):
    """[(source text, value)] of the elements of a string literal body; every element is a raw character other
    than the quote, the backslash and the line terminators, a complete escape sequence or (cont) a line continuation."""
    o = "'" if q == '"' else '"'
    n = rnd.choice((0, 1, 1, 2, 3, 4, 6))
    out = []
    if mode == "plain":
        return [(c, c) for c in (rnd.choice(_PLAIN) for _ in range(n))]
    if mode == "lookalike":
        return [(c, c) for c in (rnd.choice((o, o, "//", "/*", "*/", "/", "a", " ", "${", "`")) for _ in range(max(n, 1)))]
    vals = [rnd.choice(_ESCV) for _ in range(max(n, 1))]
    for i, ch in enumerate(vals):
        s, f = E.spell_char(rnd, ch, q, vals[i + 1] if i + 1 < len(vals) else None)
        if out and out[-1][0] == "\\0" and s[:1].isdigit():
            s = "\\x%02x" % ord(ch)
        if "\u2028" in s or "\u2029" in s:
            s = "\\u2028"
            ch = "\u2028"
        out.append((s, ch))
    if not any(s.startswith("\\") for s, _ in out):
        out[rnd.randrange(len(out))] = ("\\x41", "A")
    if cont and rnd.random() < 0.3:
        out.insert(rnd.randrange(len(out) + 1), (rnd.choice(("\\\n", "\\\r\n", "\\\r")), ""))
    return out


def task_reject_strings(task):
    acc = Acc()
    seed, sw = task
    rnd = random.Random(seed)
    for q in "'\"":
        o = "'" if q == '"' else '"'
        for lt in ("\n", "\r", "\r\n"):
            for mode in ("plain", "escapes", "lookalike"):
                for ti, (tail, nq) in enumerate(STR_TAILS):
                    nl = rnd.choice(("\n", "\n", "\r\n", lt))
                    env = {"q": q, "o": o, "nl": nl}
                    pieces = string_pieces(rnd, q, mode, sw["continuation"])
                    body = [s for s, _ in pieces]
                    pre, clo = rnd.choice(STR_PREFIXES[:3] if rnd.random() < 0.5 else STR_PREFIXES)
                    pre, tl = pre % env, tail % env
                    # a literal broken across lines, at every element boundary
                    for p in range(len(body) + 1):
                        if p and body[p - 1].endswith("\r") and lt == "\n":
                            continue  # backslash CR + LF is one line continuation
                        src = pre + q + "".join(body[:p]) + lt + "".join(body[p:]) + q + clo + tl
                        judge_reject(acc, "string-break %s" % LT_NAMES[lt], src, "string %s, tail %d (%d later quotes)" % (mode, ti, nq))
                        acc.cls("reject string-break: later quotes " + ("even" if nq % 2 == 0 else "odd"))
                    # a literal left open on its line (the rest of the line has no quote of that kind, no backslash)
                    if not tail.startswith(" "):
                        rest = rnd.choice((clo, clo, "", " + 1;", ")", " // c", " /* c */"))
                        if not rest and body and body[-1].endswith("\r") and lt == "\n":
                            rest = clo or ";"  # backslash CR + LF would be one line continuation
                        tl2 = tl[len(nl):] if tl.startswith(nl) else tl
                        src = pre + q + "".join(body) + rest + lt + tl2
                        judge_reject(acc, "string-unclosed %s" % LT_NAMES[lt], src, "string %s, tail %d (%d later quotes)" % (mode, ti, nq))
                        acc.cls("reject string-unclosed: later quotes " + ("odd" if nq % 2 == 0 else "even"))
        # U+2028 / U+2029 are string characters (ES2019): same value as the escaped spelling
        for lt in ("\u2028", "\u2029"):
            for mode in ("plain", "escapes", "lookalike"):
                pieces = string_pieces(rnd, q, mode, sw["continuation"])
                for p in range(len(pieces) + 1):
                    src = q + "".join(s for s, _ in pieces[:p]) + lt + "".join(s for s, _ in pieces[p:]) + q
                    val = "".join(v for _, v in pieces[:p]) + lt + "".join(v for _, v in pieces[p:])
                    acc.count += 1
                    acc.cls("string raw %s between elements" % LT_NAMES[lt])
                    acc.nontrivial.append(core.h16("s|" + src))
                    g = evaluate(["(%s)" % src])[0]
                    g = g[1] if g[0] == "value" else g
                    if g != ["s", val]:
                        acc.viol("literal|string|raw %s" % LT_NAMES[lt], {"sub": "string", "src": src, "value": val}, ["s", val], g, "literal")
    return acc.pack()


def run_reject_strings(chk, sw):
    n = 3 if chk.tier == "quick" else 48
    tasks = [(core.shard_seed(chk.seed, "C13", "reject-strings", s), sw) for s in range(n)]
    merge(chk, pool.run(task_reject_strings, tasks, timeout=600), "reject-strings")


SEED_PROGRAMS = [
    "var r = /ab+c/", "var r = /ab+c/g", "x = /[a-z]+/.test(s)", "var s = \"abc\"", "var s = 'abc'", "x = [1, 2]", "f(1, 2)", "x = {a: 1}",
    "if (a) { b = 1 }", "x = (1 + 2)", "x = a ? b : c", "function g() { return 1 }", "x = 'a' + \"b\"", "/* c */ x = 1", "x = a[0]",
    "while (0) { }", "x = function () { }", "x = [[1], [2]]", "x = ((1))", "switch (a) { case 1: break }", "try { } catch (e) { }",
]


def task_reject(task):
    acc = Acc()
    seed, n, corpus_items = task
    rnd = random.Random(seed)
    for k in range(n):
        pr = E.ProgGen(rnd, size=rnd.choice((2, 4, 8))).program()
        if k % 4 == 3:
            g = E.ExprGen(rnd)
            pr = E.Prog([E.ExprStmt(g.expr(rnd.choice((2, 3, 4)))), E.ExprStmt(E.Asg("=", E.Id("a"), E.Cond(E.Id("b"), E.Num(1), E.Id("c"))))])
        p = E.Printer(mode="min", quote=rnd.choice("'\""))
        toks = p.program(pr)
        base = join_lines(toks)
        rb = parse(base)
        if rb[0] != "ok":
            acc.cls("reject: base program not accepted (judged by layout / prec)")
            continue
        for kind, src in mutants_from_tokens(rnd, toks.toks, toks.nonl, toks.marks, True):
            ok = judge_reject(acc, kind, src, "generated")
            if ok and k % 60 == 0 and len(acc.samples) < 4:
                acc.samples.append({"sub": "reject", "kind": kind, "src": src[-160:], "result": "JSSyntaxError"})
        # tree-level: a unary expression as the base of ** (ExponentiationExpression : UpdateExpression ** ...;
        # `-a ** b` has no derivation: the operand of a unary operator is a UnaryExpression, which `a ** b` is not)
        if k % 5 == 0:
            op = rnd.choice(E.UNOPS)
            base = E.Un(op, E.Mem(E.Id("o"), "p") if op == "delete" else rnd.choice((E.Id("a"), E.Num(2), E.Mem(E.Id("o"), "p"))))
            ex = E.Bin("**", base, rnd.choice((E.Id("b"), E.Num(2), E.Un("-", E.Num(1)))))
            ex = rnd.choice((ex, E.Bin("+", E.Num(1), ex), E.Bin("*", ex, E.Id("b")), E.Asg("=", E.Id("a"), ex), E.Bin("**", E.Num(2), ex)))
            pp = E.Printer(mode="min", raw_exp_base=True)
            pp.program(E.Prog(pr["body"][:1] + [E.ExprStmt(ex)]))
            judge_reject(acc, "unary-base-of-** " + op, join_lines(pp.o), "generated")
        # tree-level: a bare `in` in the first clause of a three-clause for statement
        if k % 5 == 1:
            IN = E.Bin("in", E.Str("p"), E.Id("o"))
            init = rnd.choice((
                IN, E.Bin("||", E.Id("a"), IN), E.Bin("&&", IN, E.Id("b")), E.Asg("=", E.Id("a"), IN), E.Cond(E.Id("a"), E.Id("b"), IN),
                E.Seq([E.Id("a"), IN]), E.Bin("==", IN, E.Id("c")), E.Bin("|", E.Num(1), IN),
                E.Asg("+=", E.Id("b"), E.Bin("||", E.Id("a"), IN)), E.Cond(IN, E.Id("a"), E.Id("b")),
            ))
            loop = E.For(init, rnd.choice((E.Bool(False), None, E.Bin("<", E.Id("a"), E.Num(0)))), rnd.choice((None, E.Upd("++", E.Id("a"), False))),
                         rnd.choice((E.Empty(), E.Block([E.Break()]))))
            pp = E.Printer(mode="min", quote='"', raw_noin=True)
            pp.program(E.Prog(pr["body"][:1] + [loop]))
            judge_reject(acc, "bare-in-in-for-init " + _short(init), join_lines(pp.o), "generated")
        # tree-level: non-reference targets
        sites = []
        _target_sites(pr, sites)
        rnd.shuffle(sites)
        for node, key, what in sites[:3]:
            rep = rnd.choice(NONREF)()
            old = node[key]
            node[key] = rep
            try:
                for raw in ((False, True) if (what == "assign" and rep["type"] in RAW_OK) else (False,)):
                    pp = E.Printer(mode="min", quote='"', raw_targets=raw)
                    src = join_lines(pp.program(pr))
                    judge_reject(acc, "target %s %s%s" % (what, _short(rep), " bare" if raw else ""), src, "generated")
            finally:
                node[key] = old
    for s in (SEED_PROGRAMS if seed % 4 == 0 else []):
        try:
            tk = E.tokenize(s)
        except E.TokenizeError:
            continue
        texts = [t.text for t in tk]
        marks = {"cond:": [i for i, t in enumerate(texts) if t == ":" and "?" in texts[:i] and "case" not in texts and "{" not in texts[:i]]}
        for kind, src in mutants_from_tokens(rnd, texts, set(), marks, False):
            judge_reject(acc, kind, src.rstrip("\n") if rnd.random() < 0.5 else src, "seed program")
    for src0, origin in corpus_items:
        try:
            tk = E.tokenize(src0)
        except (E.TokenizeError, IndexError):
            continue
        if not tk or parse(src0)[0] != "ok":
            continue
        # bracket tokens balanced in my tokenization?
        st = []
        bal = True
        for t in tk:
            if t.kind == "punct" and t.text in "([{":
                st.append(t.text)
            elif t.kind == "punct" and t.text in ")]}":
                if not st or "([{".index(st.pop()) != ")]}".index(t.text):
                    bal = False
                    break
        if not bal or st:
            continue
        last_slash = max([i for i, t in enumerate(tk) if t.text[0] == "/"] or [-1])
        cl = [i for i, t in enumerate(tk) if t.kind == "punct" and t.text in ")]}" and i > last_slash]
        if cl:
            i = rnd.choice(cl)
            t = tk[i]
            judge_reject(acc, "closer " + t.text, src0[:t.start] + " " + src0[t.end:], origin)
        gaps = [i for i in range(len(tk)) if i > last_slash]
        if gaps:
            i = rnd.choice(gaps)
            c = rnd.choice(")]}")
            judge_reject(acc, "stray " + c, src0[:tk[i].end] + " " + c + " " + src0[tk[i].end:], origin)
        ss = [t for t in tk if t.kind == "str" and len(t.text) >= 2]
        rnd.shuffle(ss)
        for t in ss[:4]:
            rest = re.split(r"[\n\r]", src0[t.end:], 1)[0]
            if t.text[0] in rest or "\\" in rest:
                continue
            judge_reject(acc, "quote " + t.text[0], src0[:t.end - 1] + src0[t.end:], origin)
            judge_reject(acc, "quote+later-quote " + t.text[0], src0[:t.end - 1] + src0[t.end:] + later_quote(rnd, t.text[0], "\n"), origin)
            break
        rs = [t for t in tk if t.kind == "regex"]
        rnd.shuffle(rs)
        for t in rs[:3]:
            be = t.start + t.text.rindex("/")
            rest = re.split(r"[\n\r]", src0[be + 1:], 1)[0]
            if "/" in rest:
                continue
            judge_reject(acc, "regex", src0[:be] + src0[be + 1:], origin)
            break
        judge_reject(acc, "comment at end", src0 + "\n/* " + E.comment_text(rnd, True), origin)
    return acc.pack()


def run_reject(chk):
    quick = chk.tier == "quick"
    n = 1600 if quick else 30000
    corpus = load_corpus()
    rnd = random.Random(core.shard_seed(chk.seed, "C13", "reject-corpus"))
    rnd.shuffle(corpus)
    per = 40
    ntasks = n // per
    cper = max(1, len(corpus) // ntasks) if not quick else 6
    tasks = []
    for s in range(ntasks):
        tasks.append((core.shard_seed(chk.seed, "C13", "reject", s), per, corpus[(s * cper) % len(corpus):(s * cper) % len(corpus) + cper]))
    merge(chk, pool.run(task_reject, tasks, timeout=600), "reject")


# ----------------------------------------------------------------------------
# replay


def replay(rec):
    case = rec["case"]
    sub = case.get("sub")
    if sub == "prec":
        toks, path = E.print_expr(case["tree"], case["mode"], case["ctx"])
        src = E.join_min(toks)
        r = parse(src)
        if r[0] != "ok":
            return {"fails": True, "expected": "accepted and parsed to the printed tree", "actual": list(r)[:4], "src": src}
        got = E.get_path(r[1], path)
        return {"fails": not E.tree_eq(got, E.strip(case["tree"])), "expected": "the printed tree", "actual": E.first_diff(E.strip(case["tree"]), got), "src": src}
    if sub == "prec-eval":
        o1 = evaluate([PRELUDE, case["src_min"], STATE])
        o2 = evaluate([PRELUDE, case["src_full"], STATE])
        return {"fails": o1 != o2, "expected": o2[1:], "actual": o1[1:]}
    if sub == "layout":
        rb, rv = parse(case["base"]), parse(case["variant"])
        if rb[0] != "ok" or rv[0] != "ok":
            return {"fails": True, "expected": list(rb)[:2] if rb[0] != "ok" else "accepted", "actual": list(rv)[:4] if rv[0] != "ok" else "accepted"}
        if not E.tree_eq(rb[1], rv[1]):
            return {"fails": True, "expected": "same tree", "actual": E.first_diff(rb[1], rv[1])}
        pre = [case["prelude"]] if case.get("prelude") else []
        ob, ov = evaluate(pre + [case["base"]]), evaluate(pre + [case["variant"]])
        return {"fails": ob != ov and not has_timeout(ob) and not has_timeout(ov), "expected": ob[-1], "actual": ov[-1]}
    if sub == "gen-tree":
        r = parse(case["src"])
        if r[0] != "ok":
            return {"fails": True, "expected": "accepted", "actual": list(r)[:4]}
        same = E.tree_eq(r[1], case["tree"])
        return {"fails": not same, "expected": {"parses_to": "the generated tree"}, "actual": "same tree" if same else {"difference": E.first_diff(r[1], case["tree"])}}
    if sub == "parse-ok":
        r = parse(case["src"])
        return {"fails": r[0] != "ok", "expected": "accepted", "actual": list(r)[:4] if r[0] != "ok" else "accepted"}
    if sub == "round":
        acc = Acc()
        ok = roundtrip(acc, case["src"], "replay")
        v = acc.violations[0] if acc.violations else None
        return {"fails": ok is False, "expected": v[2] if v else "same tree", "actual": v[3] if v else "same tree"}
    if sub == "number":
        val = P.str_to_number(case["literal"])
        exp = ["number", P.tv(-val if case["src"].startswith("-") else val)]
        o1 = evaluate(["var r = (%s); [typeof r, r]" % case["src"]])[0]
        g = [o1[1][1][0][1], o1[1][1][1]] if o1[0] == "value" and o1[1][0] == "a" else o1
        return {"fails": g != exp, "expected": exp, "actual": g}
    if sub == "string":
        g = evaluate(["(%s)" % case["src"]])[0]
        g = g[1] if g[0] == "value" else g
        return {"fails": g != ["s", case["value"]], "expected": ["s", case["value"]], "actual": g}
    if sub == "reject":
        acc = Acc()
        ok = judge_reject(acc, case.get("kind", "?"), case["src"], "replay")
        v = acc.violations[0] if acc.violations else None
        return {"fails": bool(acc.violations), "expected": "JSSyntaxError", "actual": v[3] if v else "JSSyntaxError"}
    raise engine.HarnessError("C13 replay: unknown sub %r" % sub)


# ----------------------------------------------------------------------------


def main(chk):
    chk.rule = (
        "prec: distinct (context, minimal rendering) of trees with >= 2 operators, i.e. at least one decision "
        "parenthesis / no parenthesis between two operators; layout: distinct renderings with >= 3 trivia runs including "
        "a comment and a line break, or with redundant parentheses; round: corpus programs whose printed tree was "
        "compared; literal: distinct spellings other than plain decimal integers / all-raw strings; reject: distinct "
        "mutants (each differs from a valid program in one token or one target)"
    )
    chk.assumptions = [
        "gens/exprs.py implements the ECMAScript expression grammar (validated against node 20 at development time: "
        "oracle_validation/c13_printer.json, c13_reject.json, c13_literals.json)",
        "Parser(src).parse().to_dict() exposes the whole tree except locations",
        "oracles.prims.str_to_number is correctly rounded (Python float())",
    ]
    sw = {"lone_cr": True, "vt_ff": True, "continuation": True}
    for path, rec in core.saved_replays("C13"):
        r = replay(rec)
        chk.count()
        known = None
        for e in chk.findings:
            if e.get("status") == "known" and e.get("repro") and os.path.basename(e["repro"]) == os.path.basename(path):
                known = e
        if known is not None:
            if r["fails"]:
                chk.known_hit(known["id"])
                g = GUARD_NAMES.get(known.get("guard"))
                if g:
                    sw[g] = False
            continue
        if r["fails"]:
            chk.violation("saved-replay|" + os.path.basename(path), rec.get("case"), r.get("expected"), r.get("actual"), sub="replay")
    chk.extra["switches"] = dict(sw)
    import time

    for name, fn in (("prec", lambda: run_prec(chk)), ("layout+round", lambda: run_layout(chk, sw)),
                     ("literal", lambda: run_literals(chk, sw)), ("reject", lambda: run_reject(chk)), ("reject-strings", lambda: run_reject_strings(chk, sw))):
        t0 = time.time()  # reporting only, never part of a verdict
        fn()
        chk.extra["wall_s " + name] = round(time.time() - t0, 1)
    chk.exhaustive = False
