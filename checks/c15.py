"""C15 - evaluation is deterministic and independent of host hash randomisation.

Closure-heavy generated programs (many locals, parameters, captured and
pass-through variables in varying textual orders, named function expressions,
arguments, shadowing) and the whole program corpus are evaluated on fresh
contexts
  * in one subprocess per PYTHONHASHSEED value (>= 16),
  * in different orders within one process (forward, reversed, seeded shuffles),
  * after a "polluting" context mutated built-ins in the same process,
  * twice in a row,
  * each alone in a forked process that evaluated nothing before it ("isolated": the stand-alone outcome;
    quick tier: all but the corpus).
Round 5 adds three generated families (see the section before run_config): keykind (computed property keys of
every primitive kind on objects / arrays / strings: a process-wide cache keyed by the host value of a key makes
programs depend on what ran earlier), shadow (functions / function expressions / arrows whose body declares a var
with their own name, `arguments` or a parameter's name next to 3-8 randomly named vars: slot numbering by set
iteration) and errtext (the text of engine errors - RegExp flags and patterns, reference / type / syntax / JSON
errors - seen through e.message, an uncaught error, log, and microjs.regex.RegExp directly).
Oracle: all outcome vectors (value / error class+message / log) are identical.
A second, self-checking part: every generated program carries the value it
must compute (the generator evaluates its own arithmetic), so "the same wrong
answer everywhere" does not pass.
"""
import json
import os
import re
import random
import shutil
import subprocess
import sys

from vf import core, engine

HERE = os.path.dirname(os.path.abspath(__file__))
RUNNER = os.path.join(HERE, "c15_runner.py")
CORPUS = os.path.join(core.ROOT, "corpus", "corpus.json")
WORDS = ["a%d" % i for i in range(30)] + ["alpha", "b", "zeta9", "k", "omega", "v1", "tmp", "acc", "n", "idx", "total", "x", "yy", "q7", "left", "right", "m", "res", "item", "w", "delta", "s0", "c", "u2"]


# (literal, subject, expected test() result): each needs well over 100 matcher steps
REGEX_POOL = [
    ("/(a+)+b/", "aaaaaaaaac", 0), ("/(x|xx)+y/", "xxxxxxxxxxxz", 0), ("/^(\\w+\\s?)+$/", "ab cd ef gh ij!", 0),
    ("/(a*)*b/", "aaaaaaaab", 1), ("/(?:a|b)*c/", "abababababababababc", 1), ("/(\\d+)+x/", "1234567890y", 0),
]


class Gen:
    """Closure-heavy programs whose result is known by construction."""

    def __init__(self, rnd):
        self.r = rnd
        self.used = set()

    def names(self, k):
        pool = [w for w in WORDS if w not in self.used]
        self.r.shuffle(pool)
        out = pool[:k]
        self.used.update(out)
        return out

    def program(self):
        r = self.r
        self.used = set()
        n_params = r.randint(3, 5)
        n_locals = r.randint(3, 6)
        params = self.names(n_params)
        locs = self.names(n_locals)
        env = {}
        args = [r.randint(1, 9) for _ in params]
        for p, a in zip(params, args):
            env[p] = a
        lines = []
        decl_order = list(locs)
        r.shuffle(decl_order)
        for l in decl_order:
            a, b = r.choice(list(env)), r.choice(list(env))
            k = r.randint(1, 5)
            lines.append("var %s = %s * %d + %s;" % (l, a, k, b))
            env[l] = env[a] * k + env[b]
        # inner closures capturing several outer names, in different textual orders
        inner_vals = []
        inner_names = self.names(r.randint(2, 3))
        for fn in inner_names:
            cap = r.sample(list(env), min(len(env), r.randint(3, 5)))
            ip = self.names(2)
            form = r.choice(["decl", "expr", "named-expr", "arrow"])
            own = self.names(1)[0]
            body_expr = " + ".join(cap) + " + %s * 2 + %s" % (ip[0], own)
            ia = [r.randint(1, 5), r.randint(1, 5)]
            own_k = r.randint(1, 9)
            val = sum(env[c] for c in cap) + ia[0] * 2 + own_k
            # a pass-through level: middle function that does not itself use the captured names
            mid = self.names(1)[0]
            inner = "function(%s, %s){ var %s = %d; return %s; }" % (ip[0], ip[1], own, own_k, body_expr)
            if form == "decl":
                lines.append("function %s(%s, %s){ var %s = %d; var %s = function(){ return %s; }; return %s(); }" % (fn, ip[0], ip[1], own, own_k, mid, body_expr, mid))
            elif form == "expr":
                lines.append("var %s = %s;" % (fn, inner))
            elif form == "named-expr":
                lines.append("var %s = function %s_self(%s, %s){ var %s = %d; if (%s > 100) return %s_self(0, 0); return %s; };" % (fn, fn, ip[0], ip[1], own, own_k, ip[0], fn, body_expr))
            else:
                lines.append("var %s = (%s, %s) => { var %s = %d; return %s; };" % (fn, ip[0], ip[1], own, own_k, body_expr))
            inner_vals.append(("%s(%d, %d)" % (fn, ia[0], ia[1]), val))
        # mutation through a closure, shared cell
        ctr = self.names(1)[0]
        lines.append("var %s = 0; var bump = function(){ %s = %s + 1; return %s; }; bump(); bump();" % (ctr, ctr, ctr, ctr))
        env[ctr] = 2
        # shadowing + arguments
        sh = r.choice(params)
        lines.append("var shadow = function(%s){ return %s + arguments.length; };" % (sh, sh))
        inner_vals.append(("shadow(40, 1, 1)", 43))
        inner_vals.append((ctr, 2))
        order = list(range(len(inner_vals)))
        r.shuffle(order)
        ret = "[" + ", ".join(inner_vals[i][0] for i in order) + "]"
        expected = [inner_vals[i][1] for i in order]
        # functions whose body re-declares their own name next to other locals (slot order of the
        # name is decided by the compiler's scope analysis)
        selfn = self.names(1)[0]
        o1, o2 = self.names(2)
        kind = r.choice(["var-own-name", "inner-function-own-name", "param-own-name"])
        if kind == "var-own-name":
            lines.append("function %s(){ var %s = 1; var t0 = typeof %s; var %s; var %s = 2; return t0 + ':' + (%s + %s); }" % (selfn, o1, selfn, selfn, o2, o1, o2))
            inner_vals.append(("%s()" % selfn, "undefined:3"))  # (var X inside function X hides the function: ES)
        elif kind == "inner-function-own-name":
            lines.append("function %s(lvl_){ var %s = 5; if (lvl_ > 0) { return %s(lvl_ - 1) + 1; } function %s_in(){ return %s; } var %s = 7; return %s_in() + %s; }" % (selfn, o1, selfn, selfn, o1, o2, selfn, o2))
            inner_vals.append(("%s(2)" % selfn, 14))
        else:
            lines.append("function %s(%s){ var %s = %s + 1; var %s = typeof %s; return %s + ':' + %s; }" % (selfn, o1, o2, o1, selfn + "_t", selfn, selfn + "_t", o2))
            inner_vals.append(("%s(4)" % selfn, "function:5"))
        # a function all of whose captured locals are captured by one inner function (and nothing else):
        # the inner closure's free variables are exactly the parent's cell variables, in whatever order
        for _rep in range(2):
            fn2 = self.names(1)[0]
            vs = self.names(r.randint(2, 4))
            vals = r.sample(range(1, 10), len(vs))
            pw = [10 ** i for i in range(len(vs))]
            decl_order2 = list(zip(vs, vals))
            r.shuffle(decl_order2)
            use_order = list(zip(vs, pw))
            r.shuffle(use_order)
            form2 = r.choice(["function", "arrow"])
            body2 = " + ".join("%s * %d" % (v, w) for v, w in use_order)
            inner2 = ("function(){ return %s; }" % body2) if form2 == "function" else ("() => %s" % body2)
            # a sibling closure that captures a subset first, in another order: the parent's capture set and the
            # capture-all closure's own free-variable set are then built in different insertion orders
            sub = list(vs)
            r.shuffle(sub)
            sub = sub[: max(1, len(sub) - 1)]
            sib = "var in1 = function(){ return %s; };" % " + ".join(reversed(sub))
            lines.append("var %s = function(){ %s %s var in2 = %s; %s = %s + 0; return in2() + in1() * 0; };" % (
                fn2, " ".join("var %s = %d;" % (v, x) for v, x in decl_order2), sib, inner2, vs[0], vs[0]))
            inner_vals.append(("%s()" % fn2, sum(x * w for (v, x), w in zip(zip(vs, vals), pw))))
        # regex literals from a small shared pool (the same literal appears in many programs of the batch)
        rx = r.choice(REGEX_POOL)
        inner_vals.append(("(%s.test('%s') ? 1 : 0)" % (rx[0], rx[1]), rx[2]))
        order = list(range(len(inner_vals)))
        r.shuffle(order)
        ret = "[" + ", ".join(inner_vals[i][0] for i in order) + "]"
        expected = [inner_vals[i][1] for i in order]
        mutate = ""
        if r.random() < 0.25:
            mutate = " Math.zzq = 1; Object.prototype.zzq = 2; var leak = 3; JSON.zzq = 4; Math.PI2 = 1;"
        src = "var outer = function(%s){ %s return %s; };%s outer(%s)" % (", ".join(params), " ".join(lines), ret, mutate, ", ".join(map(str, args)))
        meta = {"params": len(params), "locals": len(locs) + 2, "closures": len(inner_names) + 2}
        return src, expected, meta


# =============================================================================================
# C15 round-5 program families (generators with their expected values).
#
# keykind  - computed property keys of every primitive kind (true, false, 0, 1, 1.0, -0, '1', null,
#            undefined, NaN, computed booleans ...) on objects, arrays and strings.  Expected values come
#            from ToPropertyKey = ToString(key) (validated against node, oracle_validation/c15_families.json).
#            Purpose: a process-wide cache keyed by the *host* value of a key (True == 1, False == 0,
#            1.0 == 1, -0.0 == 0) makes a program's result depend on what ran earlier in the process.
# shadow   - functions / function expressions / arrows (also bound to a name N) whose body declares
#            `var N`, `var arguments`, a var named like a parameter, next to 3-8 randomly named vars, and
#            reads all of them before assigning.  Purpose: slot numbering that comes from set iteration.
# errtext  - programs that observe the text of engine errors (e.message, uncaught message, log):
#            RegExp construction with unknown / repeated flags, and every other error the generator can
#            provoke that could mention several names.  No expected text: only determinism is judged.
# All randomness comes from the random.Random handed in.
LETTERS = "abcdefghijklmnopqrstuvwxyz"
RESERVED = set(
    "do if in of for let new try var get set case else enum eval null this true void with await break catch class const false super throw "
    "while yield delete export import public return static switch typeof default extends finally package private continue debugger function "
    "arguments interface protected implements instanceof undefined log leak console outer out shadow bump".split()
)
T_HELPER = "function T(x){ var t = typeof x; return (t === 'function' || t === 'object') ? (x === null ? 'null' : t) : t + ':' + x; }"


def fresh_names(r, k, taken):
    out = []
    while len(out) < k:
        n = r.choice(LETTERS) + "".join(r.choice(LETTERS + "0123456789_$") for _ in range(r.choice([0, 1, 1, 2, 3, 5, 8])))
        if n in RESERVED or n in taken:
            continue
        taken.add(n)
        out.append(n)
    return out


# ---------------------------------------------------------------------------------------------
# keykind

# (source text of the key expression, ToString(key))
KEYS = [
    ("true", "true"), ("false", "false"), ("0", "0"), ("1", "1"), ("1.0", "1"), ("-0", "0"), ("'1'", "1"), ("null", "null"),
    ("undefined", "undefined"), ("NaN", "NaN"),
    ("(2 > 1)", "true"), ("(1 > 2)", "false"), ("!0", "true"), ("!1", "false"), ("2", "2"), ("'0'", "0"), ("'true'", "true"), ("'false'", "false"),
    ("1.5", "1.5"), ("-1", "-1"), ("'01'", "01"), ("0.0", "0"), ("(0 * -1)", "0"), ("2.0", "2"), ("(1 === 1)", "true"), ("'null'", "null"),
    ("(0 / 0)", "NaN"), ("void 0", "undefined"), ("'2'", "2"), ("1e0", "1"),
]
PRIMARY = 10  # the first ten are drawn more often


def _pick_keys(r, k):
    out = []
    for _ in range(k):
        out.append(KEYS[r.randrange(PRIMARY)] if r.random() < 0.7 else r.choice(KEYS))
    return out


def _tstr(v):
    """T(v) for the model values used here: None = undefined, int, str."""
    if v is None:
        return "undefined:undefined"
    if isinstance(v, int):
        return "number:%d" % v
    return "string:%s" % v


def _keyexpr(r, k, decls):
    """The key as a literal, or through a variable (the VM then sees a value, not a constant)."""
    if r.random() < 0.3:
        v = "k%d" % len(decls)
        decls.append("var %s = %s;" % (v, k[0]))
        return v
    return k[0]


def keykind_program(r):
    """-> (source, expected list of strings, meta)"""
    cont = r.choice(["object", "object", "array", "string", "mixed"])
    decls, stmts, reads, exp = [], [], [], []
    used = set()
    flavour = r.choice(["bool-only", "int-only", "any", "any", "any"])

    def keys(k):
        ks = _pick_keys(r, k)
        if flavour == "bool-only":
            ks = [x for x in ks if x[1] in ("true", "false")] or [KEYS[r.randrange(2)]]
        elif flavour == "int-only":
            ks = [x for x in ks if x[0] in ("0", "1", "2")] or [KEYS[2 + r.randrange(2)]]
        for x in ks:
            used.add(x[0])
        return ks

    if cont in ("object", "mixed"):
        model = {}
        if r.random() < 0.3:
            lit = keys(r.randint(1, 3))
            parts = []
            for j, k in enumerate(lit):
                parts.append("[%s]: 'L%d'" % (k[0], j))
                model[k[1]] = "L%d" % j
            stmts.append("var o = {%s};" % ", ".join(parts))
        else:
            stmts.append("var o = {};")
        for j, k in enumerate(keys(r.randint(2, 6))):
            op = r.random()
            if op < 0.75:
                stmts.append("o[%s] = 'v%d';" % (_keyexpr(r, k, decls), j))
                model[k[1]] = "v%d" % j
            elif op < 0.87:
                stmts.append("delete o[%s];" % _keyexpr(r, k, decls))
                model.pop(k[1], None)
            else:
                stmts.append("o[%s] = o[%s] + '+';" % (_keyexpr(r, k, decls), k[0]))
                model[k[1]] = (model[k[1]] if k[1] in model else "undefined") + "+"
        for k in keys(r.randint(3, 6)):
            form = r.random()
            if form < 0.6:
                reads.append("T(o[%s])" % _keyexpr(r, k, decls))
                exp.append(_tstr(model.get(k[1])))
            elif form < 0.8:
                reads.append("String((%s) in o)" % _keyexpr(r, k, decls))
                exp.append("true" if k[1] in model else "false")
            else:
                reads.append("String(o.hasOwnProperty(%s))" % _keyexpr(r, k, decls))
                exp.append("true" if k[1] in model else "false")
        reads.append("Object.keys(o).sort().join('|')")
        exp.append("|".join(sorted(model)))  # code-unit order: all keys here are ASCII
    if cont in ("array", "mixed"):
        arr = [10, 20, 30]
        extra = {}
        stmts.append("var a = [10, 20, 30];")
        for j, k in enumerate(keys(r.randint(0, 3))):
            if k[1] in ("NaN", "1.5"):
                continue  # the engine refuses to store under a non-integer number on an array (not this property's business)
            stmts.append("a[%s] = %d;" % (_keyexpr(r, k, decls), 40 + j))
            if k[1] in ("0", "1", "2"):
                arr[int(k[1])] = 40 + j
            else:
                extra[k[1]] = 40 + j
        for k in keys(r.randint(3, 6)):
            form = r.random()
            present = k[1] in ("0", "1", "2") or k[1] in extra
            val = arr[int(k[1])] if k[1] in ("0", "1", "2") else extra.get(k[1])
            if form < 0.7:
                reads.append("T(a[%s])" % _keyexpr(r, k, decls))
                exp.append(_tstr(val))
            elif form < 0.85:
                reads.append("String((%s) in a)" % _keyexpr(r, k, decls))
                exp.append("true" if present else "false")
            else:
                reads.append("String(a.hasOwnProperty(%s))" % _keyexpr(r, k, decls))
                exp.append("true" if present else "false")
        reads.append("a.join(',') + '/' + a.length")
        exp.append(",".join(map(str, arr)) + "/3")
    if cont in ("string", "mixed"):
        stmts.append("var s = 'xyz';")
        for k in keys(r.randint(3, 6)):
            reads.append("T(s[%s])" % _keyexpr(r, k, decls))
            exp.append(_tstr("xyz"[int(k[1])] if k[1] in ("0", "1", "2") else None))
    src = "%s %s %s [%s]" % (T_HELPER, " ".join(decls), " ".join(stmts), ", ".join(reads))
    return src, exp, {"container": cont, "flavour": flavour, "kinds": len(used)}


# ---------------------------------------------------------------------------------------------
# shadow

FORMS = ["decl", "expr", "named-expr", "arrow", "arrow-assign", "expr-assign", "arrow-prop", "method-prop", "arrow-nested", "expr-nested", "arrow-iife"]
ARROWS = ("arrow", "arrow-assign", "arrow-prop", "arrow-nested", "arrow-iife")
# ES: `var N` inside a function named N is a fresh variable (undefined).  The engine binds the function
# there for declarations and named function expressions (deterministically): not this property's business,
# the value of that one read is not asserted (only compared between configurations).
UNASSERTED_OWN = ("decl", "named-expr")


def shadow_program(r, allow_arrow_var_arguments=True):
    """-> (source, expected list (None = not asserted), meta)"""
    taken = set()
    form = r.choice(FORMS)
    arrow = form in ARROWS
    (N,) = fresh_names(r, 1, taken)
    params = fresh_names(r, r.randint(0, 3), taken)
    args = [r.randint(1, 99) for _ in params]
    others = fresh_names(r, r.randint(3, 8), taken)
    acc, holder, wrap = fresh_names(r, 3, taken)
    shadows = []
    while not shadows:
        shadows = []
        if r.random() < 0.6 and form != "arrow-iife":
            shadows.append("own")
        if r.random() < 0.5:
            shadows.append("arguments")
        if params and r.random() < 0.5:
            shadows.append("param")
    if arrow and "arguments" in shadows and not allow_arrow_var_arguments:
        return None
    declared = list(others)
    before = {o: "undefined:undefined" for o in others}
    if "own" in shadows:
        declared.append(N)
        before[N] = None if form in UNASSERTED_OWN else "undefined:undefined"
    if "arguments" in shadows:
        declared.append("arguments")
        before["arguments"] = "undefined:undefined" if arrow else "object"
    if "param" in shadows:
        p = r.choice(params)
        declared.append(p)
        before[p] = "number:%d" % args[params.index(p)]
    r.shuffle(declared)
    cut = r.randint(0, len(declared))
    head, tail = declared[:cut], declared[cut:]
    body = []
    if head:
        # one or two init-less var statements at the top
        c2 = r.randint(0, len(head))
        for part in (head[:c2], head[c2:]):
            if part:
                body.append("var %s;" % ", ".join(part))
    read_order = list(declared)
    r.shuffle(read_order)
    body.append("var %s = [%s];" % (acc, ", ".join("T(%s)" % v for v in read_order)))
    exp = [before[v] for v in read_order]
    vals = {v: r.randint(100, 999) for v in declared}
    assign = [("%s = %d;" % (v, vals[v])) for v in head] + [("var %s = %d;" % (v, vals[v])) for v in tail]
    r.shuffle(assign)
    body.extend(assign)
    r.shuffle(read_order)
    body.append("%s.push(%s);" % (acc, ", ".join("T(%s)" % v for v in read_order)))
    exp.extend("number:%d" % vals[v] for v in read_order)
    body.append("return %s;" % acc)
    B = " ".join(body)
    P = ", ".join(params)
    A = ", ".join(map(str, args + ([5] if r.random() < 0.3 else [])))
    outer_read = None
    if form == "decl":
        code = "function %s(%s){ %s } var out = %s(%s);" % (N, P, B, N, A)
        outer_read = N
    elif form == "expr":
        code = "var %s = function(%s){ %s }; var out = %s(%s);" % (N, P, B, N, A)
        outer_read = N
    elif form == "named-expr":
        code = "var %s = function %s(%s){ %s }; var out = %s(%s);" % (holder, N, P, B, holder, A)
        outer_read = holder
    elif form == "arrow":
        code = "var %s = (%s) => { %s }; var out = %s(%s);" % (N, P, B, N, A)
        outer_read = N
    elif form == "arrow-assign":
        code = "var %s; %s = (%s) => { %s }; var out = %s(%s);" % (N, N, P, B, N, A)
        outer_read = N
    elif form == "expr-assign":
        code = "var %s; %s = function(%s){ %s }; var out = %s(%s);" % (N, N, P, B, N, A)
        outer_read = N
    elif form == "arrow-prop":
        code = "var %s = {%s: (%s) => { %s }}; var out = %s.%s(%s);" % (holder, N, P, B, holder, N, A)
    elif form == "method-prop":
        code = "var %s = {%s: function(%s){ %s }}; var out = %s.%s(%s);" % (holder, N, P, B, holder, N, A)
    elif form == "arrow-nested":
        code = "function %s(wa, wb){ var %s = (%s) => { %s }; var r1 = %s(%s); r1.push(T(%s), T(arguments)); return r1; } var out = %s(7, 8);" % (
            wrap, N, P, B, N, A, N, wrap)
        exp.extend(["function", "object"])
    elif form == "expr-nested":
        code = "function %s(wa, wb){ var %s = function(%s){ %s }; var r1 = %s(%s); r1.push(T(%s), T(arguments)); return r1; } var out = %s(7, 8);" % (
            wrap, N, P, B, N, A, N, wrap)
        exp.extend(["function", "object"])
    else:
        code = "var out = ((%s) => { %s })(%s);" % (P, B, A)
    tail_expr = "out"
    if outer_read:
        code += " out.push(T(%s));" % outer_read
        exp.append("function")
    src = "%s %s %s" % (T_HELPER, code, tail_expr)
    meta = {"form": form, "shadows": "+".join(shadows), "others": len(others), "arrow_var_arguments": arrow and "arguments" in shadows}
    return src, exp, meta


# ---------------------------------------------------------------------------------------------
# errtext

E_HELPER = "function E(f){ try { return 'ok:' + T(f()); } catch (e) { return (e && e.name) + ': ' + (e && e.message); } }"
FLAG_ALPHABET = "gimsuy" + "xzkjqdvwabGI"
PATTERNS = ["a", "(b)+", "[c-d]*e", "x?y", "\\\\d+", "a|b", "(", "a{2,1}", "[z-a]", "(?<n>a)(?<n>b)", "\\\\k<q>(?<p>a)", "*a", "(?<n>x)y"]


def _flags(r):
    shape = r.random()
    if shape < 0.15:
        return "".join(r.sample("gimsuy", r.randint(0, 4)))  # valid
    if shape < 0.3:
        f = r.sample("gimsuy", r.randint(1, 3))
        return "".join(f + [r.choice(f)])  # a repeated valid flag
    k = r.randint(2, 6)
    f = [r.choice(FLAG_ALPHABET) for _ in range(k)]  # several unknown and/or repeated letters
    return "".join(f)


def _regexp_thunk(r):
    p = r.choice(PATTERNS[:6]) if r.random() < 0.75 else r.choice(PATTERNS)
    f = _flags(r)
    form = r.random()
    if form < 0.45:
        e = "new RegExp('%s', '%s')" % (p, f)
    elif form < 0.7:
        e = "RegExp('%s', '%s')" % (p, f)
    elif form < 0.85:
        e = "new RegExp(/a+/%s, '%s')" % (r.choice(["", "g", "im"]), f)
    else:
        e = "new RegExp('%s', ['%s'].join(''))" % (p, f)
    return "function(){ var x = %s; return x.flags + '/' + x.source + '/' + x.test('ab'); }" % e


def _other_thunk(r, taken):
    n = fresh_names(r, 6, taken)
    kind = r.randrange(21)
    if kind >= 16:
        # values whose ORDER could come from a set / dict of the host: member order under an array replacer,
        # key enumeration, and which closure cell an inner function reads
        ks = fresh_names(r, r.randint(9, 13), taken)
        sub = ks[:]
        r.shuffle(sub)
        if kind == 16:
            return "function(){ var o = {%s}; return JSON.stringify(o, [%s]); }" % (
                ", ".join("%s: %d" % (k, i) for i, k in enumerate(ks)), ", ".join("'%s'" % k for k in sub[: r.randint(9, len(sub))]))
        if kind == 17:
            return "function(){ var o = {%s}; var seen = []; for (var q in o) seen.push(q); return Object.keys(o).join() + '|' + seen.join() + '|' + JSON.stringify(o); }" % (
                ", ".join("%s: %d" % (k, i) for i, k in enumerate(ks)))
        if kind == 18:
            return "function(){ return JSON.stringify({%s}, [%s, 1, '%s'], 1); }" % (
                ", ".join("%s: {%s: %d}" % (k, sub[i % len(sub)], i) for i, k in enumerate(ks)), ", ".join("'%s'" % k for k in sub), sub[0])
        # 19, 20: a function without locals of its own hands out an inner function over the same outer variables
        vs = ks[: r.randint(3, 5)]
        use = " + ".join("%s * %d" % (v, 10 ** i) for i, v in enumerate(vs))
        mid = "function(){ return function(){ return %s; }; }" % use if kind == 19 else "function(){ return (() => () => %s)(); }" % use
        return "function(){ var %s; var mid = %s; var inner = mid(); %s = 7; return [inner(), mid()()].join(); }" % (
            ", ".join("%s = %d" % (v, i + 1) for i, v in enumerate(vs)), mid, vs[-1])
    if kind == 0:
        return "function(){ return %s + %s * %s; }" % (n[0], n[1], n[2])
    if kind == 1:
        return "function(){ var %s = {}; return %s.%s(%s.%s(), %s.%s); }" % (n[0], n[0], n[1], n[0], n[2], n[0], n[3])
    if kind == 2:
        return "function(){ return new Function('%s', '%s', '%s', '%s', 'return %s + %s')(1, 2, 3, 4); }" % (n[0], n[0], n[1], n[1], n[0], n[1])
    if kind == 3:
        return "function(){ return new Function('%s', 'return %s %s %s'); }" % (n[0], n[1], n[2], n[3])
    if kind == 4:
        return "function(){ return JSON.parse('{%s %s, %s}'); }" % (n[0], n[1], n[2])
    if kind == 5:
        return "function(){ return Object.defineProperty({}, '%s', {get: function(){}, set: function(){}, value: 1, writable: true}); }" % n[0]
    if kind == 6:
        return "function(){ return Object.defineProperties({}, {%s: 1, %s: 2, %s: {get: 3, set: 4}}); }" % (n[0], n[1], n[2])
    if kind == 7:
        return "function(){ var %s = null; return %s.%s.%s; }" % (n[0], n[0], n[1], n[2])
    if kind == 8:
        return "function(){ return new ({%s: 1}).%s(%s); }" % (n[0], n[1], n[2])
    if kind == 9:
        return "function(){ return eval('var %s = 1, %s = 2; let %s; let %s; %s'); }" % (n[0], n[1], n[0], n[1], n[0])
    if kind == 10:
        return "function(){ return eval('%s: for (;;) { break %s; continue %s; }'); }" % (n[0], n[1], n[2])
    if kind == 11:
        return "function(){ 'use strict'; %s = %s; %s = %s; return 1; }" % (n[0], n[1], n[2], n[3])
    if kind == 12:
        return "function(){ return 'abc'.replace(/(?<%s>b)/, '$<%s>$<%s>'); }" % (n[0], n[1], n[2])
    if kind == 13:
        return "function(){ return eval('({%s: 1, %s: 2, get %s(){}, set %s(v){}, %s %s})'); }" % (n[0], n[0], n[1], n[1], n[2], n[3])
    if kind == 14:
        return "function(){ var %s = Object.freeze({%s: 1, %s: 2}); 'use strict'; %s.%s = 3; delete %s.%s; return Object.keys(%s).join(); }" % (
            n[0], n[1], n[2], n[0], n[1], n[0], n[2], n[0])
    return "function(){ return eval('function %s(%s, %s, %s, %s){ return %s } %s(1)(2)'); }" % (n[0], n[1], n[1], n[2], n[2], n[1], n[0])


def errtext_program(r):
    """-> (source, None, meta)"""
    if r.random() < 0.12:
        p = r.choice(["a", "b+", "(c)", "("])
        f = _flags(r)
        return "//C15-API regexp " + json.dumps([p, f, "abc"]), None, {"shape": "api", "flags": f}
    taken = set()
    thunks = []
    n_rx = r.randint(1, 3)
    for _ in range(n_rx):
        thunks.append(_regexp_thunk(r))
    for _ in range(r.randint(0, 2)):
        thunks.append(_other_thunk(r, taken))
    r.shuffle(thunks)
    src = "%s %s var res = [%s]; log(res[0]); " % (T_HELPER, E_HELPER, ", ".join("E(%s)" % t for t in thunks))
    tail = r.random()
    if tail < 0.35:
        src += "(%s)();" % _regexp_thunk(r)  # an uncaught error: the embedder sees its text
        shape = "uncaught-regexp"
    elif tail < 0.5:
        src += "(%s)();" % _other_thunk(r, taken)
        shape = "uncaught-other"
    else:
        src += "res"
        shape = "caught"
    return src, None, {"shape": shape}


def run_config(progs_path, out_dir, tag, hashseed, order, pollute, twice):
    out = os.path.join(out_dir, "%s.json" % tag)
    env = dict(os.environ, PYTHONHASHSEED=str(hashseed), PYTHONDONTWRITEBYTECODE="1")
    return (tag, out, subprocess.Popen([sys.executable, "-B", RUNNER, progs_path, out, order, "1" if pollute else "0", "1" if twice else "0"],
                                       env=env, stdout=subprocess.DEVNULL, stderr=subprocess.PIPE))


FAMILIES = ("keykind", "shadow", "errtext")
FAMILY_SIZE = {"quick": {"keykind": 200, "shadow": 240, "errtext": 120}, "thorough": {"keykind": 2000, "shadow": 2400, "errtext": 1200}}
AVA_GUARD = "c15.arrow_var_arguments"  # known-finding guard: `var arguments` inside an arrow function
AVA_REASON = "`var arguments` inside an arrow function (guard %s)" % AVA_GUARD


def build_family(kind, seed, n, allow_ava=True):
    """-> (sources, expected lists or None, metas, number of excluded draws); deterministic from seed."""
    r = random.Random(seed)
    srcs, exps, metas, excluded, seen = [], [], [], 0, set()
    tries = 0
    while len(srcs) < n and tries < n * 20:
        tries += 1
        if kind == "keykind":
            c = keykind_program(r)
        elif kind == "shadow":
            c = shadow_program(r, allow_ava)
        else:
            c = errtext_program(r)
        if c is None:
            excluded += 1
            continue
        if c[0] in seen:
            continue
        seen.add(c[0])
        srcs.append(c[0])
        exps.append(c[1])
        metas.append(c[2])
    return srcs, exps, metas, excluded


def family_selfcheck(exp, outcome):
    """None when the outcome is the expected array of strings (None entries are not asserted), else the expected rendering."""
    want = ["value", ["a", [["s", v] for v in exp]]]
    got = outcome
    if got[0] == "value" and got[1][0] == "a" and len(got[1][1]) == len(exp) and all(e is None or g == ["s", e] for e, g in zip(exp, got[1][1])):
        return None
    return want


def main(chk):
    chk.rule = (
        "seeded closure-heavy programs (>= 3 parameters, >= 3 locals, >= 2 closures capturing >= 3 outer names in shuffled textual "
        "order, named function expressions, arguments, shadowing, a pass-through level) plus the program corpus; each evaluated "
        "under every configuration (hash seeds, orders, pollution, repetition, alone in a process of its own); non-trivial = generated "
        "program with >= 3 names in each of parameters / locals / captured sets, or a corpus program that defines a function; a keykind "
        "program (computed keys of >= 2 kinds out of true/false/0/1/1.0/-0/'1'/null/undefined/NaN/... on an object, array or string); "
        "a shadow program (function, function expression or arrow whose body declares a var with its own name, `arguments` or a "
        "parameter's name next to >= 3 other vars and reads all before assigning); an errtext program (observes the text of >= 1 engine "
        "error: RegExp flags / pattern, reference, type, syntax, JSON errors); distinct by source"
    )
    chk.assumptions = ["Math.random and Date.now are the only permitted sources of non-determinism: corpus programs using them are excluded"]
    quick = chk.tier == "quick"
    rnd = random.Random(core.shard_seed(chk.seed, "C15", "gen"))
    g = Gen(rnd)
    progs, expected, metas, kinds, fam_info = [], [], [], [], []
    for _ in range(400 if quick else 4000):
        s, e, m = g.program()
        progs.append(s)
        expected.append(e)
        metas.append(m)
        kinds.append("generated")
        fam_info.append(None)
    allow_ava = not chk.guard_listed(AVA_GUARD)
    for fam in FAMILIES:
        fseed = core.shard_seed(chk.seed, "C15", "family", fam)
        fn = FAMILY_SIZE[chk.tier if chk.tier in FAMILY_SIZE else "quick"][fam]
        fs, fe, fm, fx = build_family(fam, fseed, fn, allow_ava)
        if fx:
            chk.excluded[AVA_REASON] += fx
        for j, (s, e, m) in enumerate(zip(fs, fe, fm)):
            progs.append(s)
            expected.append(e)
            metas.append(m)
            kinds.append(fam)
            fam_info.append({"family": fam, "family_seed": fseed, "family_n": fn, "index": j, "allow_ava": allow_ava})
    corpus = [c["src"] for c in json.load(open(CORPUS, encoding="utf-8"))]
    corpus = [c for c in corpus if "Math.random" not in c and "Date.now" not in c]
    for c in corpus:
        progs.append(c)
        expected.append(None)
        metas.append(None)
        kinds.append("corpus")
        fam_info.append(None)
    out_dir = os.path.join(core.ROOT, "out", "c15", "run-%d" % os.getpid())  # (concurrent runs against different trees do not share files)
    os.makedirs(out_dir, exist_ok=True)
    ppath = os.path.join(out_dir, "programs.json")
    json.dump(progs, open(ppath, "w", encoding="utf-8"))
    seeds = list(range(16)) if quick else list(range(64)) + [core.shard_seed(chk.seed, "C15", "hs", i) % (2 ** 32) for i in range(8)]
    configs = [("hash%d" % s, s, "fwd", False, False) for s in seeds]
    configs += [("rev", 0, "rev", False, False), ("shufA", 0, "shuf:%d" % (chk.seed * 2 + 1), False, False), ("shufB", 1, "shuf:%d" % (chk.seed * 2 + 2), False, False),
                ("polluted", 0, "fwd", True, False), ("polluted-rev", 3, "rev", True, False), ("twice", 0, "fwd", False, True),
                ("isolated", 0, "iso", False, False)]
    chk.extra["hash_seeds"] = len(seeds)
    chk.extra["configurations"] = [c[0] for c in configs]
    # the stand-alone run (one forked process per program) leaves the corpus out in the quick tier: its share of the budget
    ipath = ppath
    if quick:
        ipath = os.path.join(out_dir, "programs-isolated.json")
        json.dump([p for p, k in zip(progs, kinds) if k != "corpus"], open(ipath, "w", encoding="utf-8"))
        assert kinds.count("corpus") == 0 or kinds.index("corpus") == len(kinds) - kinds.count("corpus")  # the corpus comes last: indices agree
    try:
        results = run_configs(ppath, out_dir, configs, paths={"isolated": ipath})
    finally:
        shutil.rmtree(out_dir, ignore_errors=True)
    base_tag = configs[0][0]
    base = results[base_tag]
    for i, src in enumerate(progs):
        chk.count(len(configs))
        kind = kinds[i]
        gen = kind == "generated"
        m = metas[i]
        if gen:
            if m["params"] >= 3 and m["locals"] >= 3 and m["closures"] >= 3:
                chk.nontrivial(src)
        elif kind == "keykind":
            if m["kinds"] >= 2:
                chk.nontrivial(src)
            chk.classify("keykind %s, %s keys" % (m["container"], m["flavour"]))
        elif kind == "shadow":
            chk.nontrivial(src)
            chk.classify("shadow %s" % m["form"])
            chk.classify("shadow var %s" % m["shadows"])
        elif kind == "errtext":
            chk.nontrivial(src)
            chk.classify("errtext %s" % m["shape"])
        elif "function" in src or "=>" in src:
            chk.nontrivial(src)
        chk.classify(kind)
        case = {"src": src[:1500], "kind": kind}
        if fam_info[i]:
            case.update(fam_info[i])
        bad = False
        if kind == "corpus" and any(results[c[0]][i][0][:2] in (["exc", "TimeLimitError"], ["hang"]) or results[c[0]][i][0][0] == "hang" for c in configs if i < len(results[c[0]])):
            # (generated programs run for milliseconds: a time limit there is never legitimate and is judged below)
            # a program stopped by the (wall-clock) time limit is by definition clock dependent
            chk.excluded["program reaches the time limit"] += 1
            continue
        for tag, hs, order, pol, tw in configs[1:]:
            if i >= len(results[tag]):
                continue  # not part of this configuration (quick tier: corpus programs are not run stand-alone)
            o = results[tag][i]
            if o != base[i]:
                ckind = "hash-seed" if tag.startswith("hash") else tag
                chk.violation("differs|%s|%s" % (ckind, kind), dict(case, config=tag, base_config=base_tag), base[i], o, sub="determinism")
                bad = True
                break
        if bad:
            continue
        fp = base[i][2] if len(base[i]) > 2 else None
        self_mutating = gen and "Math.zzq = 1;" in src
        if fp is not None and not self_mutating and not (kind == "corpus" and re.search(r"zzq|leak|Math\.\w+\s*=|prototype\.\w+\s*=|delete\s+Math", src)):
            pristine = ["undefined"] * 12 + ["undefined", "number"]
            if fp != pristine:
                chk.violation("fresh-context-not-pristine|%s" % kind, case, pristine, fp, sub="isolation")
                continue
        if gen:
            exp = ["value", ["a", [["s", v] if isinstance(v, str) else ["n", engine.numkey(float(v))] for v in expected[i]]]]
            if base[i][0] != exp:
                chk.violation("generated-program-wrong-value", case, exp, base[i][0], sub="self-check")
                continue
        elif expected[i] is not None:
            want = family_selfcheck(expected[i], base[i][0])
            if want is not None:
                chk.violation("%s-program-wrong-value" % kind, case, want, base[i][0], sub="self-check")
                continue
        if base[i][0][0] == "exc" and base[i][0][1] not in ("JSError", "JSSyntaxError", "TimeLimitError", "MemoryLimitError"):
            chk.classify("%s program ends in a host exception (C04's business)" % ("corpus" if kind == "corpus" else kind))
        if i % max(1, len(progs) // 16) == 0:
            chk.sample({"kind": case["kind"], "src": src[:200], "outcome": base[i][0], "configurations": len(configs)})
    chk.exhaustive = False


def run_configs(ppath, out_dir, configs, maxpar=16, paths=None):
    results = {}
    pending = list(configs)
    running = []
    while pending or running:
        while pending and len(running) < maxpar:
            tag, hs, order, pol, tw = pending.pop(0)
            running.append(run_config((paths or {}).get(tag, ppath), out_dir, tag, hs, order, pol, tw))
        tag, out, proc = running.pop(0)
        try:
            _, err = proc.communicate(timeout=3600)
        except subprocess.TimeoutExpired:
            proc.kill()
            raise engine.HarnessError("C15 runner %s timed out" % tag)
        if proc.returncode != 0:
            raise engine.HarnessError("C15 runner %s failed: %s" % (tag, (err or b"").decode()[-500:]))
        results[tag] = json.load(open(out, encoding="utf-8"))
        os.unlink(out)
    return results


def replay_family(case):
    """A program of one of the families: the whole family is rebuilt from its seed and evaluated (on its own) under 16 hash
    seeds, in reverse order, shuffled, and every program alone in a process; the recorded program must give one outcome
    everywhere, and the value its generator expects."""
    fs, fe, fm, _ = build_family(case["family"], case["family_seed"], case["family_n"], case.get("allow_ava", True))
    j = case["index"]
    if j >= len(fs) or fs[j][:1500] != case["src"]:
        return {"fails": False, "expected": "the recorded program at its index of the rebuilt family", "actual": "generator changed: program not found"}
    out_dir = os.path.join(core.ROOT, "out", "c15")
    os.makedirs(out_dir, exist_ok=True)
    ppath = os.path.join(out_dir, "replay-family-%d.json" % os.getpid())
    json.dump(fs, open(ppath, "w", encoding="utf-8"))
    configs = [("rf%d-hash%d" % (os.getpid(), s), s, "fwd", False, False) for s in range(16)]
    configs += [("rf%d-%s" % (os.getpid(), o.split(":")[0]), 0, o, False, False) for o in ("rev", "shuf:7", "iso")]
    try:
        results = run_configs(ppath, out_dir, configs)
    finally:
        os.unlink(ppath)
    distinct = []
    for tag, *_ in configs:
        o = results[tag][j]
        if o not in [d[1] for d in distinct]:
            distinct.append([tag, o])
    if len(distinct) > 1:
        return {"fails": True, "expected": "one outcome under 16 hash seeds, 3 orders and alone", "actual": distinct[:3]}
    if fe[j] is not None:
        want = family_selfcheck(fe[j], distinct[0][1][0])
        if want is not None:
            return {"fails": True, "expected": want, "actual": distinct[0][1][0]}
    return {"fails": False, "expected": "one outcome under 16 hash seeds, 3 orders and alone", "actual": distinct[:1]}


def replay(rec):
    case = rec["case"]
    if case.get("family"):
        return replay_family(case)
    src = case["src"]
    out_dir = os.path.join(core.ROOT, "out", "c15")
    os.makedirs(out_dir, exist_ok=True)
    ppath = os.path.join(out_dir, "replay-programs-%d.json" % os.getpid())
    json.dump([src], open(ppath, "w", encoding="utf-8"))
    outs = []
    for hs in range(16):
        tag, out, proc = run_config(ppath, out_dir, "replay%d-%d" % (os.getpid(), hs), hs, "fwd", False, False)
        proc.communicate(timeout=600)
        outs.append(json.load(open(out))[0])
        os.unlink(out)
    distinct = []
    for o in outs:
        if o not in distinct:
            distinct.append(o)
    return {"fails": len(distinct) > 1, "expected": "one outcome under 16 hash seeds", "actual": distinct[:3]}
