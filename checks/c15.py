"""C15 - evaluation is deterministic and independent of host hash randomisation.

Closure-heavy generated programs (many locals, parameters, captured and
pass-through variables in varying textual orders, named function expressions,
arguments, shadowing) and the whole program corpus are evaluated on fresh
contexts
  * in one subprocess per PYTHONHASHSEED value (>= 16),
  * in different orders within one process (forward, reversed, seeded shuffles),
  * after a "polluting" context mutated built-ins in the same process,
  * twice in a row.
Oracle: all outcome vectors (value / error class+message / log) are identical.
A second, self-checking part: every generated program carries the value it
must compute (the generator evaluates its own arithmetic), so "the same wrong
answer everywhere" does not pass.
"""
import json
import os
import re
import random
import subprocess
import sys

from vf import core, engine

HERE = os.path.dirname(os.path.abspath(__file__))
RUNNER = os.path.join(HERE, "c15_runner.py")
CORPUS = os.path.join(core.ROOT, "corpus", "corpus.json")
WORDS = ["a%d" % i for i in range(30)] + ["alpha", "b", "zeta9", "k", "omega", "v1", "tmp", "acc", "n", "idx", "total", "x", "yy", "q7", "left", "right", "m", "res", "item", "w", "delta", "s0", "c", "u2"]


# (literal, subject, expected test() result): each needs well over 100 matcher steps
REGEX_POOL = [
    ("/(a+)+b/", "aaaaaaaaac", 0), ("/(x|xx)+y/", "xxxxxxxxxxxz", 0), ("/^(\\w+\\s?)+$/", "ab cd ef gh ij!", 0),
    ("/(a*)*b/", "aaaaaaaab", 1), ("/(?:a|b)*c/", "abababababababababc", 1), ("/(\\d+)+x/", "1234567890y", 0),
]


class Gen:
    """Closure-heavy programs whose result is known by construction."""

    def __init__(self, rnd):
        self.r = rnd
        self.used = set()

    def names(self, k):
        pool = [w for w in WORDS if w not in self.used]
        self.r.shuffle(pool)
        out = pool[:k]
        self.used.update(out)
        return out

    def program(self):
        r = self.r
        self.used = set()
        n_params = r.randint(3, 5)
        n_locals = r.randint(3, 6)
        params = self.names(n_params)
        locs = self.names(n_locals)
        env = {}
        args = [r.randint(1, 9) for _ in params]
        for p, a in zip(params, args):
            env[p] = a
        lines = []
        decl_order = list(locs)
        r.shuffle(decl_order)
        for l in decl_order:
            a, b = r.choice(list(env)), r.choice(list(env))
            k = r.randint(1, 5)
            lines.append("var %s = %s * %d + %s;" % (l, a, k, b))
            env[l] = env[a] * k + env[b]
        # inner closures capturing several outer names, in different textual orders
        inner_vals = []
        inner_names = self.names(r.randint(2, 3))
        for fn in inner_names:
            cap = r.sample(list(env), min(len(env), r.randint(3, 5)))
            ip = self.names(2)
            form = r.choice(["decl", "expr", "named-expr", "arrow"])
            own = self.names(1)[0]
            body_expr = " + ".join(cap) + " + %s * 2 + %s" % (ip[0], own)
            ia = [r.randint(1, 5), r.randint(1, 5)]
            own_k = r.randint(1, 9)
            val = sum(env[c] for c in cap) + ia[0] * 2 + own_k
            # a pass-through level: middle function that does not itself use the captured names
            mid = self.names(1)[0]
            inner = "function(%s, %s){ var %s = %d; return %s; }" % (ip[0], ip[1], own, own_k, body_expr)
            if form == "decl":
                lines.append("function %s(%s, %s){ var %s = %d; var %s = function(){ return %s; }; return %s(); }" % (fn, ip[0], ip[1], own, own_k, mid, body_expr, mid))
            elif form == "expr":
                lines.append("var %s = %s;" % (fn, inner))
            elif form == "named-expr":
                lines.append("var %s = function %s_self(%s, %s){ var %s = %d; if (%s > 100) return %s_self(0, 0); return %s; };" % (fn, fn, ip[0], ip[1], own, own_k, ip[0], fn, body_expr))
            else:
                lines.append("var %s = (%s, %s) => { var %s = %d; return %s; };" % (fn, ip[0], ip[1], own, own_k, body_expr))
            inner_vals.append(("%s(%d, %d)" % (fn, ia[0], ia[1]), val))
        # mutation through a closure, shared cell
        ctr = self.names(1)[0]
        lines.append("var %s = 0; var bump = function(){ %s = %s + 1; return %s; }; bump(); bump();" % (ctr, ctr, ctr, ctr))
        env[ctr] = 2
        # shadowing + arguments
        sh = r.choice(params)
        lines.append("var shadow = function(%s){ return %s + arguments.length; };" % (sh, sh))
        inner_vals.append(("shadow(40, 1, 1)", 43))
        inner_vals.append((ctr, 2))
        order = list(range(len(inner_vals)))
        r.shuffle(order)
        ret = "[" + ", ".join(inner_vals[i][0] for i in order) + "]"
        expected = [inner_vals[i][1] for i in order]
        # functions whose body re-declares their own name next to other locals (slot order of the
        # name is decided by the compiler's scope analysis)
        selfn = self.names(1)[0]
        o1, o2 = self.names(2)
        kind = r.choice(["var-own-name", "inner-function-own-name", "param-own-name"])
        if kind == "var-own-name":
            lines.append("function %s(){ var %s = 1; var t0 = typeof %s; var %s; var %s = 2; return t0 + ':' + (%s + %s); }" % (selfn, o1, selfn, selfn, o2, o1, o2))
            inner_vals.append(("%s()" % selfn, "function:3"))
        elif kind == "inner-function-own-name":
            lines.append("function %s(lvl_){ var %s = 5; if (lvl_ > 0) { return %s(lvl_ - 1) + 1; } function %s_in(){ return %s; } var %s = 7; return %s_in() + %s; }" % (selfn, o1, selfn, selfn, o1, o2, selfn, o2))
            inner_vals.append(("%s(2)" % selfn, 14))
        else:
            lines.append("function %s(%s){ var %s = %s + 1; var %s = typeof %s; return %s + ':' + %s; }" % (selfn, o1, o2, o1, selfn + "_t", selfn, selfn + "_t", o2))
            inner_vals.append(("%s(4)" % selfn, "function:5"))
        # a function all of whose captured locals are captured by one inner function (and nothing else):
        # the inner closure's free variables are exactly the parent's cell variables, in whatever order
        for _rep in range(2):
            fn2 = self.names(1)[0]
            vs = self.names(r.randint(2, 4))
            vals = r.sample(range(1, 10), len(vs))
            pw = [10 ** i for i in range(len(vs))]
            decl_order2 = list(zip(vs, vals))
            r.shuffle(decl_order2)
            use_order = list(zip(vs, pw))
            r.shuffle(use_order)
            form2 = r.choice(["function", "arrow"])
            body2 = " + ".join("%s * %d" % (v, w) for v, w in use_order)
            inner2 = ("function(){ return %s; }" % body2) if form2 == "function" else ("() => %s" % body2)
            # a sibling closure that captures a subset first, in another order: the parent's capture set and the
            # capture-all closure's own free-variable set are then built in different insertion orders
            sub = list(vs)
            r.shuffle(sub)
            sub = sub[: max(1, len(sub) - 1)]
            sib = "var in1 = function(){ return %s; };" % " + ".join(reversed(sub))
            lines.append("var %s = function(){ %s %s var in2 = %s; %s = %s + 0; return in2() + in1() * 0; };" % (
                fn2, " ".join("var %s = %d;" % (v, x) for v, x in decl_order2), sib, inner2, vs[0], vs[0]))
            inner_vals.append(("%s()" % fn2, sum(x * w for (v, x), w in zip(zip(vs, vals), pw))))
        # regex literals from a small shared pool (the same literal appears in many programs of the batch)
        rx = r.choice(REGEX_POOL)
        inner_vals.append(("(%s.test('%s') ? 1 : 0)" % (rx[0], rx[1]), rx[2]))
        order = list(range(len(inner_vals)))
        r.shuffle(order)
        ret = "[" + ", ".join(inner_vals[i][0] for i in order) + "]"
        expected = [inner_vals[i][1] for i in order]
        mutate = ""
        if r.random() < 0.25:
            mutate = " Math.zzq = 1; Object.prototype.zzq = 2; var leak = 3; JSON.zzq = 4; Math.PI2 = 1;"
        src = "var outer = function(%s){ %s return %s; };%s outer(%s)" % (", ".join(params), " ".join(lines), ret, mutate, ", ".join(map(str, args)))
        meta = {"params": len(params), "locals": len(locs) + 2, "closures": len(inner_names) + 2}
        return src, expected, meta


def run_config(progs_path, out_dir, tag, hashseed, order, pollute, twice):
    out = os.path.join(out_dir, "%s.json" % tag)
    env = dict(os.environ, PYTHONHASHSEED=str(hashseed), PYTHONDONTWRITEBYTECODE="1")
    return (tag, out, subprocess.Popen([sys.executable, "-B", RUNNER, progs_path, out, order, "1" if pollute else "0", "1" if twice else "0"],
                                       env=env, stdout=subprocess.DEVNULL, stderr=subprocess.PIPE))


def main(chk):
    chk.rule = (
        "seeded closure-heavy programs (>= 3 parameters, >= 3 locals, >= 2 closures capturing >= 3 outer names in shuffled textual "
        "order, named function expressions, arguments, shadowing, a pass-through level) plus the program corpus; each evaluated "
        "under every configuration (hash seeds, orders, pollution, repetition); non-trivial = generated program with >= 3 names "
        "in each of parameters / locals / captured sets, or a corpus program that defines a function; distinct by source"
    )
    chk.assumptions = ["Math.random and Date.now are the only permitted sources of non-determinism: corpus programs using them are excluded"]
    quick = chk.tier == "quick"
    rnd = random.Random(core.shard_seed(chk.seed, "C15", "gen"))
    g = Gen(rnd)
    progs, expected, metas = [], [], []
    for _ in range(400 if quick else 4000):
        s, e, m = g.program()
        progs.append(s)
        expected.append(e)
        metas.append(m)
    n_gen = len(progs)
    corpus = [c["src"] for c in json.load(open(CORPUS, encoding="utf-8"))]
    corpus = [c for c in corpus if "Math.random" not in c and "Date.now" not in c and "console.log" not in c or True]
    corpus = [c for c in corpus if "Math.random" not in c and "Date.now" not in c]
    progs.extend(corpus)
    out_dir = os.path.join(core.ROOT, "out", "c15")
    os.makedirs(out_dir, exist_ok=True)
    ppath = os.path.join(out_dir, "programs.json")
    json.dump(progs, open(ppath, "w", encoding="utf-8"))
    seeds = list(range(16)) if quick else list(range(64)) + [core.shard_seed(chk.seed, "C15", "hs", i) % (2 ** 32) for i in range(8)]
    configs = [("hash%d" % s, s, "fwd", False, False) for s in seeds]
    configs += [("rev", 0, "rev", False, False), ("shufA", 0, "shuf:%d" % (chk.seed * 2 + 1), False, False), ("shufB", 1, "shuf:%d" % (chk.seed * 2 + 2), False, False),
                ("polluted", 0, "fwd", True, False), ("polluted-rev", 3, "rev", True, False), ("twice", 0, "fwd", False, True)]
    chk.extra["hash_seeds"] = len(seeds)
    chk.extra["configurations"] = [c[0] for c in configs]
    results = {}
    pending = list(configs)
    running = []
    maxpar = 16
    while pending or running:
        while pending and len(running) < maxpar:
            tag, hs, order, pol, tw = pending.pop(0)
            running.append(run_config(ppath, out_dir, tag, hs, order, pol, tw))
        tag, out, proc = running.pop(0)
        try:
            _, err = proc.communicate(timeout=3600)
        except subprocess.TimeoutExpired:
            proc.kill()
            raise engine.HarnessError("C15 runner %s timed out" % tag)
        if proc.returncode != 0:
            raise engine.HarnessError("C15 runner %s failed: %s" % (tag, (err or b"").decode()[-500:]))
        results[tag] = json.load(open(out, encoding="utf-8"))
        os.unlink(out)
    base_tag = configs[0][0]
    base = results[base_tag]
    for i, src in enumerate(progs):
        chk.count(len(configs))
        gen = i < n_gen
        if gen:
            m = metas[i]
            if m["params"] >= 3 and m["locals"] >= 3 and m["closures"] >= 3:
                chk.nontrivial(src)
        elif "function" in src or "=>" in src:
            chk.nontrivial(src)
        chk.classify("generated" if gen else "corpus")
        case = {"src": src[:1500], "kind": "generated" if gen else "corpus"}
        bad = False
        if not gen and any(results[c[0]][i][0][:2] in (["exc", "TimeLimitError"], ["hang"]) or results[c[0]][i][0][0] == "hang" for c in configs):
            # (generated programs run for milliseconds: a time limit there is never legitimate and is judged below)
            # a program stopped by the (wall-clock) time limit is by definition clock dependent
            chk.excluded["program reaches the time limit"] += 1
            continue
        for tag, hs, order, pol, tw in configs[1:]:
            o = results[tag][i]
            if o != base[i]:
                kind = "hash-seed" if tag.startswith("hash") else tag
                chk.violation("differs|%s|%s" % (kind, "generated" if gen else "corpus"), dict(case, config=tag, base_config=base_tag), base[i], o, sub="determinism")
                bad = True
                break
        if bad:
            continue
        fp = base[i][2] if len(base[i]) > 2 else None
        self_mutating = gen and "Math.zzq = 1;" in src
        if fp is not None and not self_mutating and not (not gen and re.search(r"zzq|leak|Math\.\w+\s*=|prototype\.\w+\s*=|delete\s+Math", src)):
            pristine = ["undefined"] * 12 + ["undefined", "number"]
            if fp != pristine:
                chk.violation("fresh-context-not-pristine|%s" % ("generated" if gen else "corpus"), case, pristine, fp, sub="isolation")
                continue
        if gen:
            exp = ["value", ["a", [["s", v] if isinstance(v, str) else ["n", engine.numkey(float(v))] for v in expected[i]]]]
            if base[i][0] != exp:
                chk.violation("generated-program-wrong-value", case, exp, base[i][0], sub="self-check")
                continue
        if base[i][0][0] == "exc" and base[i][0][1] not in ("JSError", "JSSyntaxError", "TimeLimitError", "MemoryLimitError"):
            chk.classify("corpus program ends in a host exception (C04's business)")
        if i % max(1, len(progs) // 12) == 0:
            chk.sample({"kind": case["kind"], "src": src[:200], "outcome": base[i][0], "configurations": len(configs)})
    chk.exhaustive = False


def replay(rec):
    case = rec["case"]
    src = case["src"]
    out_dir = os.path.join(core.ROOT, "out", "c15")
    os.makedirs(out_dir, exist_ok=True)
    ppath = os.path.join(out_dir, "replay-programs.json")
    json.dump([src], open(ppath, "w", encoding="utf-8"))
    outs = []
    for hs in range(16):
        tag, out, proc = run_config(ppath, out_dir, "replay%d" % hs, hs, "fwd", False, False)
        proc.communicate(timeout=600)
        outs.append(json.load(open(out))[0])
        os.unlink(out)
    distinct = []
    for o in outs:
        if o not in distinct:
            distinct.append(o)
    return {"fails": len(distinct) > 1, "expected": "one outcome under 16 hash seeds", "actual": distinct[:3]}
