"""C12 - a context keeps its own state: persistent, isolated, usable after errors.

Histories of operations (define/assign/redeclare, function definitions, indirect
eval and new Function definitions, Python set, built-in mutations, and evals
that fail: syntax error after valid statements, throw after effects, endless
loop under a time limit, unbounded recursion under a memory limit, errors
inside callbacks, bad regex) interleaved over 2-3 contexts with different
limits.  After *every* step, on *every* context: all modelled globals read
back (get and eval), never-defined names are undefined, built-in mutations are
visible only where made, and a probe battery answers as on a pristine context.
Exhaustive for short histories, seeded random for long ones.
"""
import itertools
import random

from vf import core, engine, pool, vclock
from checks.c11 import neq, show

LITS = [("1", 1), ("'s'", "s"), ("[1, 2]", [1, 2]), ("({a: 1})", {"a": 1}), ("null", None), ("true", True), ("2.5", 2.5)]
NAMES = ["g0", "g1", "g2"]
BUILTINS = [
    ("Object.prototype.zz0", "({}).zz0"), ("Math.zz1", "Math.zz1"), ("JSON.zz2", "JSON.zz2"), ("Error.prototype.zz3", "(new Error('e')).zz3"),
    ("Array.prototype.zz4", "[].zz4"), ("String.zz5", "String.zz5"), ("Object.prototype.zz6", "[].zz6"), ("Object.prototype.zz7", "(function(){}).zz7 || Math.zz7"),
]
PROBES = [
    ("[1,2].map(function(x){ return x * 2; }).join()", "2,4"),
    ("JSON.stringify({a: [1]})", '{"a":[1]}'),
    ("/a+/.exec('caab').index", 1),
    ("(function(){ try { null.x; } catch (e) { return e instanceof TypeError; } })()", True),
    ("(function(){ var c = 0; var inc = function(){ c++; return c; }; inc(); return inc(); })()", 2),
    ("typeof undefinedName", "undefined"),
    ("Math.max(1, 3, 2)", 3),
    ("'abc'.toUpperCase() + [3,1,2].sort().join('')", "ABC123"),
    ("Object.keys({x: 1, y: 2}).length", 2),
    ("(function(){ var s = 0; for (var i = 0; i < 5; i++) { if (i == 3) continue; s += i; } return s; })()", 7),
    ("parseInt('42px') + Number('1.5')", 43.5),
    ("Array.isArray([]) && !Array.isArray({})", True),
    ("eval('1 + 1') + new Function('return 3')() + (function(){ return eval('eval(\"2\")'); })()", 7),
    ("/(a+)+b/.test('aaaaaaaac') || 'aaaaaaab'.replace(/(a+)+b/, 'x')", "x"),
    ("(function(){ var r = 0; [3, 1, 2].sort(function(a, b){ r++; return a - b; }); return r > 0; })()", True),
    # a regex object created by an *earlier* eval (see the keep-regex operation) stays usable
    ("typeof keptRe === 'undefined' ? 'none' : (keptRe.test('aaaaaaaac') ? 'hit' : 'miss')", ("none", "miss")),
]

# operation kinds; each returns (source or python action, expectation kind)
REPEATABLE_FAILS = ["fail-syntax", "fail-throw", "fail-loop", "fail-recursion", "fail-callback", "fail-regex", "fail-eval-nesting", "fail-native-depth", "fail-regex-loop"]
OPS = ["keep-regex", "fail-eval-nesting", "fail-native-depth", "fail-regex-loop", "def-var", "assign", "redeclare", "def-fn", "eval-def", "function-ctor-assign", "py-set", "mutate-builtin",
       "fail-syntax", "fail-throw", "fail-loop", "fail-recursion", "fail-callback", "fail-regex", "mutate-in-place"]

CONFIGS = [(None, None), (0.08, None), (None, 30000), (0.08, 30000)]  # T in virtual time: 80 clock reads (see _init_virtual)


def run_history(task):
    """task = (config indexes per context, [(ctx index, op, name idx, lit idx)]).
    Returns None if everything agreed, else a description of the first disagreement."""
    cfgs, steps = task
    m = engine.load()
    ctxs = [m.Context(time_limit=CONFIGS[c][0], memory_limit=CONFIGS[c][1]) for c in cfgs]
    models = [dict() for _ in ctxs]       # name -> ("val", v) | ("fn", k) | ("atleast", n)
    bmods = [dict() for _ in ctxs]        # builtin read expression -> value
    trace = []

    def ev(i, src):
        with pool.cpu_alarm(30):
            return ctxs[i].eval(src)

    def observe(full=True):
        for i, ctx in enumerate(ctxs):
            for name in NAMES + ["f0", "f1", "f2"]:
                ent = models[i].get(name)
                with pool.cpu_alarm(30):
                    t = ctx.eval("typeof %s" % name)
                    if ent is None:
                        if t != "undefined":
                            return {"ctx": i, "what": "never-defined name is visible", "name": name, "typeof": t}
                        continue
                    if ent[0] == "fn":
                        r = ctx.eval("%s()" % name)
                        if t != "function" or r != ent[1]:
                            return {"ctx": i, "what": "function lost or changed", "name": name, "expected": ent[1], "actual": show(r)}
                        continue
                    g = ctx.get(name)
                    e = ctx.eval(name)
                    if ent[0] == "atleast":
                        if not (isinstance(g, (int, float)) and g >= ent[1] and neq(g, e)):
                            return {"ctx": i, "what": "counter went backwards or differs", "name": name, "expected": ">= %s" % ent[1], "actual": [show(g), show(e)]}
                        models[i][name] = ("atleast", g)
                        continue
                    if not neq(g, ent[1]) or not neq(e, ent[1]):
                        return {"ctx": i, "what": "global differs from model", "name": name, "expected": show(ent[1]), "actual": {"get": show(g), "eval": show(e)}}
            for (wr, rd) in BUILTINS:
                with pool.cpu_alarm(30):
                    r = ctx.eval("typeof (%s) === 'undefined' ? 'UNSET' : (%s)" % (rd, rd))
                exp = bmods[i].get(rd, "UNSET")
                if r != exp:
                    return {"ctx": i, "what": "built-in mutation leaked or lost", "read": rd, "expected": exp, "actual": show(r)}
            for src, exp in (PROBES if full else PROBES[:3]):
                with pool.cpu_alarm(30):
                    try:
                        r = ctx.eval(src)
                    except Exception as ex:
                        return {"ctx": i, "what": "probe raises", "probe": src, "actual": engine.exc_info(ex)}
                if not (r in exp if isinstance(exp, tuple) else neq(r, exp)):
                    return {"ctx": i, "what": "probe answers differently", "probe": src, "expected": exp, "actual": show(r)}
        return None

    try:
        bad = observe(full=False)
        if bad:
            bad["trace"] = ["<pristine>"]
            return bad
        for (ci, op, ni, li) in steps:
            name = NAMES[ni % len(NAMES)]
            fname = "f%d" % (ni % 3)
            lsrc, lval = LITS[li % len(LITS)]
            T, M = CONFIGS[cfgs[ci]]
            src = None
            expect_fail = False
            ent = models[ci].get(name)
            declared = ent is not None
            if op == "def-var":
                src = "var %s = %s;" % (name, lsrc)
                models[ci][name] = ("val", lval)
            elif op == "assign":
                if not declared:
                    continue
                src = "%s = %s;" % (name, lsrc)
                models[ci][name] = ("val", lval)
            elif op == "redeclare":
                src = "var %s;" % name
                if not declared:
                    models[ci][name] = ("val", None)
            elif op == "def-fn":
                k = li + 10
                src = "function %s(){ return %d; }" % (fname, k)
                models[ci][fname] = ("fn", k)
            elif op == "eval-def":
                src = "eval(%s);" % repr("var %s = %s;" % (name, lsrc)).replace("\\'", "'")
                src = 'eval("var %s = %s;");' % (name, lsrc.replace('"', "'"))
                models[ci][name] = ("val", lval)
            elif op == "function-ctor-assign":
                if not declared:
                    continue
                src = 'new Function("%s = %s;")();' % (name, lsrc.replace('"', "'"))
                models[ci][name] = ("val", lval)
            elif op == "py-set":
                ctxs[ci].set(name, lval)
                models[ci][name] = ("val", lval)
                trace.append("ctx%d.set(%s, %r)" % (ci, name, lval))
            elif op == "mutate-builtin":
                wr, rd = BUILTINS[li % len(BUILTINS)]
                v = "m%d" % (ni + 10 * ci)
                src = "%s = '%s';" % (wr, v)
                bmods[ci][rd] = v
            elif op == "mutate-in-place":
                if not declared or ent[0] != "val" or not isinstance(ent[1], (list, dict)):
                    continue
                if isinstance(ent[1], list):
                    src = "%s.push(9);" % name
                    models[ci][name] = ("val", ent[1] + [9])
                else:
                    src = "%s.q = 9; delete %s.a;" % (name, name)
                    d = {k: v for k, v in ent[1].items() if k != "a"}
                    d["q"] = 9
                    models[ci][name] = ("val", d)
            elif op == "fail-syntax":
                src = "var %s = %s; var = ;" % (name, "'never'")
                expect_fail = True
            elif op == "fail-throw":
                src = "var %s = %s; throw new Error('boom');" % (name, lsrc)
                models[ci][name] = ("val", lval)
                expect_fail = True
            elif op == "fail-loop":
                if T is None:
                    continue
                src = "var %s = 0; while (true) { %s = %s + 1; }" % (name, name, name)
                models[ci][name] = ("atleast", 1)
                expect_fail = "TimeLimitError"
            elif op == "fail-recursion":
                if M is None:
                    continue
                src = "var %s = %s; (function rec(){ return rec() + 1; })();" % (name, lsrc)
                models[ci][name] = ("val", lval)
                expect_fail = "MemoryLimitError"
            elif op == "fail-callback":
                src = "var %s = %s; [1, 2].forEach(function(x){ var o = { get p(){ return null.x; } }; return o.p; });" % (name, lsrc)
                models[ci][name] = ("val", lval)
                expect_fail = True
            elif op == "keep-regex":
                src = "var keptRe = /(a+)+b/;"
            elif op == "fail-eval-nesting":
                src = "var %s = %s; var dive = function(){ return eval('dive()'); }; dive();" % (name, lsrc)
                models[ci][name] = ("val", lval)
                expect_fail = "MemoryLimitError"
            elif op == "fail-native-depth":
                src = "var %s = %s; var nd = function(){ return [1].map(nd); }; nd();" % (name, lsrc)
                models[ci][name] = ("val", lval)
                expect_fail = "MemoryLimitError"
            elif op == "fail-regex-loop":
                if T is None:
                    continue
                src = "var %s = %s; for (;;) { /(a+)+b/.test('aaaaaaaaaaaaaaaaaaaaaaaac'); }" % (name, lsrc)
                models[ci][name] = ("val", lval)
                expect_fail = "TimeLimitError"
            elif op == "fail-regex":
                src = "var %s = %s; new RegExp('(');" % (name, lsrc)
                models[ci][name] = ("val", lval)
                expect_fail = True
            if src is not None:
                trace.append("ctx%d: %s" % (ci, src))
                try:
                    ev(ci, src)
                    if expect_fail:
                        return {"ctx": ci, "what": "failing eval did not fail", "trace": trace[-6:], "expected": expect_fail}
                except pool.HarnessTimeout:
                    return {"ctx": ci, "what": "hang", "trace": trace[-6:]}
                except Exception as ex:
                    info = engine.exc_info(ex)
                    if not expect_fail:
                        return {"ctx": ci, "what": "eval raised unexpectedly", "trace": trace[-6:], "actual": info}
                    if not info["family"]:
                        return {"ctx": ci, "what": "host exception", "trace": trace[-6:], "actual": info}
                    if isinstance(expect_fail, str) and info["cls"] != expect_fail:
                        return {"ctx": ci, "what": "wrong limit error", "trace": trace[-6:], "expected": expect_fail, "actual": info["cls"]}
            stepno = len(trace)
            if len(steps) < 50 or stepno % 10 == 0 or (ci, op, ni, li) == steps[-1]:
                # the whole probe battery after a failing eval and at the end, a light one otherwise
                bad = observe(full=bool(expect_fail) or stepno >= len(steps) - 1 or len(steps) >= 50)
                if bad:
                    bad["trace"] = trace[-6:]
                    bad["after"] = op
                    return bad
    except pool.HarnessTimeout:
        return {"what": "hang in observation", "trace": trace[-6:]}
    except Exception as ex:
        return {"what": "observation raised", "trace": trace[-6:], "actual": engine.exc_info(ex)}
    return None


def run_histories(tasks):
    return [run_history(t) for t in tasks]


def _init_virtual():
    # Time-limited contexts run under the virtual clock (1 ms per clock read): a probe can never reach the
    # limit because the machine is busy, and an interrupted loop ends after exactly T/delta reads.
    vclock.install()


def nontrivial_history(steps):
    fails = [i for i, s in enumerate(steps) if s[1].startswith("fail")]
    for i in fails:
        if sum(1 for s in steps[i + 1:] if s[0] == steps[i][0] and not s[1].startswith("fail")) >= 2:
            return True
    for i, s in enumerate(steps):
        if s[1] == "mutate-builtin" and any(t[0] != s[0] for t in steps[i + 1:]):
            return True
    return False


def main(chk):
    chk.rule = (
        "histories over a %d-operation alphabet (definitions, Python set, built-in mutations, six kinds of failing eval) on 2-3 "
        "contexts with different limits, model-checked after every step on every context (globals via get and eval, undefined "
        "names, built-in isolation, 12-probe battery); non-trivial = a failing eval followed by >= 2 successful operations on the "
        "same context, or a built-in mutation followed by operations on another context; distinct by history" % len(OPS)
    )
    chk.assumptions = ["time-limited contexts run under the virtual clock (T = 80 clock reads), so no outcome depends on machine load; the model of an interrupted counter loop is only monotone (>=)"]
    for path, rec in core.saved_replays("C12"):
        r = replay(rec)
        chk.count()
        if r["fails"]:
            chk.violation("saved-replay|" + path, rec.get("case"), r["expected"], r["actual"], sub="replay")
    quick = chk.tier == "quick"
    tasks = []
    # exhaustive: all histories of length L over (context, op) with name/literal rotated
    L = 3
    alphabet = [(c, op) for c in (0, 1) for op in OPS]
    allh = itertools.product(alphabet, repeat=L)
    for idx, h in enumerate(allh):
        if quick and (idx + chk.seed) % 30 != 0:
            continue
        steps = [(c, op, (idx + j) % 3, (idx // 3 + j) % len(LITS)) for j, (c, op) in enumerate(h)]
        tasks.append(((3, 0), steps))
    exhaustive_n = len(tasks)
    # the same failure repeated many times on one context: nothing may accumulate (counters, handlers, caches)
    for op in REPEATABLE_FAILS:
        for cfg in (3, 1, 2):
            reps = 70 if op not in ("fail-loop", "fail-regex-loop") else 8
            steps = [(0, op, 0, 1)] * reps + [(0, "def-var", 1, 2), (1, "def-var", 2, 3)]
            tasks.append(((cfg, 0), steps))
    rnd = random.Random(core.shard_seed(chk.seed, "C12", "random"))
    for _ in range(400 if quick else 8000):
        k = rnd.choice([2, 3])
        cfgs = tuple(rnd.randrange(len(CONFIGS)) for _ in range(k))
        n = rnd.randint(8, 40)
        steps = [(rnd.randrange(k), rnd.choice(OPS), rnd.randrange(3), rnd.randrange(len(LITS))) for _ in range(n)]
        tasks.append((cfgs, steps))
    if not quick:
        for _ in range(20000):
            steps = [(rnd.randrange(2), rnd.choice(OPS), rnd.randrange(3), rnd.randrange(len(LITS))) for _ in range(4)]
            tasks.append(((3, 1), steps))
    chk.extra["exhaustive_histories_len3"] = exhaustive_n
    batches = pool.chunks(tasks, 40)
    seen_sigs = set()
    res = pool.run(run_histories, batches, timeout=1200, init=_init_virtual)
    for b, rb in zip(batches, res):
        if isinstance(rb, (pool.HANG, pool.CRASH)):
            rs = pool.run(run_histories, [[t] for t in b], timeout=200, init=_init_virtual)
            rb = [("HANG" if isinstance(r, pool.HANG) else "CRASH") if isinstance(r, (pool.HANG, pool.CRASH)) else r[0] for r in rs]
        for (cfgs, steps), bad in zip(b, rb):
            chk.count()
            chk.classify("history length %d" % min(len(steps), 10))
            if nontrivial_history(steps):
                chk.nontrivial(core.h16([cfgs, steps]))
            case = {"configs": list(cfgs), "steps": [list(s) for s in steps]}
            if bad in ("HANG", "CRASH"):
                chk.violation("history|" + bad, case, None, bad, sub="history")
            elif bad:
                presig = "%s|%s" % (bad.get("what"), bad.get("after"))
                small = shrink(cfgs, steps, bad) if presig not in seen_sigs else (steps, bad)
                seen_sigs.add(presig)
                case = {"configs": list(cfgs), "steps": [list(s) for s in small[0]], "trace": small[1].get("trace")}
                b2 = small[1]
                sig = "history|%s|%s" % (b2.get("what"), b2.get("after") or (b2.get("actual", {}).get("cls") if isinstance(b2.get("actual"), dict) else ""))
                chk.violation(sig, case, b2.get("expected"), {k: v for k, v in b2.items() if k not in ("trace", "expected")}, sub="history")
            elif len(steps) >= 6:
                chk.sample({"configs": [CONFIGS[c] for c in cfgs], "steps": [[s[0], s[1]] for s in steps[:12]], "outcome": "agrees with the model after every step"}, cls="h", per_class=6)
    chk.exhaustive = False


def shrink(cfgs, steps, bad):
    """Drop steps while the history still fails (same 'what').  Runs in a virtual-clock worker."""
    r = pool.run(_shrink_worker, [(cfgs, list(steps), bad)], timeout=900, init=_init_virtual)[0]
    return r if not isinstance(r, (pool.HANG, pool.CRASH)) else (list(steps), bad)


def _shrink_worker(arg):
    cfgs, steps, bad = arg
    cur, curbad = list(steps), bad
    i = 0
    while i < len(cur) and len(cur) > 1:
        cand = cur[:i] + cur[i + 1:]
        b = run_history((cfgs, cand))
        if b and b.get("what") == curbad.get("what"):
            cur, curbad = cand, b
        else:
            i += 1
    return cur, curbad


def replay(rec):
    case = rec["case"]
    bad = pool.run(run_history, [(tuple(case["configs"]), [tuple(s) for s in case["steps"]])], timeout=600, init=_init_virtual)[0]
    if isinstance(bad, (pool.HANG, pool.CRASH)):
        bad = {"what": repr(bad)}
    return {"fails": bool(bad), "expected": (bad or {}).get("expected"), "actual": bad or "agrees"}
