"""C12 - a context keeps its own state: persistent, isolated, usable after errors.

Histories of operations (define/assign/redeclare, function definitions, indirect
eval and new Function definitions, Python set, built-in mutations, and evals
that fail: syntax error after valid statements, throw after effects, endless
loop under a time limit, unbounded recursion under a memory limit, errors
inside callbacks, bad regex) interleaved over 2-3 contexts with different
limits.  After *every* step, on *every* context: all modelled globals read
back (get and eval), never-defined names are undefined, built-in mutations are
visible only where made, and a probe battery answers as on a pristine context.
Exhaustive for short histories, seeded random for long ones.

Process-global state: the host's process-wide settings (recursion limit, ...) are compared after every step, and a
depth probe (get/eval of globals nested 100/1500/3000 arrays deep, whose outcome class depends on the host recursion
available to the engine) answers the same on an untouched witness context before a history, after every failing
operation and at the end, and as the operation 'deep-probe' on the contexts of the history.

Fresh objects: for ~200 creation expressions (literals, typed arrays of every kind and length 0/n and their .buffer,
ArrayBuffers, arrays/objects made by built-ins, arguments, error objects made by constructors and by the engine,
functions and their .prototype) what one context writes on the created object or on its constructor prototype is
invisible on a second creation in the same context and on creations in another context, which belong to their own
context's constructor.
"""
import decimal
import gc
import itertools
import locale
import os
import random
import sys
import threading

from vf import core, engine, pool, vclock
from checks.c11 import neq, show

LITS = [("1", 1), ("'s'", "s"), ("[1, 2]", [1, 2]), ("({a: 1})", {"a": 1}), ("null", None), ("true", True), ("2.5", 2.5)]
NAMES = ["g0", "g1", "g2"]
BUILTINS = [
    ("Object.prototype.zz0", "({}).zz0"), ("Math.zz1", "Math.zz1"), ("JSON.zz2", "JSON.zz2"), ("Error.prototype.zz3", "(new Error('e')).zz3"),
    ("Array.prototype.zz4", "[].zz4"), ("String.zz5", "String.zz5"), ("Object.prototype.zz6", "[].zz6"), ("Object.prototype.zz7", "(function(){}).zz7 || Math.zz7"),
]
PROBES = [
    ("[1,2].map(function(x){ return x * 2; }).join()", "2,4"),
    ("JSON.stringify({a: [1]})", '{"a":[1]}'),
    ("/a+/.exec('caab').index", 1),
    ("(function(){ try { null.x; } catch (e) { return e instanceof TypeError; } })()", True),
    ("(function(){ var c = 0; var inc = function(){ c++; return c; }; inc(); return inc(); })()", 2),
    ("typeof undefinedName", "undefined"),
    ("Math.max(1, 3, 2)", 3),
    ("'abc'.toUpperCase() + [3,1,2].sort().join('')", "ABC123"),
    ("Object.keys({x: 1, y: 2}).length", 2),
    ("(function(){ var s = 0; for (var i = 0; i < 5; i++) { if (i == 3) continue; s += i; } return s; })()", 7),
    ("parseInt('42px') + Number('1.5')", 43.5),
    ("Array.isArray([]) && !Array.isArray({})", True),
    ("eval('1 + 1') + new Function('return 3')() + (function(){ return eval('eval(\"2\")'); })()", 7),
    ("/(a+)+b/.test('aaaaaaaac') || 'aaaaaaab'.replace(/(a+)+b/, 'x')", "x"),
    ("(function(){ var r = 0; [3, 1, 2].sort(function(a, b){ r++; return a - b; }); return r > 0; })()", True),
    # a regex object created by an *earlier* eval (see the keep-regex operation) stays usable
    ("typeof keptRe === 'undefined' ? 'none' : (keptRe.test('aaaaaaaac') ? 'hit' : 'miss')", ("none", "miss")),
]

# operation kinds; each returns (source or python action, expectation kind)
REPEATABLE_FAILS = ["fail-syntax", "fail-throw", "fail-loop", "fail-recursion", "fail-callback", "fail-regex", "fail-eval-nesting", "fail-native-depth", "fail-regex-loop"]
OPS = ["keep-regex", "fail-eval-nesting", "fail-native-depth", "fail-regex-loop", "def-var", "assign", "redeclare", "def-fn", "eval-def", "function-ctor-assign", "py-set", "mutate-builtin",
       "fail-syntax", "fail-throw", "fail-loop", "fail-recursion", "fail-callback", "fail-regex", "mutate-in-place"]

# the random histories and the directed depth histories also use the depth probe (see _ask)
OPS_RANDOM = OPS + ["deep-probe"]

CONFIGS = [(None, None), (0.08, None), (None, 30000), (0.08, 30000)]  # T in virtual time: 80 clock reads (see _init_virtual)


# ---- process-global state and operations that depend on it -------------------------------------
# Nothing an eval does may outlive it outside its context.  (1) A snapshot of the host's process-wide settings is
# compared after every step of a history.  (2) A per-worker *witness* context that no history ever touches holds
# globals nested DEPTHS arrays deep; what get()/eval() answer for them (a value of that depth, or which error class)
# depends on how much host recursion the engine has at its disposal, and must be the same at the start of every
# history, after every failing operation and at the end.  (3) The operation 'deep-probe' asks the same question on
# a context of the history itself: same answer as the witness gave before the history, wherever it stands.
DEPTHS = (100, 1500, 3000)
PROBE_DEPTH = 1500
_W = {}


def _settings():
    return {
        "sys.getrecursionlimit": sys.getrecursionlimit(),
        "sys.get_int_max_str_digits": sys.get_int_max_str_digits() if hasattr(sys, "get_int_max_str_digits") else None,
        "sys.getswitchinterval": sys.getswitchinterval(),
        "gc.isenabled": gc.isenabled(),
        "gc.get_threshold": list(gc.get_threshold()),
        "decimal.getcontext().prec": decimal.getcontext().prec,
        "decimal.getcontext().rounding": decimal.getcontext().rounding,
        "locale": locale.setlocale(locale.LC_ALL, None),
        "sys.gettrace": repr(sys.gettrace()),
        "sys.getprofile": repr(sys.getprofile()),
        "threading.active_count": threading.active_count(),
        "os.getcwd": os.getcwd(),
        "sys.path length": len(sys.path),
    }


def _restore_settings(s0):
    """After a report: put back what can be put back, so that the other histories of this worker are judged alone."""
    try:
        sys.setrecursionlimit(s0["sys.getrecursionlimit"])
        if s0["sys.get_int_max_str_digits"] is not None:
            sys.set_int_max_str_digits(s0["sys.get_int_max_str_digits"])
        sys.setswitchinterval(s0["sys.getswitchinterval"])
        (gc.enable if s0["gc.isenabled"] else gc.disable)()
        gc.set_threshold(*s0["gc.get_threshold"])
        decimal.getcontext().prec = s0["decimal.getcontext().prec"]
        decimal.getcontext().rounding = s0["decimal.getcontext().rounding"]
    except Exception:
        pass


def _build_deep(name, depth):
    return "var %s = []; for (var i = 0; i < %d; i++) { %s = [%s]; } 'built'" % (name, depth, name, name)


def _depth_of(v):
    n = 0
    while isinstance(v, list) and v:
        v = v[0]
        n += 1
    return n


def _ask(ctx, names):
    """Outcome classes of get(name) and eval(name) for deeply nested globals.  Always called from the body of
    run_history, i.e. at one host stack depth."""
    out = []
    for n in names:
        for how in ("get", "eval"):
            try:
                with pool.cpu_alarm(30):
                    v = ctx.get(n) if how == "get" else ctx.eval(n)
                out.append([n, how, "value of depth %d" % _depth_of(v)])
            except pool.HarnessTimeout:
                raise
            except Exception as ex:
                info = engine.exc_info(ex)
                out.append([n, how, "%s %s" % (info["cls"], info["name"] if info["family"] else "(host exception)")])
    return out


def _witness(m):
    if "ctx" not in _W:
        c = m.Context()
        for d in DEPTHS:
            with pool.cpu_alarm(60):
                c.eval(_build_deep("deep%d" % d, d))
        _W["ctx"] = c
        _W["settings"] = _settings()
    return _W["ctx"]


def run_history(task):
    """task = (config indexes per context, [(ctx index, op, name idx, lit idx)]).
    Returns None if everything agreed, else a description of the first disagreement."""
    cfgs, steps = task
    m = engine.load()
    ctxs = [m.Context(time_limit=CONFIGS[c][0], memory_limit=CONFIGS[c][1]) for c in cfgs]
    models = [dict() for _ in ctxs]       # name -> ("val", v) | ("fn", k) | ("atleast", n)
    bmods = [dict() for _ in ctxs]        # builtin read expression -> value
    hasdeep = [False for _ in ctxs]
    trace = []
    W = _witness(m)
    WN = ["deep%d" % d for d in DEPTHS]
    s0 = _settings()
    a0 = _ask(W, WN)
    if _W.setdefault("A0", a0) != a0 or _W["settings"] != s0:
        # an earlier history of this worker left something behind that its own checks did not see
        return {"what": "witness context or host settings differ from the worker's first history", "trace": ["<pristine>"],
                "expected": [_W["A0"], _W["settings"]], "actual": [a0, s0]}

    def ev(i, src):
        with pool.cpu_alarm(30):
            return ctxs[i].eval(src)

    def observe(full=True):
        for i, ctx in enumerate(ctxs):
            for name in NAMES + ["f0", "f1", "f2"]:
                ent = models[i].get(name)
                with pool.cpu_alarm(30):
                    t = ctx.eval("typeof %s" % name)
                    if ent is None:
                        if t != "undefined":
                            return {"ctx": i, "what": "never-defined name is visible", "name": name, "typeof": t}
                        continue
                    if ent[0] == "fn":
                        r = ctx.eval("%s()" % name)
                        if t != "function" or r != ent[1]:
                            return {"ctx": i, "what": "function lost or changed", "name": name, "expected": ent[1], "actual": show(r)}
                        continue
                    g = ctx.get(name)
                    e = ctx.eval(name)
                    if ent[0] == "atleast":
                        if not (isinstance(g, (int, float)) and g >= ent[1] and neq(g, e)):
                            return {"ctx": i, "what": "counter went backwards or differs", "name": name, "expected": ">= %s" % ent[1], "actual": [show(g), show(e)]}
                        models[i][name] = ("atleast", g)
                        continue
                    if not neq(g, ent[1]) or not neq(e, ent[1]):
                        return {"ctx": i, "what": "global differs from model", "name": name, "expected": show(ent[1]), "actual": {"get": show(g), "eval": show(e)}}
            for (wr, rd) in BUILTINS:
                with pool.cpu_alarm(30):
                    r = ctx.eval("typeof (%s) === 'undefined' ? 'UNSET' : (%s)" % (rd, rd))
                exp = bmods[i].get(rd, "UNSET")
                if r != exp:
                    return {"ctx": i, "what": "built-in mutation leaked or lost", "read": rd, "expected": exp, "actual": show(r)}
            for src, exp in (PROBES if full else PROBES[:3]):
                with pool.cpu_alarm(30):
                    try:
                        r = ctx.eval(src)
                    except Exception as ex:
                        return {"ctx": i, "what": "probe raises", "probe": src, "actual": engine.exc_info(ex)}
                if not (r in exp if isinstance(exp, tuple) else neq(r, exp)):
                    return {"ctx": i, "what": "probe answers differently", "probe": src, "expected": exp, "actual": show(r)}
        return None

    try:
        bad = observe(full=False)
        if bad:
            bad["trace"] = ["<pristine>"]
            return bad
        for (ci, op, ni, li) in steps:
            name = NAMES[ni % len(NAMES)]
            fname = "f%d" % (ni % 3)
            lsrc, lval = LITS[li % len(LITS)]
            T, M = CONFIGS[cfgs[ci]]
            src = None
            expect_fail = False
            ent = models[ci].get(name)
            declared = ent is not None
            if op == "def-var":
                src = "var %s = %s;" % (name, lsrc)
                models[ci][name] = ("val", lval)
            elif op == "assign":
                if not declared:
                    continue
                src = "%s = %s;" % (name, lsrc)
                models[ci][name] = ("val", lval)
            elif op == "redeclare":
                src = "var %s;" % name
                if not declared:
                    models[ci][name] = ("val", None)
            elif op == "def-fn":
                k = li + 10
                src = "function %s(){ return %d; }" % (fname, k)
                models[ci][fname] = ("fn", k)
            elif op == "eval-def":
                src = "eval(%s);" % repr("var %s = %s;" % (name, lsrc)).replace("\\'", "'")
                src = 'eval("var %s = %s;");' % (name, lsrc.replace('"', "'"))
                models[ci][name] = ("val", lval)
            elif op == "function-ctor-assign":
                if not declared:
                    continue
                src = 'new Function("%s = %s;")();' % (name, lsrc.replace('"', "'"))
                models[ci][name] = ("val", lval)
            elif op == "py-set":
                ctxs[ci].set(name, lval)
                models[ci][name] = ("val", lval)
                trace.append("ctx%d.set(%s, %r)" % (ci, name, lval))
            elif op == "mutate-builtin":
                wr, rd = BUILTINS[li % len(BUILTINS)]
                v = "m%d" % (ni + 10 * ci)
                src = "%s = '%s';" % (wr, v)
                bmods[ci][rd] = v
            elif op == "mutate-in-place":
                if not declared or ent[0] != "val" or not isinstance(ent[1], (list, dict)):
                    continue
                if isinstance(ent[1], list):
                    src = "%s.push(9);" % name
                    models[ci][name] = ("val", ent[1] + [9])
                else:
                    src = "%s.q = 9; delete %s.a;" % (name, name)
                    d = {k: v for k, v in ent[1].items() if k != "a"}
                    d["q"] = 9
                    models[ci][name] = ("val", d)
            elif op == "fail-syntax":
                src = "var %s = %s; var = ;" % (name, "'never'")
                expect_fail = True
            elif op == "fail-throw":
                src = "var %s = %s; throw new Error('boom');" % (name, lsrc)
                models[ci][name] = ("val", lval)
                expect_fail = True
            elif op == "fail-loop":
                if T is None:
                    continue
                src = "var %s = 0; while (true) { %s = %s + 1; }" % (name, name, name)
                models[ci][name] = ("atleast", 1)
                expect_fail = "TimeLimitError"
            elif op == "fail-recursion":
                if M is None:
                    continue
                src = "var %s = %s; (function rec(){ return rec() + 1; })();" % (name, lsrc)
                models[ci][name] = ("val", lval)
                expect_fail = "MemoryLimitError"
            elif op == "fail-callback":
                src = "var %s = %s; [1, 2].forEach(function(x){ var o = { get p(){ return null.x; } }; return o.p; });" % (name, lsrc)
                models[ci][name] = ("val", lval)
                expect_fail = True
            elif op == "deep-probe":
                if not hasdeep[ci]:
                    with pool.cpu_alarm(60):
                        built = ctxs[ci].eval(_build_deep("deepq", PROBE_DEPTH))
                    if built != "built":
                        return {"ctx": ci, "what": "building the deep global failed", "trace": trace[-6:], "actual": show(built)}
                    hasdeep[ci] = True
                trace.append("ctx%d: deep-probe get(deepq), eval('deepq')" % ci)
                got = [o[1:] for o in _ask(ctxs[ci], ["deepq"])]
                exp = [o[1:] for o in a0 if o[0] == "deep%d" % PROBE_DEPTH]
                if got != exp:
                    return {"ctx": ci, "what": "depth probe answers differently than on an untouched context", "trace": trace[-6:], "after": op, "expected": exp, "actual": got}
            elif op == "keep-regex":
                src = "var keptRe = /(a+)+b/;"
            elif op == "fail-eval-nesting":
                src = "var %s = %s; var dive = function(){ return eval('dive()'); }; dive();" % (name, lsrc)
                models[ci][name] = ("val", lval)
                expect_fail = "MemoryLimitError"
            elif op == "fail-native-depth":
                src = "var %s = %s; var nd = function(){ return [1].map(nd); }; nd();" % (name, lsrc)
                models[ci][name] = ("val", lval)
                expect_fail = "MemoryLimitError"
            elif op == "fail-regex-loop":
                if T is None:
                    continue
                src = "var %s = %s; for (;;) { /(a+)+b/.test('aaaaaaaaaaaaaaaaaaaaaaaac'); }" % (name, lsrc)
                models[ci][name] = ("val", lval)
                expect_fail = "TimeLimitError"
            elif op == "fail-regex":
                src = "var %s = %s; new RegExp('(');" % (name, lsrc)
                models[ci][name] = ("val", lval)
                expect_fail = True
            if src is not None:
                trace.append("ctx%d: %s" % (ci, src))
                try:
                    ev(ci, src)
                    if expect_fail:
                        return {"ctx": ci, "what": "failing eval did not fail", "trace": trace[-6:], "expected": expect_fail}
                except pool.HarnessTimeout:
                    return {"ctx": ci, "what": "hang", "trace": trace[-6:]}
                except Exception as ex:
                    info = engine.exc_info(ex)
                    if not expect_fail:
                        return {"ctx": ci, "what": "eval raised unexpectedly", "trace": trace[-6:], "actual": info}
                    if not info["family"]:
                        return {"ctx": ci, "what": "host exception", "trace": trace[-6:], "actual": info}
                    if isinstance(expect_fail, str) and info["cls"] != expect_fail:
                        return {"ctx": ci, "what": "wrong limit error", "trace": trace[-6:], "expected": expect_fail, "actual": info["cls"]}
            s1 = _settings()
            if s1 != s0:
                k = sorted(k for k in s0 if s0[k] != s1[k])[0]
                return {"ctx": ci, "what": "process-global setting changed: " + k, "trace": trace[-6:], "after": op, "expected": s0[k], "actual": s1[k]}
            if expect_fail or (ci, op, ni, li) == steps[-1]:
                a1 = _ask(W, WN)
                if a1 != a0:
                    return {"ctx": ci, "what": "depth probe on an untouched context changed", "trace": trace[-6:], "after": op, "expected": a0, "actual": a1}
            stepno = len(trace)
            if len(steps) < 50 or stepno % 10 == 0 or (ci, op, ni, li) == steps[-1]:
                # the whole probe battery after a failing eval and at the end, a light one otherwise
                bad = observe(full=bool(expect_fail) or stepno >= len(steps) - 1 or len(steps) >= 50)
                if bad:
                    bad["trace"] = trace[-6:]
                    bad["after"] = op
                    return bad
    except pool.HarnessTimeout:
        return {"what": "hang in observation", "trace": trace[-6:]}
    except Exception as ex:
        return {"what": "observation raised", "trace": trace[-6:], "actual": engine.exc_info(ex)}
    finally:
        if _settings() != s0:
            _restore_settings(s0)
    return None

# ---- objects the engine creates are fresh per context and per creation ------------------------------
# (creation expression, constructor it must be an instance of in the creating context or None,
#  True if its prototype is exactly that constructor's prototype)
TYPED = ["Int8Array", "Uint8Array", "Uint8ClampedArray", "Int16Array", "Uint16Array", "Int32Array", "Uint32Array", "Float32Array", "Float64Array"]
_CAUGHT = "(function(){ try { %s; } catch (e) { return e; } })()"
FRESH = [
    ("[]", "Array", True), ("[1, 2]", "Array", True), ("({})", "Object", True), ("({a: 1})", "Object", True), ("/a/", "RegExp", True), ("new RegExp('a', 'g')", "RegExp", True),
    ("new ArrayBuffer(0)", "ArrayBuffer", True), ("new ArrayBuffer(8)", "ArrayBuffer", True),
    ("''.split('')", "Array", True), ("'a,b'.split(',')", "Array", True), ("JSON.parse('[]')", "Array", True), ("JSON.parse('{}')", "Object", True),
    ("JSON.parse('{\"a\":[]}').a", "Array", True), ("Object.keys({})", "Array", True), ("Object.values({})", "Array", True), ("Object.entries({a: 1})", "Array", True),
    ("Object.entries({a: 1})[0]", "Array", True), ("(function(){ return arguments; })()", "Object", True), ("(function(){ return arguments; })(1, 2)", "Object", True),
    ("new Error('x')", "Error", True), ("Error('x')", "Error", True), ("new TypeError('x')", "TypeError", True), ("new RangeError('x')", "RangeError", True),
    ("new SyntaxError('x')", "SyntaxError", True), ("new ReferenceError('x')", "ReferenceError", True), ("new EvalError('x')", "EvalError", True), ("new URIError('x')", "URIError", True),
    ("new TypeError('x')", "Error", False),
    (_CAUGHT % "null.x", "TypeError", True), (_CAUGHT % "undefinedName", "ReferenceError", True), (_CAUGHT % "eval('var = ;')", "SyntaxError", True),
    (_CAUGHT % "new Array(-1)", "RangeError", True), (_CAUGHT % "JSON.parse('{')", "SyntaxError", True), (_CAUGHT % "new RegExp('(')", "SyntaxError", True),
    (_CAUGHT % "(1).toFixed(1000)", "RangeError", True),
    ("(function(){})", "Function", True), ("(function(){}).prototype", "Object", True), ("new Function('return 1')", "Function", True), ("new Function('return 1').prototype", "Object", True),
    ("new Function()", "Function", True), ("Function()", "Function", True), ("new Function().prototype", "Object", True), ("new Function('')", "Function", True),
    ("new Function('a', 'return a')", "Function", True), ("eval('(function(){})')", "Function", True), ("(() => 1)", "Function", True), ("new RegExp('')", "RegExp", True),
    ("new RegExp('a', 'g')", "RegExp", True), ("RegExp('a')", "RegExp", True), ("new Array()", "Array", True), ("new Object()", "Object", True), ("Object()", "Object", True),
    ("new Array(0)", "Array", True), ("Array()", "Array", True), ("[].concat()", "Array", True), ("''.match(/(?:)/)", "Array", True),
    ("(function(){}).bind(null)", "Function", True), ("Object.create(null)", None, False), ("Object.create({})", "Object", False), ("new (function K(){})()", "Object", False),
    ("new Object()", "Object", True), ("new Array()", "Array", True), ("Array(0)", "Array", True), ("new Array(2)", "Array", True), ("[].slice()", "Array", True), ("[1].concat()", "Array", True),
    ("[].map(function(x){ return x; })", "Array", True), ("[].filter(function(x){ return x; })", "Array", True), ("/a/.exec('a')", "Array", True), ("'aa'.match(/a/g)", "Array", True),
    ("Object.assign({}, {})", "Object", True), ("[].splice(0)", "Array", True), ("[3, 1].sort()", "Array", True), ("[1].reverse()", "Array", True),
    ("Object.getOwnPropertyDescriptor({a: 1}, 'a')", "Object", True), ("'abc'.split('').reverse()", "Array", True),
    ("new Uint8Array(2).subarray(0, 0)", "Uint8Array", True), ("new Uint8Array(2).subarray(0, 0).buffer", "ArrayBuffer", True), ("new Uint8Array(2).subarray(1).buffer", "ArrayBuffer", True),
    ("new Uint8Array(new ArrayBuffer(0))", "Uint8Array", True), ("new Uint8Array(new ArrayBuffer(0)).buffer", "ArrayBuffer", True), ("new Int16Array(new ArrayBuffer(4), 2).buffer", "ArrayBuffer", True),
]
for _t in TYPED:
    for _a in ("", "0", "2", "[]", "[1]", "new %s(0)" % _t, "new %s(1)" % _t, "new Uint8Array(0)"):
        FRESH.append(("new %s(%s)" % (_t, _a), _t, True))
        FRESH.append(("new %s(%s).buffer" % (_t, _a), "ArrayBuffer", True))
# C08-function-object (known finding): functions are not objects of the engine's object model, Object.getPrototypeOf(f)
# is null and f instanceof Function is false: for them only the freshness clauses are judged.
FUNCTION_OBJECT = "C08-function-object: instanceof / prototype clauses not judged for function objects"


def run_fresh(task):
    """task = (config A, config B, (expr, ctor, exact), (pre, thr, swap)).
    Context A writes a property on what the expression creates (pre: after B has created one of the kind; thr: in
    an eval that then throws); a second creation in A and a creation in B must not show it, must be distinct
    objects, must belong to the constructor of their own context; a property put on A's constructor prototype is
    inherited in A and invisible in B; what B writes on its object does not reach A's."""
    ca, cb, (e, C, exact), (pre, thr, swap) = task
    m = engine.load()
    if swap:
        B = m.Context(time_limit=CONFIGS[cb][0], memory_limit=CONFIGS[cb][1])
        A = m.Context(time_limit=CONFIGS[ca][0], memory_limit=CONFIGS[ca][1])
    else:
        A = m.Context(time_limit=CONFIGS[ca][0], memory_limit=CONFIGS[ca][1])
        B = m.Context(time_limit=CONFIGS[cb][0], memory_limit=CONFIGS[cb][1])
    isfn = C == "Function"
    trace = []

    def step(ctx, label, src, expected, what, fails=False):
        trace.append("%s: %s" % (label, src))
        try:
            with pool.cpu_alarm(30):
                r = ctx.eval(src)
            if fails:
                return {"what": "failing eval did not fail", "trace": trace[-4:]}
        except pool.HarnessTimeout:
            return {"what": "hang", "trace": trace[-4:]}
        except Exception as ex:
            info = engine.exc_info(ex)
            if fails and info["family"]:
                return None
            return {"what": "creation or observation raises", "trace": trace[-4:], "actual": info}
        if fails:
            return None
        for w, x, a in zip(what, expected, r if isinstance(r, list) else [r]):
            if not neq(a, x):
                return {"what": w, "trace": trace[-4:], "expected": x, "actual": show(a)}
        return None

    inst = "true" if (C is None or isfn) else "o instanceof %s" % C
    proto = "true" if (not exact or isfn) else "Object.getPrototypeOf(o) === %s.prototype" % C
    plan = []
    if pre:
        plan.append((B, "B", "var o0 = (%s); typeof o0.zzf" % e, ["undefined"], ["pristine creation has the property"]))
    if thr:
        plan.append((A, "A", "var o1 = (%s); o1.zzf = 'A1'; throw new Error('boom');" % e, None, None))
    else:
        plan.append((A, "A", "var o1 = (%s); o1.zzf = 'A1'; o1.zzf" % e, ["A1"], ["property written on the created object is lost"]))
    plan.append((A, "A", "var o = (%s); var o2 = o; [o1.zzf, typeof o2.zzf, o1 !== o2, %s, %s]" % (e, inst, proto), ["A1", "undefined", True, True, True],
                 ["property written on the created object is lost", "second creation in the same context shows the property of the first", "two creations are one object",
                  "created object is not an instance of its context's constructor", "created object does not have its context's constructor prototype"]))
    plan.append((B, "B", "var o = (%s); [typeof o.zzf, %s, %s]" % (e, inst, proto), ["undefined", True, True],
                 ["creation in another context shows the property", "created object is not an instance of its context's constructor", "created object does not have its context's constructor prototype"]))
    if pre:
        plan.append((B, "B", "typeof o0.zzf", ["undefined"], ["object created earlier in another context shows the property"]))
    if C is not None and not isfn:
        plan.append((A, "A", "%s.prototype.zzp = 'AP'; [o1.zzp, (%s).zzp]" % (C, e), ["AP", "AP"], ["created object does not inherit from its context's constructor prototype"] * 2))
        plan.append((B, "B", "[typeof o.zzp, typeof (%s).zzp, typeof %s.prototype.zzp]" % (e, C), ["undefined"] * 3,
                     ["prototype property of another context is inherited", "prototype property of another context is inherited", "built-in prototype mutation leaked"]))
    plan.append((B, "B", "o.zzf = 'B1'; o.zzf", ["B1"], ["property written on the created object is lost"]))
    plan.append((A, "A", "[o1.zzf, typeof o2.zzf, typeof (%s).zzf]" % e, ["A1", "undefined", "undefined"],
                 ["property overwritten from another context", "second creation in the same context shows the property of the first", "later creation shows the property"]))
    for (ctx, label, src, expected, what) in plan:
        bad = step(ctx, label, src, expected, what, fails=expected is None)
        if bad:
            return bad
    return None


def run_fresh_batch(tasks):
    return [run_fresh(t) for t in tasks]


def fresh_campaign(chk, quick):
    rnd = random.Random(core.shard_seed(chk.seed, "C12", "fresh"))
    tasks = []
    for ent in FRESH:
        for pre in (0, 1):
            for thr in (0, 1):
                for swap in ((rnd.randrange(2),) if quick else (0, 1)):
                    for _ in range(1 if quick else 3):
                        tasks.append((rnd.randrange(len(CONFIGS)), rnd.randrange(len(CONFIGS)), ent, (pre, thr, swap)))
    batches = pool.chunks(tasks, 40)
    res = pool.run(run_fresh_batch, batches, timeout=600, init=_init_virtual)
    for b, rb in zip(batches, res):
        if isinstance(rb, (pool.HANG, pool.CRASH)):
            rs = pool.run(run_fresh_batch, [[t] for t in b], timeout=100, init=_init_virtual)
            rb = [{"what": "HANG" if isinstance(r, pool.HANG) else "CRASH"} if isinstance(r, (pool.HANG, pool.CRASH)) else r[0] for r in rs]
        for (ca, cb, ent, var), bad in zip(b, rb):
            chk.count()
            chk.classify("fresh objects: " + (ent[1] or "no constructor"))
            chk.nontrivial(core.h16(["fresh", ent[0], ent[1], list(var)]))
            if ent[1] == "Function":
                chk.excluded[FUNCTION_OBJECT] += 1
            case = {"kind": "fresh", "configs": [ca, cb], "entry": list(ent), "variant": list(var)}
            if bad:
                case["trace"] = bad.get("trace")
                chk.violation("fresh|%s|%s" % (bad.get("what"), ent[1]), case, bad.get("expected"), {k: v for k, v in bad.items() if k not in ("trace", "expected")}, sub="fresh")
            elif var == (1, 1, 0) or var == (1, 1, 1):
                chk.sample({"creation": ent[0], "constructor": ent[1], "outcome": "fresh in both contexts and per creation"}, cls="fresh", per_class=4)
    chk.extra["fresh_creation_expressions"] = len(FRESH)


def run_histories(tasks):
    return [run_history(t) for t in tasks]


def _init_virtual():
    # Time-limited contexts run under the virtual clock (1 ms per clock read): a probe can never reach the
    # limit because the machine is busy, and an interrupted loop ends after exactly T/delta reads.
    vclock.install()


def nontrivial_history(steps):
    fails = [i for i, s in enumerate(steps) if s[1].startswith("fail")]
    for i in fails:
        if sum(1 for s in steps[i + 1:] if s[0] == steps[i][0] and not s[1].startswith("fail")) >= 2:
            return True
    for i, s in enumerate(steps):
        if s[1] == "mutate-builtin" and any(t[0] != s[0] for t in steps[i + 1:]):
            return True
        if s[1] == "deep-probe" and any(t[1].startswith("fail") for t in steps[:i]):
            return True
    return False


def main(chk):
    chk.rule = (
        "histories over a %d-operation alphabet (definitions, Python set, built-in mutations, six kinds of failing eval) on 2-3 "
        "contexts with different limits, model-checked after every step on every context (globals via get and eval, undefined "
        "names, built-in isolation, 12-probe battery); non-trivial = a failing eval followed by >= 2 successful operations on the "
        "same context, or a built-in mutation followed by operations on another context, or a depth probe after a failing eval; "
        "distinct by history.  After every step the host's process-wide settings are unchanged; the depth probe (get/eval of "
        "globals nested 100/1500/3000 deep) answers the same on an untouched witness context after every failing eval.  "
        "Fresh objects: %d creation expressions x {other context created one first} x {write inside a failing eval}: writes on the "
        "object and on its constructor prototype stay on that object / in that context" % (len(OPS_RANDOM), len(FRESH))
    )
    chk.assumptions = ["time-limited contexts run under the virtual clock (T = 80 clock reads), so no outcome depends on machine load; the model of an interrupted counter loop is only monotone (>=)"]
    for path, rec in core.saved_replays("C12"):
        r = replay(rec)
        chk.count()
        if r["fails"]:
            chk.violation("saved-replay|" + path, rec.get("case"), r["expected"], r["actual"], sub="replay")
    quick = chk.tier == "quick"
    fresh_campaign(chk, quick)
    tasks = []
    # exhaustive: all histories of length L over (context, op) with name/literal rotated
    L = 3
    alphabet = [(c, op) for c in (0, 1) for op in OPS]
    allh = itertools.product(alphabet, repeat=L)
    for idx, h in enumerate(allh):
        if quick and (idx + chk.seed) % 30 != 0:
            continue
        steps = [(c, op, (idx + j) % 3, (idx // 3 + j) % len(LITS)) for j, (c, op) in enumerate(h)]
        tasks.append(((3, 0), steps))
    exhaustive_n = len(tasks)
    # the same failure repeated many times on one context: nothing may accumulate (counters, handlers, caches)
    for op in REPEATABLE_FAILS:
        for cfg in (3, 1, 2):
            reps = 70 if op not in ("fail-loop", "fail-regex-loop") else 8
            steps = [(0, op, 0, 1)] * reps + [(0, "def-var", 1, 2), (1, "def-var", 2, 3)]
            tasks.append(((cfg, 0), steps))
    # the depth probe before and after every kind of failing eval, on the same and on another context
    for op in REPEATABLE_FAILS:
        for cfgs in ((3, 0), (0, 3), (1, 2)):
            for fc in (0, 1):
                tasks.append((cfgs, [(0, "deep-probe", 0, 1), (fc, op, 1, 2), (0, "deep-probe", 0, 1), (1, "deep-probe", 0, 1), (fc, op, 2, 3), (0, "def-var", 0, 4), (1, "deep-probe", 0, 1)]))
    rnd = random.Random(core.shard_seed(chk.seed, "C12", "random"))
    for _ in range(400 if quick else 8000):
        k = rnd.choice([2, 3])
        cfgs = tuple(rnd.randrange(len(CONFIGS)) for _ in range(k))
        n = rnd.randint(8, 40)
        steps = [(rnd.randrange(k), rnd.choice(OPS_RANDOM), rnd.randrange(3), rnd.randrange(len(LITS))) for _ in range(n)]
        tasks.append((cfgs, steps))
    if not quick:
        for _ in range(20000):
            steps = [(rnd.randrange(2), rnd.choice(OPS_RANDOM), rnd.randrange(3), rnd.randrange(len(LITS))) for _ in range(4)]
            tasks.append(((3, 1), steps))
    chk.extra["exhaustive_histories_len3"] = exhaustive_n
    batches = pool.chunks(tasks, 40)
    seen_sigs = set()
    res = pool.run(run_histories, batches, timeout=1200, init=_init_virtual)
    for b, rb in zip(batches, res):
        if isinstance(rb, (pool.HANG, pool.CRASH)):
            rs = pool.run(run_histories, [[t] for t in b], timeout=200, init=_init_virtual)
            rb = [("HANG" if isinstance(r, pool.HANG) else "CRASH") if isinstance(r, (pool.HANG, pool.CRASH)) else r[0] for r in rs]
        for (cfgs, steps), bad in zip(b, rb):
            chk.count()
            chk.classify("history length %d" % min(len(steps), 10))
            if nontrivial_history(steps):
                chk.nontrivial(core.h16([cfgs, steps]))
            case = {"configs": list(cfgs), "steps": [list(s) for s in steps]}
            if bad in ("HANG", "CRASH"):
                chk.violation("history|" + bad, case, None, bad, sub="history")
            elif bad:
                presig = "%s|%s" % (bad.get("what"), bad.get("after"))
                small = shrink(cfgs, steps, bad) if presig not in seen_sigs else (steps, bad)
                seen_sigs.add(presig)
                case = {"configs": list(cfgs), "steps": [list(s) for s in small[0]], "trace": small[1].get("trace")}
                b2 = small[1]
                sig = "history|%s|%s" % (b2.get("what"), b2.get("after") or (b2.get("actual", {}).get("cls") if isinstance(b2.get("actual"), dict) else ""))
                chk.violation(sig, case, b2.get("expected"), {k: v for k, v in b2.items() if k not in ("trace", "expected")}, sub="history")
            elif len(steps) >= 6:
                chk.sample({"configs": [CONFIGS[c] for c in cfgs], "steps": [[s[0], s[1]] for s in steps[:12]], "outcome": "agrees with the model after every step"}, cls="h", per_class=6)
    chk.exhaustive = False


def shrink(cfgs, steps, bad):
    """Drop steps while the history still fails (same 'what').  Runs in a virtual-clock worker."""
    r = pool.run(_shrink_worker, [(cfgs, list(steps), bad)], timeout=900, init=_init_virtual)[0]
    return r if not isinstance(r, (pool.HANG, pool.CRASH)) else (list(steps), bad)


def _shrink_worker(arg):
    cfgs, steps, bad = arg
    cur, curbad = list(steps), bad
    i = 0
    while i < len(cur) and len(cur) > 1:
        cand = cur[:i] + cur[i + 1:]
        b = run_history((cfgs, cand))
        if b and b.get("what") == curbad.get("what"):
            cur, curbad = cand, b
        else:
            i += 1
    return cur, curbad


def replay(rec):
    case = rec["case"]
    if case.get("kind") == "fresh":
        ent = case["entry"]
        bad = pool.run(run_fresh, [(case["configs"][0], case["configs"][1], (ent[0], ent[1], ent[2]), tuple(case["variant"]))], timeout=100, init=_init_virtual)[0]
        if isinstance(bad, (pool.HANG, pool.CRASH)):
            bad = {"what": repr(bad)}
        return {"fails": bool(bad), "expected": (bad or {}).get("expected"), "actual": bad or "agrees"}
    bad = pool.run(run_history, [(tuple(case["configs"]), [tuple(s) for s in case["steps"]])], timeout=600, init=_init_virtual)[0]
    if isinstance(bad, (pool.HANG, pool.CRASH)):
        bad = {"what": repr(bad)}
    return {"fails": bool(bad), "expected": (bad or {}).get("expected"), "actual": bad or "agrees"}
