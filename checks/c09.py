"""C09 - regular expressions match exactly as ECMAScript backtracking specifies.

Campaigns
  exh   every pattern AST of <= 3 nodes over the small alphabet (gens/patterns.py) x every subject over
        {a,b,c} up to length 4 (thorough: 5) x flags {"", i}, plus special subjects (upper case, newline,
        CR LF, U+2028, digit, underscore, space) x flags {"", i, m, s, ims}; the 4-node patterns as a
        VERIF_SEED-rotated 1/8 slice (thorough: all of them); thorough adds a seeded sample of 5-node patterns.
  seq3  every sequence of three terms from a pool of 51 small terms (atoms, quantified atoms of every kind,
        optional / repeated / alternating groups, \\1, $, \\b, the four lookarounds) x subjects up to length 4:
        the interactions between neighbouring terms; VERIF_SEED-rotated 1/20 slice (thorough: all ~127 000).
  life  capture-lifetime families (gens/patterns.enumerate_lifetime, ~1600 patterns): a backreference inside
        its own group reached again after backtracking, a capture of an earlier iteration read by a later
        one, captures inside look-arounds of a repeated body x subjects up to length 4; quick: half.
  rand  random ASTs of depth <= 3 (half through the Hypothesis strategy, half through the seeded generator)
        with subjects of length <= 12 over "abcABC019_ \\n" derived from the pattern (random walk + 0-2 edits).
  js    a 5 % sample of all cases again through script-level `new RegExp(p, f).exec(s)` and `/p/f.exec(s)`.

Oracle: oracles/reref.py (transcription of ECMA-262 22.2.2) against microjs.regex.RegExp(p, f).exec(s):
match / no match, index, matched text, every capture (None = undefined).
"""
import collections
import json
import os
import random

from gens import patterns as P
from oracles import reref
from vf import core, engine, pool

ID = "C09"
FLAGS_ABC = ["", "i"]
FLAGS_SPECIAL = ["", "i", "m", "s", "ims"]
RAND_FLAGS = ["", "", "i", "i", "m", "s", "im", "is", "ms", "ims"]
SUBJECTS_PER_PATTERN = 4
EXOTIC_ALPHABET = P.RANDOM_ALPHABET + "\r\t\u2028\u00a0\x1c\u0663\u00e9"
GROUP_CPU_SECONDS = 2  # one pattern x one flag set x all its subjects normally costs < 0.05 s
MAX_TIMEOUTS_PER_TASK = 2  # a task gives up after that many (the run is then marked truncated)
MAX_SHRINKS_PER_SHARD = 12  # further mismatches of a shard are reported as generated
ENGINE_BUDGET_REF_STEPS = 20000  # fallback bound when the engine's VM cannot be re-run with a larger budget

# ------------------------------------------------------------------------- guards
# Named, narrow predicates over (ast, flags).  A guard is active only while a *known* finding lists it
# and its repro still fails as recorded; guarded patterns are then skipped in every campaign (counted in
# excluded_by_finding).  Single enumerated cells can be listed through cells_file instead (exh3 / exh4
# mismatches go through chk.cell with key = JSON [pattern, flags, subject]).
# With the seven proposed C09 patches applied no guard is needed; the predicates below are the fallback
# should the lookaround patch be taken only in part (see checks/c09_notes.md).


def _look_bodies(ast, ahead):
    for x in P.walk(ast):
        if x[0] == "look" and x[1] == ahead:
            yield x


def g_lookbehind_group(ast, flags):
    """a lookbehind whose body contains a capturing group or a backreference"""
    for lb in _look_bodies(ast, False):
        for y in P.walk(lb[3]):
            if y[0] in ("group", "backref"):
                return True
    return False


def g_lookbehind_nested_lookahead_group(ast, flags):
    """a lookbehind whose body contains a lookahead with a capturing group"""
    for lb in _look_bodies(ast, False):
        for y in P.walk(lb[3]):
            if y[0] == "look" and any(z[0] == "group" for z in P.walk(y)):
                return True
    return False


def g_look_any(ast, flags):
    """the pattern contains a lookahead or lookbehind"""
    return any(x[0] == "look" for x in P.walk(ast))


GUARDS = {
    "re.lookbehind.body_has_group_or_backref": g_lookbehind_group,
    "re.lookbehind.body_has_lookahead_with_group": g_lookbehind_nested_lookahead_group,
    "re.look.any": g_look_any,
}

_active_guards = {}  # name -> finding id (set in main, inherited by forked workers)


def guarded(ast, flags):
    for name, fid in _active_guards.items():
        if GUARDS[name](ast, flags):
            return fid
    return None


# ------------------------------------------------------------------- engine side
def _regexp_class():
    engine.load()
    from microjs.regex import RegExp

    return RegExp


def engine_construct(ptext, flags):
    """-> RegExp object or ["exception", class, message]"""
    RegExp = _regexp_class()
    try:
        return RegExp(ptext, flags)
    except pool.HarnessTimeout:
        raise
    except Exception as e:  # RegExpError included: every generated pattern is valid ECMAScript
        return ["exception", type(e).__name__, str(e)[:80]]


def engine_exec(R, subject):
    """-> None | [index, end, [captures]] | ["exception", class, message]"""
    try:
        R.lastIndex = 0
        m = R.exec(subject)
    except pool.HarnessTimeout:
        raise
    except Exception as e:
        return ["exception", type(e).__name__, str(e)[:80]]
    if m is None:
        return None
    try:
        idx = m.index
        text = m[0]
        caps = [m[i] for i in range(1, len(m))]
    except Exception as e:
        return ["exception", type(e).__name__, str(e)[:80]]
    if not isinstance(idx, int) or not isinstance(text, str):
        return ["bad-result", repr(idx)[:30], repr(text)[:30]]
    if subject[idx : idx + len(text)] != text:
        return ["bad-text", idx, text, caps]
    return [idx, idx + len(text), caps]


def engine_budget_exhausted(R, subject, first):
    """True when the engine's answer changes if its per-attempt step budget is multiplied by 10
    (the case is then outside the property's scope).  None when the VM cannot be driven that way."""
    try:
        from microjs.regex.vm import RegexVM

        vm = RegexVM(R._bytecode, R._capture_count, R.flags, None, R._stack_limit, R._poll_interval)
        vm.step_limit = 10 * vm.step_limit
        m = vm.search(subject, 0)
        if m is None:
            second = None
        else:
            second = [m.index, m.index + len(m[0]), [m[i] for i in range(1, len(m))]]
        return second != first
    except pool.HarnessTimeout:
        raise
    except Exception:
        return None


def ref_result(prog, subject):
    r = prog.search(subject)
    return None if r is None else [r[0], r[1], r[2]]


def diff_kind(exp, act):
    if isinstance(act, list) and act and isinstance(act[0], str):
        return "exc:" + str(act[1]) if act[0] == "exception" else act[0]
    if exp is None:
        return "spurious-match"
    if act is None:
        return "missed-match"
    if exp[0] != act[0]:
        return "index"
    if exp[1] != act[1]:
        return "text"
    return "captures"


def cell_key(ptext, flags, subject):
    return json.dumps([ptext, flags, subject], ensure_ascii=True)


def signature(sub, exp, act, ast):
    return "%s|%s|%s" % (sub, diff_kind(exp, act), ",".join(P.kinds(ast)))


class _Stats:
    def __init__(self):
        self.count = 0
        self.nontrivial = 0
        self.nontrivial_keys = []  # only filled by the random campaign (duplicates possible there)
        self.classes = collections.Counter()
        self.mismatches = []
        self.samples = []
        self.oos = 0
        self.budget = 0
        self.excluded = collections.Counter()
        self.js_cases = []
        self.timeouts = 0
        self.aborted = False

    def pack(self):
        return {"count": self.count, "nontrivial": self.nontrivial, "keys": self.nontrivial_keys,
                "classes": dict(self.classes), "mismatches": self.mismatches, "samples": self.samples,
                "oos": self.oos, "budget": self.budget, "excluded": dict(self.excluded), "js": self.js_cases,
                "aborted": self.aborted}


def _structured(ast):
    for x in P.walk(ast):
        if x[0] in ("quant", "alt", "group", "ncgroup", "look", "bol", "eol", "wb", "backref"):
            return True
    return False


def compare_pattern(ast, ptext, flag_sets, st, sub, js_pick=None, keep_keys=False):
    """Run one pattern under several (flags, subjects) sets and record the outcome in st.
    flag_sets: list of (flags, subjects).  js_pick(i) -> bool selects cases for the script-level sample."""
    structured = _structured(ast)
    kinds = P.kinds(ast)
    n_case = 0
    for flags, subjects in flag_sets:
        prog = reref.Prog(ast, flags)
        try:
            with pool.cpu_alarm(GROUP_CPU_SECONDS):
                R = engine_construct(ptext, flags)
                results = []
                if not isinstance(R, list):
                    for s in subjects:
                        results.append(engine_exec(R, s))
        except pool.HarnessTimeout:
            st.count += 1
            st.timeouts += 1
            st.mismatches.append({"ast": ast, "pattern": ptext, "flags": flags, "subject": None,
                                  "expected": "terminates",
                                  "actual": ["exception", "HarnessTimeout", "%d s CPU" % GROUP_CPU_SECONDS]})
            continue
        if isinstance(R, list):
            st.count += 1
            st.mismatches.append({"ast": ast, "pattern": ptext, "flags": flags, "subject": None,
                                  "expected": "constructs", "actual": R})
            continue
        for s, act in zip(subjects, results):
            n_case += 1
            try:
                exp = ref_result(prog, s)
            except reref.OutOfScope:
                st.oos += 1
                continue
            st.count += 1
            nontriv = structured and (exp is not None or prog.consumed > 0)
            if nontriv:
                st.nontrivial += 1
                if keep_keys:
                    st.nontrivial_keys.append(core.h16([ptext, flags, s]))
            if exp != act:
                # out of scope when the engine ran out of its step budget
                ex = engine_budget_exhausted(R, s, act) if prog.steps > 500 else False
                if ex or (ex is None and prog.steps > ENGINE_BUDGET_REF_STEPS):
                    st.budget += 1
                    st.count -= 1
                    continue
                st.mismatches.append({"ast": ast, "pattern": ptext, "flags": flags, "subject": s,
                                      "expected": exp, "actual": act})
            else:
                if js_pick is not None and js_pick(n_case):
                    st.js_cases.append((ptext, flags, s, exp))
                if nontriv and len(st.samples) < 3 and (len(ptext) * 131 + n_case * 7) % 1013 == 0:
                    st.samples.append({"pattern": ptext, "flags": flags, "subject": s, "expected": exp, "actual": act})
        st.classes["flags:" + (flags or "-")] += len(subjects)
    for k in kinds:
        st.classes[k] += n_case
    st.classes["campaign:" + sub] += n_case


# ---------------------------------------------------------------- exhaustive part
_PATTERNS = []  # filled in the parent before forking: list of (ast, text)
_SUBJ_ABC = []
_SEED = 1


def exh_task(task):
    lo, hi, sub = task
    st = _Stats()
    for i in range(lo, hi):
        ast, ptext = _PATTERNS[i]
        if sub in ("seq3", "life"):
            sets = [("", _SUBJ_ABC)] if sub == "seq3" else [("", _SUBJ_ABC), ("i", _SUBJ_ABC[::3])]
        else:
            sets = [(f, _SUBJ_ABC) for f in FLAGS_ABC] + [(f, P.SPECIAL_SUBJECTS) for f in FLAGS_SPECIAL]
        fid = guarded(ast, "")
        if fid:
            st.excluded[fid] += sum(len(subs) for _, subs in sets)
            continue
        pick = (lambda n, i=i: (i * 7919 + n * 31 + _SEED) % 20 == 0)
        compare_pattern(ast, ptext, sets, st, sub, js_pick=pick)
        if st.timeouts >= MAX_TIMEOUTS_PER_TASK:
            st.aborted = True
            break
    return st.pack()


# -------------------------------------------------------------------- random part
def _mismatch_once(ast, flags, subject):
    """(expected, actual) when the engine disagrees with the reference on this triple, else None."""
    if not P.valid(ast):
        return None
    try:
        prog = reref.Prog(ast, flags)
        exp = ref_result(prog, subject)
    except reref.OutOfScope:
        return None
    try:
        with pool.cpu_alarm(GROUP_CPU_SECONDS):
            R = engine_construct(P.to_source(ast), flags)
            if isinstance(R, list):
                return ("constructs", R)
            act = engine_exec(R, subject)
            if exp != act and prog.steps > 500 and engine_budget_exhausted(R, subject, act):
                return None
    except pool.HarnessTimeout:
        return ("terminates", ["exception", "HarnessTimeout", "%d s CPU" % GROUP_CPU_SECONDS])
    if exp != act:
        return (exp, act)
    return None


def shrink_case(ast, flags, subject, kind, budget=250):
    """Greedy shrink of a failing triple keeping the kind of difference; candidates under an active guard
    are not accepted (they would be re-attributed to a known finding)."""
    cur = (ast, flags, subject)
    r = _mismatch_once(*cur)
    if r is None:
        return ast, flags, subject, None
    best = r
    spent = 0
    progress = True
    while progress and spent < budget:
        progress = False
        a, f, s = cur
        cands = []
        for i in range(len(s)):
            cands.append((a, f, s[:i] + s[i + 1 :]))
        for fl in ("i", "m", "s"):
            if fl in f:
                cands.append((a, f.replace(fl, ""), s))
        for b in P.shrink_candidates(a):
            cands.append((b, f, s))
        for c in cands:
            if spent >= budget:
                break
            if guarded(c[0], c[1]):
                continue
            spent += 1
            r = _mismatch_once(*c)
            if r is not None and diff_kind(*r) == kind:
                cur = c
                best = r
                progress = True
                break
    return cur[0], cur[1], cur[2], best


def rand_task(task):
    mode, shard, n, seed = task
    examples = []
    if mode == "hyp":
        import hypothesis
        from hypothesis import strategies as hst, settings, HealthCheck

        @hypothesis.seed(core.shard_seed(seed, ID, "hyp", shard))
        @settings(max_examples=n, database=None, deadline=None, derandomize=False,
                  suppress_health_check=[HealthCheck.too_slow, HealthCheck.data_too_large],
                  phases=[hypothesis.Phase.generate])
        @hypothesis.given(P.ast_strategy(3), hst.sampled_from(RAND_FLAGS), hst.integers(0, 2**32 - 1))
        def collect(a, f, s):
            examples.append((a, f, s))

        collect()
    else:
        rnd = random.Random(core.shard_seed(seed, ID, "rnd", shard))
        for _ in range(n):
            examples.append((P.random_ast(rnd, 3), rnd.choice(RAND_FLAGS), rnd.randrange(2**32)))
    st = _Stats()
    seen = set()
    shrunk = 0
    for j, (ast, flags, sseed) in enumerate(examples):
        if st.timeouts >= MAX_TIMEOUTS_PER_TASK:
            st.aborted = True
            break
        ptext = P.to_source(ast)
        if (ptext, flags, sseed) in seen:
            continue
        seen.add((ptext, flags, sseed))
        fid = guarded(ast, flags)
        if fid:
            st.excluded[fid] += SUBJECTS_PER_PATTERN
            continue
        r = random.Random(sseed)
        subjects = []
        for k in range(SUBJECTS_PER_PATTERN):
            # every 4th subject may also use characters that separate the ECMAScript classes from the host's
            # (CR, TAB, U+2028, NBSP, U+001C, ARABIC-INDIC DIGIT THREE, e-acute: \s, \d, \w, \b, ., ^, $)
            s = P.subject_for(ast, flags, r, alphabet=EXOTIC_ALPHABET if k == 3 else P.RANDOM_ALPHABET)
            if s not in subjects:
                subjects.append(s)
        pick = (lambda k, j=j: (j * 7919 + k * 31 + seed) % 20 == 0)
        before = len(st.mismatches)
        compare_pattern(ast, ptext, [(flags, subjects)], st, "rand-" + mode, js_pick=pick, keep_keys=True)
        st.classes["size:%02d-%02d" % (min(P.size(ast), 40) // 5 * 5, min(P.size(ast), 40) // 5 * 5 + 4)] += len(subjects)
        # shrink the first mismatch of this pattern, drop the others (same pattern)
        new = st.mismatches[before:]
        del st.mismatches[before:]
        if new:
            mm = new[0]
            if mm["subject"] is not None and shrunk < MAX_SHRINKS_PER_SHARD:
                shrunk += 1
                kind = diff_kind(mm["expected"], mm["actual"])
                a2, f2, s2, r2 = shrink_case(ast, flags, mm["subject"], kind)
                if r2 is not None:
                    mm = {"ast": a2, "pattern": P.to_source(a2), "flags": f2, "subject": s2, "expected": r2[0],
                          "actual": r2[1], "from": {"pattern": ptext, "flags": flags, "subject": mm["subject"]}}
            mm["others"] = len(new) - 1
            st.mismatches.append(mm)
    return st.pack()


# ------------------------------------------------------------- script-level part
_JS_PRELUDE = (
    "var out = [];\n"
    "var enc = function (m) { if (m === null) { return null; } var c = []; "
    "for (var i = 1; i < m.length; i++) { c.push(m[i] === undefined ? null : [m[i]]); } return [m.index, m[0], c]; };\n"
)


def _js_str(s):
    return json.dumps(s, ensure_ascii=True)


def js_exprs(ptext, flags, subject):
    lit = "/%s/%s" % (ptext if ptext else "(?:)", flags)
    return ["enc(new RegExp(%s, %s).exec(%s))" % (_js_str(ptext), _js_str(flags), _js_str(subject)),
            "enc((%s).exec(%s))" % (lit, _js_str(subject))]


def _js_decode(v):
    if v is None:
        return None
    try:
        idx, text, caps = v
        return [idx, idx + len(text), [None if c is None else c[0] for c in caps]]
    except Exception:
        return ["bad-result", repr(v)[:60]]


def js_eval_exprs(exprs):
    """Evaluate expressions in one script; on a script-level error fall back to one script each."""
    m = engine.load()
    src = _JS_PRELUDE + "".join("out.push(%s);\n" % e for e in exprs) + "out"
    try:
        with pool.cpu_alarm(40):
            r = m.Context(time_limit=20).eval(src)
        if isinstance(r, list) and len(r) == len(exprs):
            return [_js_decode(v) for v in r]
    except pool.HarnessTimeout:
        pass
    except Exception:
        pass
    out = []
    slow = 0
    for e in exprs:
        if slow >= 3:
            out.append(["skipped"])
            continue
        try:
            with pool.cpu_alarm(8):
                r = m.Context(time_limit=4).eval(_JS_PRELUDE + "out.push(%s);\nout" % e)
            out.append(_js_decode(r[0]) if isinstance(r, list) and len(r) == 1 else ["bad-result", repr(r)[:60]])
        except pool.HarnessTimeout:
            slow += 1
            out.append(["exception", "HarnessTimeout", ""])
        except Exception as ex:
            info = engine.exc_info(ex)
            if info["cls"] == "TimeLimitError":
                slow += 1
            out.append(["exception", info["cls"], (info.get("message") or "")[:80]])
    return out


def js_task(cases):
    exprs = []
    for ptext, flags, subject, exp in cases:
        exprs.extend(js_exprs(ptext, flags, subject))
    got = js_eval_exprs(exprs)
    bad = []
    skipped = 0
    for k, (ptext, flags, subject, exp) in enumerate(cases):
        for via, g in (("constructor", got[2 * k]), ("literal", got[2 * k + 1])):
            if g == ["skipped"]:
                skipped += 1
            elif g != exp:
                bad.append({"pattern": ptext, "flags": flags, "subject": subject, "via": via, "expected": exp, "actual": g})
    return {"count": 2 * len(cases) - skipped, "bad": bad, "skipped": skipped}


# ----------------------------------------------------------------------- the check
class _CountingSet(set):
    """distinct_nontrivial for the enumerated campaign is a count: the cells are distinct by construction
    (patterns de-duplicated by text x distinct subjects x distinct flag sets), and a set of 10^7 keys would
    not fit.  vf.core only uses add/update/len on this object."""

    extra = 0

    def __len__(self):
        return set.__len__(self) + self.extra


def _merge(chk, res, sub, js_cases):
    for r in res:
        if isinstance(r, (pool.HANG, pool.CRASH)) or r is None:
            raise engine.HarnessError("C09 %s batch %r" % (sub, r))
        chk.count(r["count"])
        if r.get("aborted"):
            chk.truncated = True
            chk.extra["aborted_tasks"] = chk.extra.get("aborted_tasks", 0) + 1
        if r["keys"]:
            chk.nontrivial_many(r["keys"])
        else:
            chk._nontrivial.extra += r["nontrivial"]
        for k, v in r["classes"].items():
            chk.classify(k, v)
        chk.extra["reference_out_of_scope"] = chk.extra.get("reference_out_of_scope", 0) + r["oos"]
        chk.extra["engine_budget_exhausted"] = chk.extra.get("engine_budget_exhausted", 0) + r["budget"]
        for k, v in r["excluded"].items():
            chk.excluded[k] += v
        for s in r["samples"]:
            chk.sample(s, cls=sub, per_class=6)
        js_cases.extend(r["js"])
        for mm in r["mismatches"]:
            ast = P.from_json(mm["ast"])
            case = {"pattern": mm["pattern"], "flags": mm["flags"], "subject": mm["subject"], "via": "api"}
            if "from" in mm:
                case["from"] = mm["from"]
            sig = signature(sub.split("-")[0], mm["expected"], mm["actual"], ast)
            if sub in ("exh3", "exh4", "seq3", "life") and mm["subject"] is not None:
                chk.cell(cell_key(mm["pattern"], mm["flags"], mm["subject"]), mm["expected"], mm["actual"], case,
                         sub=sub, signature=sig)
            else:
                chk.violation(sig, case, mm["expected"], mm["actual"], sub=sub)


def _too_slow(chk):
    """The engine keeps running into the CPU alarm (already reported as violations): stop here instead of
    spending hours; the evidence says truncated."""
    if chk.extra.get("aborted_tasks", 0) >= 8:
        chk.truncated = True
        chk.exhaustive = False
        return True
    return False


def _activate_guards(chk):
    _active_guards.clear()
    for name, e in chk.guards.items():
        if name not in GUARDS:
            raise engine.HarnessError("known finding %s names an unknown guard %s" % (e.get("id"), name))
        still = True
        if e.get("repro"):
            path = os.path.join(core.ROOT, e["repro"])
            rec = core.load_json(path)
            r = replay(rec)
            still = r["fails"] and r["actual"] == rec.get("actual")
        if still:
            _active_guards[name] = e["id"]
            chk.known_hit(e["id"], 1)
    chk.extra["active_guards"] = sorted(_active_guards)


def main(chk):
    global _PATTERNS, _SUBJ_ABC, _SEED
    chk.rule = (
        "(pattern, flags, subject) where the pattern has at least one quantifier, alternation, group, assertion or "
        "backreference and the reference either matches or fails only after consuming >= 1 character at some start "
        "index; distinct by (pattern text, flags, subject)"
    )
    chk.assumptions = [
        "oracles/reref.py transcribes ECMA-262 22.2.2 (non-unicode mode); validated against node: oracle_validation/reref.json",
        "cases in which the reference needs > 2e5 steps or the engine's answer depends on its 100 000-step budget are out of scope",
        "patterns are printed from ASTs (gens/patterns.py); forward references, unicode mode and invalid ranges are not generated",
    ]
    chk._nontrivial = _CountingSet()
    _SEED = chk.seed
    thorough = chk.tier == "thorough"
    for path, rec in core.saved_replays(ID):
        r = replay(rec)
        chk.count()
        if r["fails"]:
            chk.violation("saved-replay|" + os.path.basename(path), rec.get("case"), r["expected"], r["actual"], sub="replay")
    _activate_guards(chk)
    js_cases = []

    # ---- exhaustive: <= 3 nodes
    _SUBJ_ABC = P.small_subjects(5 if thorough else 4)
    _PATTERNS = [(a, P.to_source(a)) for a in P.enumerate_asts(3)]
    n3 = len(_PATTERNS)
    step = 24 if thorough else 48
    tasks = [(lo, min(lo + step, n3), "exh3") for lo in range(0, n3, step)]
    chk.extra["patterns"] = {"le3_nodes": n3}
    _merge(chk, pool.run(exh_task, tasks, timeout=900), "exh3", js_cases)
    if _too_slow(chk):
        return

    # ---- exhaustive: 4 nodes (quick: seed-rotated 1/8 slice)
    _SUBJ_ABC = P.small_subjects(4)
    all4 = P.enumerate_asts(4, 4)
    if thorough:
        sel = all4
    else:
        sel = [a for i, a in enumerate(all4) if i % 8 == chk.seed % 8]
    _PATTERNS = [(a, P.to_source(a)) for a in sel]
    n4 = len(_PATTERNS)
    tasks = [(lo, min(lo + 48, n4), "exh4") for lo in range(0, n4, 48)]
    chk.extra["patterns"].update({"4_nodes_run": n4, "4_nodes_total": len(all4)})
    _merge(chk, pool.run(exh_task, tasks, timeout=900), "exh4", js_cases)
    if _too_slow(chk):
        return

    # ---- sequences of three small terms (quick: seed-rotated 1/20 slice)
    all_s3 = P.enumerate_seq3()
    sel = all_s3 if thorough else [a for i, a in enumerate(all_s3) if i % 20 == chk.seed % 20]
    _PATTERNS = [(a, P.to_source(a)) for a in sel]
    ns3 = len(_PATTERNS)
    tasks = [(lo, min(lo + 150, ns3), "seq3") for lo in range(0, ns3, 150)]
    _merge(chk, pool.run(exh_task, tasks, timeout=900), "seq3", js_cases)
    chk.extra["patterns"]["seq3_run"] = ns3
    chk.extra["patterns"]["seq3_total"] = len(all_s3)
    del all_s3
    if _too_slow(chk):
        return

    # ---- capture-lifetime families (quick: seed-rotated half)
    all_life = P.enumerate_lifetime()
    sel = all_life if thorough else [a for i, a in enumerate(all_life) if i % 2 == chk.seed % 2]
    _PATTERNS = [(a, P.to_source(a)) for a in sel]
    nl = len(_PATTERNS)
    tasks = [(lo, min(lo + 60, nl), "life") for lo in range(0, nl, 60)]
    _merge(chk, pool.run(exh_task, tasks, timeout=900), "life", js_cases)
    chk.extra["patterns"]["lifetime_run"] = nl
    chk.extra["patterns"]["lifetime_total"] = len(all_life)
    if _too_slow(chk):
        return

    # ---- thorough: seeded sample of the 5-node patterns (judged like random cases: guards, no cells)
    if thorough:
        all5 = P.enumerate_asts(5, 5)
        rnd = random.Random(core.shard_seed(chk.seed, ID, "exh5"))
        sel = rnd.sample(all5, min(60000, len(all5)))
        _PATTERNS = [(a, P.to_source(a)) for a in sel]
        n5 = len(_PATTERNS)
        tasks = [(lo, min(lo + 48, n5), "exh5") for lo in range(0, n5, 48)]
        _merge(chk, pool.run(exh_task, tasks, timeout=900), "exh5", js_cases)
        chk.extra["patterns"]["5_nodes_run"] = n5
        chk.extra["patterns"]["5_nodes_total"] = len(all5)
        del all5
    _PATTERNS = []

    # ---- random
    n_patterns = 400000 if thorough else 40000
    per = 500
    shards = n_patterns // per
    tasks = [("hyp" if k % 2 == 0 else "rnd", k, per, chk.seed) for k in range(shards)]
    _merge(chk, pool.run(rand_task, tasks, timeout=1800), "rand", js_cases)

    # ---- script-level sample
    batches = pool.chunks(js_cases, 100)
    res = pool.run(js_task, batches, timeout=900)
    njs = 0
    for r in res:
        if isinstance(r, (pool.HANG, pool.CRASH)) or r is None:
            raise engine.HarnessError("C09 js batch %r" % (r,))
        njs += r["count"]
        if r["skipped"]:
            chk.truncated = True
        for b in r["bad"]:
            case = {"pattern": b["pattern"], "flags": b["flags"], "subject": b["subject"], "via": b["via"]}
            chk.violation("js|%s|%s" % (b["via"], diff_kind(b["expected"], b["actual"])), case, b["expected"], b["actual"], sub="js")
    chk.count(njs)
    chk.classify("campaign:js", njs)
    chk.exhaustive = False


# -------------------------------------------------------------------------- replay
def replay(rec):
    case = rec["case"]
    ptext, flags, subject = case["pattern"], case["flags"], case["subject"]
    via = case.get("via", "api")
    ast = P.parse(ptext)
    if subject is None:
        with pool.cpu_alarm(60):
            R = engine_construct(ptext, flags)
        bad = isinstance(R, list)
        return {"fails": bad, "expected": "constructs", "actual": R if bad else "constructs"}
    try:
        exp = ref_result(reref.Prog(ast, flags), subject)
    except reref.OutOfScope:
        return {"fails": False, "expected": "out of scope", "actual": None}
    if via == "api":
        try:
            with pool.cpu_alarm(60):
                R = engine_construct(ptext, flags)
                act = R if isinstance(R, list) else engine_exec(R, subject)
        except pool.HarnessTimeout:
            act = ["exception", "HarnessTimeout", "60 s CPU"]
    else:
        got = js_eval_exprs(js_exprs(ptext, flags, subject))
        act = got[0] if via == "constructor" else got[1]
    return {"fails": exp != act, "expected": exp, "actual": act}
